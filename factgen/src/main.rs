// factgen: rustc_private driver exporting resolved MIR and type facts of
// arimaa_engine_step as one JSON file (see DESIGN.md section 2.1).
// Used as RUSTC_WORKSPACE_WRAPPER under `cargo +nightly check --lib`.
#![feature(rustc_private)]
extern crate rustc_abi;
extern crate rustc_driver;
extern crate rustc_hir;
extern crate rustc_infer;
extern crate rustc_interface;
extern crate rustc_middle;
extern crate rustc_span;
extern crate rustc_trait_selection;

use rustc_driver::Callbacks;
use rustc_hir::def::DefKind;
use rustc_hir::def_id::DefId;
use rustc_infer::infer::TyCtxtInferExt;
use rustc_middle::mir::*;
use rustc_middle::ty::print::PrintTraitRefExt;
use rustc_middle::ty::{self, EarlyBinder, Instance, Ty, TyCtxt, TypeVisitableExt, TypingEnv};
use rustc_span::sym;
use rustc_trait_selection::infer::InferCtxtExt;
use std::collections::{BTreeMap, HashMap, HashSet};
use std::fmt::Write;

const CRATE: &str = "arimaa_engine_step";

fn esc(s: &str) -> String {
    let mut o = String::with_capacity(s.len() + 2);
    o.push('"');
    for c in s.chars() {
        match c {
            '"' => o.push_str("\\\""),
            '\\' => o.push_str("\\\\"),
            '\n' => o.push_str("\\n"),
            '\t' => o.push_str("\\t"),
            c if (c as u32) < 0x20 => write!(o, "\\u{:04x}", c as u32).unwrap(),
            c => o.push(c),
        }
    }
    o.push('"');
    o
}

fn hex(bytes: &[u8]) -> String {
    let mut s = String::with_capacity(bytes.len() * 2);
    for b in bytes {
        write!(s, "{:02x}", b).unwrap();
    }
    s
}

struct Ex<'tcx> {
    tcx: TyCtxt<'tcx>,
    types: std::cell::RefCell<BTreeMap<String, String>>,
}

impl<'tcx> Ex<'tcx> {
    /// Register a structural descriptor for `ty`; return its display string (the key).
    fn ty(&self, ty: Ty<'tcx>) -> String {
        let key = format!("{}", ty);
        if self.types.borrow().contains_key(&key) {
            return key;
        }
        self.types.borrow_mut().insert(key.clone(), String::from("null"));
        let tcx = self.tcx;
        let d = match ty.kind() {
            ty::Bool => "{\"k\":\"bool\",\"bits\":1}".to_string(),
            ty::Char => "{\"k\":\"char\",\"bits\":32}".to_string(),
            ty::Int(i) => format!(
                "{{\"k\":\"int\",\"bits\":{},\"signed\":true}}",
                i.bit_width().unwrap_or(64)
            ),
            ty::Uint(u) => format!(
                "{{\"k\":\"int\",\"bits\":{},\"signed\":false}}",
                u.bit_width().unwrap_or(64)
            ),
            ty::Float(_) => "{\"k\":\"float\"}".to_string(),
            ty::Str => "{\"k\":\"str\"}".to_string(),
            ty::Never => "{\"k\":\"never\"}".to_string(),
            ty::Ref(_, t, m) => format!(
                "{{\"k\":\"ref\",\"mut\":{},\"to\":{}}}",
                m.is_mut(),
                esc(&self.ty(*t))
            ),
            ty::RawPtr(t, m) => format!(
                "{{\"k\":\"ptr\",\"mut\":{},\"to\":{}}}",
                m.is_mut(),
                esc(&self.ty(*t))
            ),
            ty::Slice(t) => format!("{{\"k\":\"slice\",\"of\":{}}}", esc(&self.ty(*t))),
            ty::Array(t, n) => {
                let len = n
                    .try_to_target_usize(tcx)
                    .map_or("null".to_string(), |v| v.to_string());
                format!("{{\"k\":\"array\",\"of\":{},\"len\":{}}}", esc(&self.ty(*t)), len)
            }
            ty::Tuple(ts) => {
                let v: Vec<String> = ts.iter().map(|t| esc(&self.ty(t))).collect();
                // field offsets of monomorphic tuples (constants of tuple type are exported as raw bytes)
                let mut lay = String::new();
                if !ty.has_param() && !ty.has_infer() && !ty.has_aliases() {
                    if let Ok(l) = tcx.layout_of(TypingEnv::fully_monomorphized().as_query_input(ty)) {
                        let offs: Vec<String> = (0..ts.len()).map(|i| l.fields.offset(i).bytes().to_string()).collect();
                        lay = format!(",\"offs\":[{}],\"size\":{}", offs.join(","), l.size.bytes());
                    }
                }
                format!("{{\"k\":\"tuple\",\"of\":[{}]{}}}", v.join(","), lay)
            }
            ty::Adt(def, args) => {
                let targs: Vec<String> = args.types().map(|t| esc(&self.ty(t))).collect();
                let mut variants = vec![];
                if def.is_enum() {
                    for (vi, d) in def.discriminants(tcx) {
                        let v = def.variant(vi);
                        let ftys: Vec<String> = v
                            .fields
                            .iter()
                            .map(|f| esc(&self.ty(f.ty(tcx, args))))
                            .collect();
                        variants.push(format!(
                            "{{\"name\":{},\"discr\":\"{}\",\"fields\":[{}]}}",
                            esc(v.name.as_str()),
                            d.val,
                            ftys.join(",")
                        ));
                    }
                } else if def.is_struct() {
                    let v = def.non_enum_variant();
                    let ftys: Vec<String> = v
                        .fields
                        .iter()
                        .map(|f| esc(&self.ty(f.ty(tcx, args))))
                        .collect();
                    variants.push(format!(
                        "{{\"name\":{},\"discr\":\"0\",\"fields\":[{}]}}",
                        esc(v.name.as_str()),
                        ftys.join(",")
                    ));
                }
                // field offsets of monomorphic structs (constants of struct type are exported as raw bytes)
                let mut lay = String::new();
                if def.is_struct() && !ty.has_param() && !ty.has_infer() && !ty.has_aliases() {
                    if let Ok(l) = tcx.layout_of(TypingEnv::fully_monomorphized().as_query_input(ty)) {
                        let n = def.non_enum_variant().fields.len();
                        let offs: Vec<String> = (0..n).map(|i| l.fields.offset(i).bytes().to_string()).collect();
                        lay = format!(",\"offs\":[{}],\"size\":{}", offs.join(","), l.size.bytes());
                    }
                }
                format!(
                    "{{\"k\":\"adt\",\"path\":{},\"local\":{},\"enum\":{},\"targs\":[{}],\"variants\":[{}]{}}}",
                    esc(&tcx.def_path_str(def.did())),
                    def.did().is_local(),
                    def.is_enum(),
                    targs.join(","),
                    variants.join(","),
                    lay
                )
            }
            ty::Closure(did, _) => format!(
                "{{\"k\":\"closure\",\"path\":{}}}",
                esc(&tcx.def_path_str(*did))
            ),
            ty::FnDef(did, _) => format!("{{\"k\":\"fndef\",\"path\":{}}}", esc(&tcx.def_path_str(*did))),
            ty::FnPtr(..) => "{\"k\":\"fnptr\"}".to_string(),
            ty::Dynamic(..) => "{\"k\":\"dyn\"}".to_string(),
            ty::Param(_) => "{\"k\":\"param\"}".to_string(),
            _ => format!("{{\"k\":\"other\",\"dbg\":{}}}", esc(&format!("{:?}", ty.kind()))),
        };
        self.types.borrow_mut().insert(key.clone(), d);
        key
    }

    fn place(&self, p: &Place<'tcx>) -> String {
        let mut s = format!("{{\"l\":{},\"p\":[", p.local.as_usize());
        for (i, e) in p.projection.iter().enumerate() {
            if i > 0 {
                s.push(',');
            }
            match e {
                ProjectionElem::Deref => s.push_str("\"deref\""),
                ProjectionElem::Field(f, _) => write!(s, "{{\"f\":{}}}", f.as_usize()).unwrap(),
                ProjectionElem::Index(l) => write!(s, "{{\"idx\":{}}}", l.as_usize()).unwrap(),
                ProjectionElem::ConstantIndex { offset, from_end, .. } => {
                    write!(s, "{{\"cidx\":{},\"from_end\":{}}}", offset, from_end).unwrap()
                }
                ProjectionElem::Downcast(_, v) => write!(s, "{{\"dc\":{}}}", v.as_usize()).unwrap(),
                other => write!(s, "{{\"other\":{}}}", esc(&format!("{:?}", other))).unwrap(),
            }
        }
        s.push_str("]}");
        s
    }

    /// Bytes of a constant allocation (no pointers followed except one level for `&[T; N]` / `&str`).
    fn alloc_bytes(&self, v: &ConstValue, ty: Ty<'tcx>) -> Option<String> {
        let tcx = self.tcx;
        match v {
            ConstValue::Indirect { alloc_id, offset } => {
                let a = tcx.global_alloc(*alloc_id).unwrap_memory().inner();
                let size = tcx
                    .layout_of(TypingEnv::fully_monomorphized().as_query_input(ty))
                    .ok()?
                    .size
                    .bytes_usize();
                let start = offset.bytes_usize();
                let bytes = a.inspect_with_uninit_and_ptr_outside_interpreter(start..start + size);
                Some(hex(bytes))
            }
            ConstValue::Slice { alloc_id, meta } => {
                let a = tcx.global_alloc(*alloc_id).unwrap_memory().inner();
                let n = *meta as usize;
                if let ty::Ref(_, inner, _) = ty.kind() {
                    if inner.is_str() {
                        let bytes = a.inspect_with_uninit_and_ptr_outside_interpreter(0..n);
                        return Some(hex(bytes));
                    }
                }
                None
            }
            ConstValue::Scalar(rustc_middle::mir::interpret::Scalar::Ptr(ptr, _)) => {
                // reference to an allocation: `&[T; N]`, `&T`
                if let ty::Ref(_, inner, _) = ty.kind() {
                    let (prov, off) = ptr.prov_and_relative_offset();
                    let ga = tcx.global_alloc(prov.alloc_id());
                    if let rustc_middle::mir::interpret::GlobalAlloc::Memory(m) = ga {
                        let a = m.inner();
                        let size = tcx
                            .layout_of(TypingEnv::fully_monomorphized().as_query_input(*inner))
                            .ok()?
                            .size
                            .bytes_usize();
                        let start = off.bytes_usize();
                        if start + size <= a.len() {
                            let bytes = a.inspect_with_uninit_and_ptr_outside_interpreter(start..start + size);
                            return Some(hex(bytes));
                        }
                    }
                }
                None
            }
            _ => None,
        }
    }

    /// Function pointers stored inside a constant allocation: `[[byte offset, "def path"], ..]` for every pointer-sized slot whose
    /// provenance is a function (`const TABLE: [fn(..); N] = [f, g, h]`).
    fn alloc_fnptrs(&self, v: &ConstValue, ty: Ty<'tcx>) -> Option<String> {
        let tcx = self.tcx;
        let (alloc_id, start, size) = match v {
            ConstValue::Indirect { alloc_id, offset } => {
                let size = tcx
                    .layout_of(TypingEnv::fully_monomorphized().as_query_input(ty))
                    .ok()?
                    .size
                    .bytes_usize();
                (*alloc_id, offset.bytes_usize(), size)
            }
            ConstValue::Scalar(rustc_middle::mir::interpret::Scalar::Ptr(ptr, _)) => {
                if let ty::Ref(_, inner, _) = ty.kind() {
                    let (prov, off) = ptr.prov_and_relative_offset();
                    let size = tcx
                        .layout_of(TypingEnv::fully_monomorphized().as_query_input(*inner))
                        .ok()?
                        .size
                        .bytes_usize();
                    (prov.alloc_id(), off.bytes_usize(), size)
                } else {
                    return None;
                }
            }
            _ => return None,
        };
        let ga = tcx.global_alloc(alloc_id);
        let m = match ga {
            rustc_middle::mir::interpret::GlobalAlloc::Memory(m) => m,
            _ => return None,
        };
        let a = m.inner();
        let mut out: Vec<String> = Vec::new();
        for (off, prov) in a.provenance().ptrs().iter() {
            let o = off.bytes_usize();
            if o < start || o >= start + size {
                continue;
            }
            if let rustc_middle::mir::interpret::GlobalAlloc::Function { instance, .. } = tcx.global_alloc(prov.alloc_id()) {
                out.push(format!("[{},{}]", o - start, esc(&tcx.def_path_str(instance.def_id()))));
            }
        }
        if out.is_empty() {
            None
        } else {
            Some(format!("[{}]", out.join(",")))
        }
    }

    fn konst(&self, c: &ConstOperand<'tcx>) -> String {
        let tcx = self.tcx;
        let ty = c.const_.ty();
        let tys = esc(&self.ty(ty));
        if let ty::FnDef(did, args) = ty.kind() {
            return format!(
                "{{\"k\":\"fn\",\"path\":{},\"args\":{}}}",
                esc(&tcx.def_path_str(*did)),
                esc(&format!("{:?}", args))
            );
        }
        // named constant?
        let name = match c.const_ {
            Const::Unevaluated(u, _) => {
                if u.promoted.is_some() {
                    format!("{{\"promoted\":{}}}", u.promoted.unwrap().as_usize())
                } else {
                    esc(&tcx.def_path_str(u.def))
                }
            }
            _ => "null".to_string(),
        };
        let tenv = TypingEnv::fully_monomorphized();
        match c.const_.eval(tcx, tenv, c.span) {
            Ok(v) => {
                if let Some(si) = v.try_to_scalar_int() {
                    let bits = si.to_bits(si.size());
                    return format!(
                        "{{\"k\":\"int\",\"ty\":{},\"v\":\"{}\",\"name\":{}}}",
                        tys, bits, name
                    );
                }
                if let ConstValue::ZeroSized = v {
                    return format!("{{\"k\":\"zst\",\"ty\":{},\"name\":{}}}", tys, name);
                }
                let bytes = self
                    .alloc_bytes(&v, ty)
                    .map_or("null".to_string(), |h| format!("\"{}\"", h));
                let fnptrs = self.alloc_fnptrs(&v, ty).unwrap_or("null".to_string());
                format!(
                    "{{\"k\":\"val\",\"ty\":{},\"bytes\":{},\"name\":{},\"fnptrs\":{},\"dbg\":{}}}",
                    tys,
                    bytes,
                    name,
                    fnptrs,
                    esc(&format!("{:?}", v).chars().take(120).collect::<String>())
                )
            }
            Err(_) => format!(
                "{{\"k\":\"uneval\",\"ty\":{},\"name\":{},\"dbg\":{}}}",
                tys,
                name,
                esc(&format!("{:?}", c.const_))
            ),
        }
    }

    fn operand(&self, o: &Operand<'tcx>) -> String {
        match o {
            Operand::Copy(p) => format!("{{\"k\":\"copy\",\"pl\":{}}}", self.place(p)),
            Operand::Move(p) => format!("{{\"k\":\"move\",\"pl\":{}}}", self.place(p)),
            Operand::Constant(c) => self.konst(c),
            other => format!("{{\"k\":\"other\",\"dbg\":{}}}", esc(&format!("{:?}", other))),
        }
    }

    fn rvalue(&self, rv: &Rvalue<'tcx>) -> String {
        match rv {
            Rvalue::Use(o, _) => format!("{{\"k\":\"use\",\"o\":{}}}", self.operand(o)),
            Rvalue::Ref(_, bk, p) => format!(
                "{{\"k\":\"ref\",\"mut\":{},\"pl\":{}}}",
                matches!(bk, BorrowKind::Mut { .. }),
                self.place(p)
            ),
            Rvalue::RawPtr(_, p) => format!("{{\"k\":\"rawptr\",\"pl\":{}}}", self.place(p)),
            Rvalue::BinaryOp(op, ab) => format!(
                "{{\"k\":\"bin\",\"op\":\"{:?}\",\"a\":{},\"b\":{}}}",
                op,
                self.operand(&ab.0),
                self.operand(&ab.1)
            ),
            Rvalue::UnaryOp(op, a) => format!("{{\"k\":\"un\",\"op\":\"{:?}\",\"a\":{}}}", op, self.operand(a)),
            Rvalue::Cast(kind, o, ty) => format!(
                "{{\"k\":\"cast\",\"ck\":{},\"o\":{},\"ty\":{}}}",
                esc(&format!("{:?}", kind)),
                self.operand(o),
                esc(&self.ty(*ty))
            ),
            Rvalue::Discriminant(p) => format!("{{\"k\":\"discr\",\"pl\":{}}}", self.place(p)),
            Rvalue::CopyForDeref(p) => format!("{{\"k\":\"use\",\"o\":{{\"k\":\"copy\",\"pl\":{}}}}}", self.place(p)),
            Rvalue::Repeat(o, n) => format!(
                "{{\"k\":\"repeat\",\"o\":{},\"n\":{}}}",
                self.operand(o),
                n.try_to_target_usize(self.tcx).map_or("null".to_string(), |v| v.to_string())
            ),
            Rvalue::Aggregate(kind, ops) => {
                let k = match &**kind {
                    AggregateKind::Adt(did, v, ..) => format!(
                        "\"adt\":{},\"variant\":{}",
                        esc(&self.tcx.def_path_str(*did)),
                        v.as_usize()
                    ),
                    AggregateKind::Tuple => "\"tuple\":true".to_string(),
                    AggregateKind::Array(_) => "\"array\":true".to_string(),
                    AggregateKind::Closure(did, _) => format!("\"closure\":{}", esc(&self.tcx.def_path_str(*did))),
                    AggregateKind::RawPtr(..) => "\"rawptr\":true".to_string(),
                    other => format!("\"other\":{}", esc(&format!("{:?}", other))),
                };
                let ops: Vec<String> = ops.iter().map(|o| self.operand(o)).collect();
                format!("{{\"k\":\"agg\",{},\"ops\":[{}]}}", k, ops.join(","))
            }
            other => format!("{{\"k\":\"other\",\"dbg\":{}}}", esc(&format!("{:?}", other))),
        }
    }

    fn line(&self, sp: rustc_span::Span) -> String {
        let sm = self.tcx.sess.source_map();
        let lo = sm.lookup_char_pos(sp.lo());
        esc(&format!("{}:{}", lo.file.name.prefer_local_unconditionally(), lo.line))
    }

    fn resolve_call(&self, func: &Operand<'tcx>) -> String {
        let tcx = self.tcx;
        let tenv = TypingEnv::fully_monomorphized();
        if let Some((did, ga)) = func.const_fn_def() {
            let nominal = esc(&tcx.def_path_str(did));
            // generic bodies: try_resolve may fail or ICE on unresolved params; guard on has_param
            let has_param = ga.iter().any(|a| format!("{:?}", a).contains('/'));
            let _ = has_param;
            let r = std::panic::catch_unwind(std::panic::AssertUnwindSafe(|| {
                Instance::try_resolve(tcx, tenv, did, ga)
            }));
            if let Ok(Ok(Some(inst))) = r {
                let idid = inst.def_id();
                let kind = format!("{:?}", inst.def);
                let kind = kind.split('(').next().unwrap_or("").to_string();
                let trait_of = tcx
                    .trait_of_assoc(did)
                    .map_or("null".to_string(), |t| esc(&tcx.def_path_str(t)));
                return format!(
                    "{{\"path\":{},\"nominal\":{},\"trait\":{},\"args\":{},\"kind\":{},\"local\":{}}}",
                    esc(&tcx.def_path_str(idid)),
                    nominal,
                    trait_of,
                    esc(&format!("{:?}", inst.args)),
                    esc(&kind),
                    idid.is_local()
                );
            }
            let trait_of = tcx
                .trait_of_assoc(did)
                .map_or("null".to_string(), |t| esc(&tcx.def_path_str(t)));
            return format!(
                "{{\"path\":{},\"nominal\":{},\"trait\":{},\"args\":{},\"kind\":\"Unresolved\",\"local\":{}}}",
                nominal,
                nominal,
                trait_of,
                esc(&format!("{:?}", ga)),
                did.is_local()
            );
        }
        "null".to_string()
    }

    fn body(&self, body: &Body<'tcx>) -> String {
        let tcx = self.tcx;
        let mut s = String::new();
        write!(s, "{{\"argc\":{},\"locals\":[", body.arg_count).unwrap();
        for (i, d) in body.local_decls.iter().enumerate() {
            if i > 0 {
                s.push(',');
            }
            s.push_str(&esc(&self.ty(d.ty)));
        }
        s.push_str("],\"names\":{");
        let mut firstn = true;
        for vdi in &body.var_debug_info {
            if let VarDebugInfoContents::Place(p) = &vdi.value {
                if p.projection.is_empty() {
                    if !firstn {
                        s.push(',');
                    }
                    firstn = false;
                    write!(s, "\"{}\":{}", p.local.as_usize(), esc(vdi.name.as_str())).unwrap();
                }
            }
        }
        s.push_str("},\"blocks\":[");
        for (bi, bb) in body.basic_blocks.iter().enumerate() {
            if bi > 0 {
                s.push(',');
            }
            write!(s, "{{\"cleanup\":{},\"st\":[", bb.is_cleanup).unwrap();
            let mut first = true;
            for st in &bb.statements {
                let item = match &st.kind {
                    StatementKind::Assign(b) => Some(format!(
                        "{{\"dst\":{},\"rv\":{},\"exp\":{},\"at\":{}}}",
                        self.place(&b.0),
                        self.rvalue(&b.1),
                        st.source_info.span.from_expansion(),
                        self.line(st.source_info.span)
                    )),
                    StatementKind::SetDiscriminant { place, variant_index } => Some(format!(
                        "{{\"setdiscr\":{},\"variant\":{},\"at\":{}}}",
                        self.place(place),
                        variant_index.as_usize(),
                        self.line(st.source_info.span)
                    )),
                    StatementKind::Intrinsic(i) => Some(format!(
                        "{{\"intrinsic\":{},\"at\":{}}}",
                        esc(&format!("{:?}", i).chars().take(80).collect::<String>()),
                        self.line(st.source_info.span)
                    )),
                    _ => None,
                };
                if let Some(it) = item {
                    if !first {
                        s.push(',');
                    }
                    first = false;
                    s.push_str(&it);
                }
            }
            s.push_str("],\"term\":");
            let t = bb.terminator();
            let at = self.line(t.source_info.span);
            let exp = t.source_info.span.from_expansion();
            match &t.kind {
                TerminatorKind::Goto { target } => write!(s, "{{\"k\":\"goto\",\"t\":{}}}", target.as_usize()).unwrap(),
                TerminatorKind::SwitchInt { discr, targets } => {
                    let mut ts = vec![];
                    for (v, t) in targets.iter() {
                        ts.push(format!("[\"{}\",{}]", v, t.as_usize()));
                    }
                    write!(
                        s,
                        "{{\"k\":\"switch\",\"d\":{},\"ts\":[{}],\"else\":{},\"at\":{}}}",
                        self.operand(discr),
                        ts.join(","),
                        targets.otherwise().as_usize(),
                        at
                    )
                    .unwrap()
                }
                TerminatorKind::Return => s.push_str("{\"k\":\"return\"}"),
                TerminatorKind::Unreachable => s.push_str("{\"k\":\"unreachable\"}"),
                TerminatorKind::UnwindResume => s.push_str("{\"k\":\"resume\"}"),
                TerminatorKind::Drop { place, target, .. } => {
                    let pty = place.ty(&body.local_decls, tcx).ty;
                    write!(
                        s,
                        "{{\"k\":\"drop\",\"pl\":{},\"ty\":{},\"t\":{},\"at\":{}}}",
                        self.place(place),
                        esc(&self.ty(pty)),
                        target.as_usize(),
                        at
                    )
                    .unwrap()
                }
                TerminatorKind::Call { func, args, destination, target, .. } => {
                    let resolved = self.resolve_call(func);
                    let a: Vec<String> = args.iter().map(|o| self.operand(&o.node)).collect();
                    write!(
                        s,
                        "{{\"k\":\"call\",\"f\":{},\"res\":{},\"a\":[{}],\"dst\":{},\"t\":{},\"exp\":{},\"at\":{}}}",
                        self.operand(func),
                        resolved,
                        a.join(","),
                        self.place(destination),
                        target.map_or("null".to_string(), |t| t.as_usize().to_string()),
                        exp,
                        at
                    )
                    .unwrap()
                }
                TerminatorKind::Assert { cond, expected, msg, target, .. } => {
                    let full = format!("{:?}", msg);
                    let kind = full.split(|c| c == '(' || c == ' ' || c == '{').next().unwrap_or("").to_string();
                    let ops = match &**msg {
                        AssertKind::Overflow(op, a, b) => format!(
                            "{{\"op\":\"{:?}\",\"a\":{},\"b\":{}}}",
                            op,
                            self.operand(a),
                            self.operand(b)
                        ),
                        AssertKind::BoundsCheck { len, index } => format!(
                            "{{\"len\":{},\"index\":{}}}",
                            self.operand(len),
                            self.operand(index)
                        ),
                        AssertKind::DivisionByZero(a) | AssertKind::RemainderByZero(a) | AssertKind::OverflowNeg(a) => {
                            format!("{{\"a\":{}}}", self.operand(a))
                        }
                        _ => "null".to_string(),
                    };
                    write!(
                        s,
                        "{{\"k\":\"assert\",\"c\":{},\"expected\":{},\"msg\":{},\"ops\":{},\"t\":{},\"exp\":{},\"at\":{}}}",
                        self.operand(cond),
                        expected,
                        esc(&kind),
                        ops,
                        target.as_usize(),
                        exp,
                        at
                    )
                    .unwrap()
                }
                TerminatorKind::FalseEdge { real_target, .. } | TerminatorKind::FalseUnwind { real_target, .. } => {
                    write!(s, "{{\"k\":\"goto\",\"t\":{}}}", real_target.as_usize()).unwrap()
                }
                other => write!(s, "{{\"k\":\"other\",\"dbg\":{}}}", esc(&format!("{:?}", other))).unwrap(),
            }
            s.push('}');
        }
        s.push_str("]}");
        s
    }

    // ---- monomorphic walk (drop glue + generic std bodies) ----
    fn inst_name(&self, i: Instance<'tcx>) -> String {
        match i.def {
            ty::InstanceKind::DropGlue(_, Some(t)) => format!("drop_in_place<{}>", t),
            ty::InstanceKind::DropGlue(_, None) => format!("drop_in_place<{}>[noop]", i.args.type_at(0)),
            ty::InstanceKind::Item(d) => {
                let p = self.tcx.def_path_str(d);
                let targs: Vec<String> = i.args.types().map(|t| format!("{}", t)).collect();
                if targs.is_empty() {
                    p
                } else {
                    format!("{}<{}>", p, targs.join(", "))
                }
            }
            _ => format!("{:?}", i.def).chars().take(160).collect(),
        }
    }

    fn mono_callees(&self, inst: Instance<'tcx>) -> Option<Vec<(Instance<'tcx>, bool)>> {
        let tcx = self.tcx;
        let tenv = TypingEnv::fully_monomorphized();
        match inst.def {
            ty::InstanceKind::Item(d) => {
                if !tcx.is_mir_available(d) {
                    return None;
                }
                if matches!(tcx.def_kind(d), DefKind::Fn | DefKind::AssocFn | DefKind::Closure) == false {
                    return None;
                }
                if tcx.intrinsic(d).is_some() {
                    return None;
                }
            }
            ty::InstanceKind::DropGlue(_, Some(_)) => {}
            _ => return None,
        }
        let body = tcx.instance_mir(inst.def);
        let mut out = vec![];
        for bb in body.basic_blocks.iter() {
            if bb.is_cleanup {
                continue;
            }
            match &bb.terminator().kind {
                TerminatorKind::Call { func, .. } => {
                    let fty = func.ty(&body.local_decls, tcx);
                    let fty = inst.instantiate_mir_and_normalize_erasing_regions(tcx, tenv, EarlyBinder::bind(fty));
                    if let ty::FnDef(did, args) = fty.kind() {
                        if let Ok(Some(ci)) = Instance::try_resolve(tcx, tenv, *did, args) {
                            out.push((ci, false));
                        }
                    }
                }
                TerminatorKind::Drop { place, .. } => {
                    let pty = place.ty(&body.local_decls, tcx).ty;
                    let pty = inst.instantiate_mir_and_normalize_erasing_regions(tcx, tenv, EarlyBinder::bind(pty));
                    out.push((Instance::resolve_drop_in_place(tcx, pty), true));
                }
                _ => {}
            }
        }
        Some(out)
    }

    fn mono_walk(&self, roots: Vec<(String, Instance<'tcx>)>, cap: usize) -> String {
        let mut ids: HashMap<Instance<'tcx>, usize> = HashMap::new();
        let mut nodes: Vec<(Instance<'tcx>, Option<Vec<(usize, bool)>>)> = vec![];
        let mut stack: Vec<Instance<'tcx>> = vec![];
        let mut rootids = vec![];
        for (name, r) in &roots {
            let id = *ids.entry(*r).or_insert_with(|| {
                nodes.push((*r, None));
                stack.push(*r);
                nodes.len() - 1
            });
            rootids.push(format!("[{},{}]", esc(name), id));
        }
        let mut visited: HashSet<usize> = HashSet::new();
        let mut truncated = false;
        while let Some(i) = stack.pop() {
            let id = ids[&i];
            if !visited.insert(id) {
                continue;
            }
            if nodes.len() > cap {
                truncated = true;
                break;
            }
            let cs = std::panic::catch_unwind(std::panic::AssertUnwindSafe(|| self.mono_callees(i)));
            let cs = match cs {
                Ok(c) => c,
                Err(_) => None,
            };
            if let Some(cs) = cs {
                let mut edges = vec![];
                for (c, is_drop) in cs {
                    let cid = *ids.entry(c).or_insert_with(|| {
                        nodes.push((c, None));
                        stack.push(c);
                        nodes.len() - 1
                    });
                    edges.push((cid, is_drop));
                }
                nodes[id].1 = Some(edges);
            }
        }
        let mut s = String::new();
        write!(s, "{{\"truncated\":{},\"roots\":[{}],\"nodes\":[", truncated, rootids.join(",")).unwrap();
        for (k, (inst, edges)) in nodes.iter().enumerate() {
            if k > 0 {
                s.push(',');
            }
            let local = inst.def_id().is_local();
            let kind = format!("{:?}", inst.def);
            let kind = kind.split('(').next().unwrap_or("").to_string();
            let e = match edges {
                None => "null".to_string(),
                Some(es) => {
                    let v: Vec<String> = es.iter().map(|(c, d)| format!("[{},{}]", c, d)).collect();
                    format!("[{}]", v.join(","))
                }
            };
            write!(
                s,
                "{{\"name\":{},\"path\":{},\"kind\":{},\"local\":{},\"edges\":{}}}",
                esc(&self.inst_name(*inst)),
                esc(&self.tcx.def_path_str(inst.def_id())),
                esc(&kind),
                local,
                e
            )
            .unwrap();
        }
        s.push_str("]}");
        s
    }

    /// Deep ownership walk: every type reachable through fields and generic args
    /// (so through Box/Arc/Vec/Option pointees); reports UnsafeCell / raw pointers with the path.
    fn deep_walk(&self, ty: Ty<'tcx>, path: &mut Vec<String>, seen: &mut HashSet<Ty<'tcx>>, out: &mut Vec<String>) {
        let tcx = self.tcx;
        if !seen.insert(ty) {
            return;
        }
        match ty.kind() {
            ty::Adt(def, args) => {
                let p = tcx.def_path_str(def.did());
                if def.is_unsafe_cell() {
                    out.push(format!(
                        "{{\"what\":\"UnsafeCell\",\"ty\":{},\"via\":[{}]}}",
                        esc(&format!("{}", ty)),
                        path.iter().map(|x| esc(x)).collect::<Vec<_>>().join(",")
                    ));
                }
                path.push(p);
                for v in def.variants() {
                    for f in &v.fields {
                        let ft = f.ty(tcx, args);
                        self.deep_walk(ft, path, seen, out);
                    }
                }
                for t in args.types() {
                    self.deep_walk(t, path, seen, out);
                }
                path.pop();
            }
            ty::RawPtr(t, _) => {
                out.push(format!(
                    "{{\"what\":\"RawPtr\",\"ty\":{},\"via\":[{}]}}",
                    esc(&format!("{}", ty)),
                    path.iter().map(|x| esc(x)).collect::<Vec<_>>().join(",")
                ));
                self.deep_walk(*t, path, seen, out);
            }
            ty::Ref(_, t, _) | ty::Slice(t) | ty::Array(t, _) => self.deep_walk(*t, path, seen, out),
            ty::Tuple(ts) => {
                for t in ts.iter() {
                    self.deep_walk(t, path, seen, out);
                }
            }
            ty::Dynamic(..) | ty::FnPtr(..) => {
                out.push(format!(
                    "{{\"what\":\"Opaque\",\"ty\":{},\"via\":[{}]}}",
                    esc(&format!("{}", ty)),
                    path.iter().map(|x| esc(x)).collect::<Vec<_>>().join(",")
                ));
            }
            _ => {}
        }
    }

    fn implements(&self, ty: Ty<'tcx>, tr: DefId) -> bool {
        let infcx = self.tcx.infer_ctxt().build(ty::TypingMode::PostAnalysis);
        infcx
            .type_implements_trait(tr, [ty], ty::ParamEnv::empty())
            .must_apply_modulo_regions()
    }
}

struct UnsafeFinder<'tcx> {
    tcx: TyCtxt<'tcx>,
    found: Vec<String>,
}
impl<'tcx> rustc_hir::intravisit::Visitor<'tcx> for UnsafeFinder<'tcx> {
    fn visit_block(&mut self, b: &'tcx rustc_hir::Block<'tcx>) {
        if let rustc_hir::BlockCheckMode::UnsafeBlock(src) = b.rules {
            let sm = self.tcx.sess.source_map();
            let lo = sm.lookup_char_pos(b.span.lo());
            self.found.push(format!(
                "{{\"at\":{},\"user\":{},\"exp\":{}}}",
                esc(&format!("{}:{}", lo.file.name.prefer_local_unconditionally(), lo.line)),
                matches!(src, rustc_hir::UnsafeSource::UserProvided),
                b.span.from_expansion()
            ));
        }
        rustc_hir::intravisit::walk_block(self, b);
    }
}

struct Cb;
impl Callbacks for Cb {
    fn after_analysis<'tcx>(
        &mut self,
        _c: &rustc_interface::interface::Compiler,
        tcx: TyCtxt<'tcx>,
    ) -> rustc_driver::Compilation {
        let want = std::env::var("FACTS_CRATE").unwrap_or(CRATE.to_string());
        if tcx.crate_name(rustc_span::def_id::LOCAL_CRATE).as_str() != want {
            return rustc_driver::Compilation::Continue;
        }
        let ex = Ex { tcx, types: Default::default() };
        let sm = tcx.sess.source_map();
        let mut out = String::new();
        write!(out, "{{\"crate\":{},\"fns\":{{", esc(&want)).unwrap();
        let ev = tcx.effective_visibilities(());
        let mut first = true;
        let mut files: HashSet<String> = HashSet::new();
        let mut nbodies = 0usize;
        let mut unsafe_blocks: Vec<String> = vec![];
        for id in tcx.hir_body_owners() {
            let did = id.to_def_id();
            let kind = tcx.def_kind(did);
            // unsafe blocks anywhere (fn bodies, consts, statics)
            {
                let mut uf = UnsafeFinder { tcx, found: vec![] };
                let b = tcx.hir_body_owned_by(id);
                rustc_hir::intravisit::Visitor::visit_body(&mut uf, b);
                for f in uf.found {
                    unsafe_blocks.push(format!("{{\"in\":{},\"b\":{}}}", esc(&tcx.def_path_str(did)), f));
                }
            }
            if !matches!(kind, DefKind::Fn | DefKind::AssocFn | DefKind::Closure) {
                continue;
            }
            let body = tcx.optimized_mir(did);
            nbodies += 1;
            if !first {
                out.push(',');
            }
            first = false;
            let mut b = ex.body(body);
            let proms = tcx.promoted_mir(did);
            let ps: Vec<String> = proms.iter().map(|p| ex.body(p)).collect();
            b.pop();
            let sp = tcx.def_span(did);
            let lo = sm.lookup_char_pos(sp.lo());
            let file = format!("{}", lo.file.name.prefer_local_unconditionally());
            files.insert(file.clone());
            let is_fn = matches!(kind, DefKind::Fn | DefKind::AssocFn);
            let vis = if is_fn { format!("{:?}", tcx.visibility(did)) } else { "closure".to_string() };
            let reachable = is_fn && ev.is_reachable(id);
            let impl_of = if is_fn { tcx.impl_of_assoc(did) } else { None };
            let trait_impl = impl_of
                .and_then(|i| tcx.impl_opt_trait_ref(i))
                .map(|t| format!("{}", t.instantiate_identity().skip_norm_wip().print_only_trait_path()));
            let self_ty = impl_of.map(|i| format!("{}", tcx.type_of(i).instantiate_identity().skip_norm_wip()));
            let derived = impl_of.map_or(false, |i| tcx.is_automatically_derived(i));
            let unsafe_fn = is_fn && tcx.fn_sig(did).skip_binder().safety().is_unsafe();
            let parent = if matches!(kind, DefKind::Closure) {
                esc(&tcx.def_path_str(tcx.typeck_root_def_id(did)))
            } else {
                "null".to_string()
            };
            let generic = tcx.generics_of(did).count() > 0 && tcx.generics_of(did).requires_monomorphization(tcx);
            write!(
                b,
                ",\"promoted\":[{}],\"kind\":{},\"vis\":{},\"reachable\":{},\"trait_impl\":{},\"self_ty\":{},\"derived\":{},\"unsafe_fn\":{},\"parent\":{},\"generic\":{},\"file\":{},\"line\":{}}}",
                ps.join(","),
                esc(&format!("{:?}", kind)),
                esc(&vis),
                reachable,
                trait_impl.map_or("null".to_string(), |t| esc(&t)),
                self_ty.map_or("null".to_string(), |t| esc(&t)),
                derived,
                unsafe_fn,
                parent,
                generic,
                esc(&file),
                lo.line
            )
            .unwrap();
            write!(out, "{}:{}", esc(&tcx.def_path_str(did)), b).unwrap();
        }
        out.push_str("},\"consts\":{");
        // ---- constants, statics, ADTs, impls
        let mut first = true;
        let mut statics = vec![];
        let mut foreign = vec![];
        let mut adts: Vec<String> = vec![];
        let mut impls: Vec<String> = vec![];
        let mut mono_roots: Vec<(String, Instance<'tcx>)> = vec![];
        let tenv = TypingEnv::fully_monomorphized();
        let send = tcx.get_diagnostic_item(sym::Send);
        let sync = tcx.get_diagnostic_item(sym::Sync);
        let unpin = tcx.lang_items().unpin_trait();
        for id in tcx.hir_crate_items(()).definitions() {
            let did = id.to_def_id();
            match tcx.def_kind(did) {
                DefKind::Const { .. } | DefKind::AssocConst { .. } => {
                    let name = tcx.def_path_str(did);
                    let ty = tcx.type_of(did).instantiate_identity().skip_norm_wip();
                    let tys = ex.ty(ty);
                    let v = match tcx.const_eval_poly(did) {
                        Ok(v) => {
                            if let Some(si) = v.try_to_scalar_int() {
                                format!("{{\"ty\":{},\"int\":\"{}\"}}", esc(&tys), si.to_bits(si.size()))
                            } else if let Some(h) = ex.alloc_bytes(&v, ty) {
                                format!("{{\"ty\":{},\"bytes\":\"{}\"}}", esc(&tys), h)
                            } else {
                                format!("{{\"ty\":{},\"dbg\":{}}}", esc(&tys), esc(&format!("{:?}", v)))
                            }
                        }
                        Err(_) => format!("{{\"ty\":{},\"err\":true}}", esc(&tys)),
                    };
                    if !first {
                        out.push(',');
                    }
                    first = false;
                    write!(out, "{}:{}", esc(&name), v).unwrap();
                }
                DefKind::Static { mutability, .. } => {
                    let ty = tcx.type_of(did).instantiate_identity().skip_norm_wip();
                    statics.push(format!(
                        "{{\"path\":{},\"mut\":{},\"ty\":{},\"freeze\":{}}}",
                        esc(&tcx.def_path_str(did)),
                        mutability.is_mut(),
                        esc(&format!("{}", ty)),
                        ty.is_freeze(tcx, tenv)
                    ));
                }
                DefKind::ForeignMod => foreign.push(esc(&tcx.def_path_str(did))),
                DefKind::Struct | DefKind::Enum | DefKind::Union => {
                    let def = tcx.adt_def(did);
                    let ty = tcx.type_of(did).instantiate_identity().skip_norm_wip();
                    let generic = tcx.generics_of(did).count() > 0;
                    let mut vs = vec![];
                    for v in def.variants() {
                        let mut fs = vec![];
                        for f in &v.fields {
                            let fty = tcx.type_of(f.did).instantiate_identity().skip_norm_wip();
                            fs.push(format!(
                                "{{\"name\":{},\"ty\":{},\"vis\":{}}}",
                                esc(f.name.as_str()),
                                esc(&format!("{}", fty)),
                                esc(&format!("{:?}", f.vis))
                            ));
                        }
                        vs.push(format!("{{\"name\":{},\"fields\":[{}]}}", esc(v.name.as_str()), fs.join(",")));
                    }
                    let mut auto = String::from("null");
                    let mut cells = String::from("null");
                    let mut needs_drop = String::from("null");
                    if !generic {
                        let s = send.map_or(false, |t| ex.implements(ty, t));
                        let y = sync.map_or(false, |t| ex.implements(ty, t));
                        let u = unpin.map_or(false, |t| ex.implements(ty, t));
                        auto = format!(
                            "{{\"Send\":{},\"Sync\":{},\"Unpin\":{},\"Freeze\":{}}}",
                            s,
                            y,
                            u,
                            ty.is_freeze(tcx, tenv)
                        );
                        let mut found = vec![];
                        ex.deep_walk(ty, &mut vec![], &mut HashSet::new(), &mut found);
                        cells = format!("[{}]", found.join(","));
                        let nd = ty.needs_drop(tcx, tenv);
                        needs_drop = nd.to_string();
                        if nd {
                            mono_roots.push((
                                format!("drop_in_place<{}>", ty),
                                Instance::resolve_drop_in_place(tcx, ty),
                            ));
                        }
                    }
                    let dtor = def.destructor(tcx).map(|d| tcx.def_path_str(d.did));
                    adts.push(format!(
                        "{{\"path\":{},\"kind\":{},\"generic\":{},\"vis\":{},\"reachable\":{},\"variants\":[{}],\"auto\":{},\"cells\":{},\"needs_drop\":{},\"drop_impl\":{}}}",
                        esc(&tcx.def_path_str(did)),
                        esc(&format!("{:?}", tcx.def_kind(did))),
                        generic,
                        esc(&format!("{:?}", tcx.visibility(did))),
                        ev.is_reachable(id),
                        vs.join(","),
                        auto,
                        cells,
                        needs_drop,
                        dtor.map_or("null".to_string(), |d| esc(&d))
                    ));
                }
                DefKind::Impl { of_trait } => {
                    let self_ty = tcx.type_of(did).instantiate_identity().skip_norm_wip();
                    let (tr, safety) = if of_trait {
                        let h = tcx.impl_trait_header(did);
                        (
                            Some(format!("{}", h.trait_ref.instantiate_identity().skip_norm_wip().print_only_trait_path())),
                            format!("{:?}", h.safety),
                        )
                    } else {
                        (None, "Safe".to_string())
                    };
                    impls.push(format!(
                        "{{\"self_ty\":{},\"trait\":{},\"safety\":{},\"derived\":{}}}",
                        esc(&format!("{}", self_ty)),
                        tr.map_or("null".to_string(), |t| esc(&t)),
                        esc(&safety),
                        tcx.is_automatically_derived(did)
                    ));
                }
                _ => {}
            }
        }
        out.push_str("},");
        // instantiations of generic local ADTs used as field types: add drop roots for field types of non-generic ADTs
        // (the walk from drop_in_place<GameState> reaches them; additionally root every concrete
        //  List<..> / local generic instantiation that appears as a local's type in any body)
        let mut extra: HashSet<Ty<'tcx>> = HashSet::new();
        let mut concrete: HashSet<Ty<'tcx>> = HashSet::new();
        for id in tcx.hir_body_owners() {
            let did = id.to_def_id();
            if !matches!(tcx.def_kind(did), DefKind::Fn | DefKind::AssocFn | DefKind::Closure) {
                continue;
            }
            let body = tcx.optimized_mir(did);
            for d in body.local_decls.iter() {
                for t in d.ty.walk().filter_map(|g| g.as_type()) {
                    if let ty::Adt(def, _) = t.kind() {
                        if def.did().is_local() && !t.has_non_region_param() {
                            let t = tcx.erase_and_anonymize_regions(t);
                            concrete.insert(t);
                            if t.needs_drop(tcx, tenv) {
                                extra.insert(t);
                            }
                        }
                    }
                }
            }
        }
        for t in extra {
            let name = format!("drop_in_place<{}>", t);
            if !mono_roots.iter().any(|(n, _)| *n == name) {
                mono_roots.push((name, Instance::resolve_drop_in_place(tcx, t)));
            }
        }
        let mut conc: Vec<String> = vec![];
        for t in concrete {
            let s = send.map_or(false, |tr| ex.implements(t, tr));
            let y = sync.map_or(false, |tr| ex.implements(t, tr));
            let mut found = vec![];
            ex.deep_walk(t, &mut vec![], &mut HashSet::new(), &mut found);
            conc.push(format!(
                "{{\"ty\":{},\"Send\":{},\"Sync\":{},\"Freeze\":{},\"needs_drop\":{},\"cells\":[{}]}}",
                esc(&format!("{}", t)),
                s,
                y,
                t.is_freeze(tcx, tenv),
                t.needs_drop(tcx, tenv),
                found.join(",")
            ));
        }
        conc.sort();
        write!(out, "\"concrete\":[{}],", conc.join(",")).unwrap();
        // non-generic local fns as mono roots too (whole-program walk through std generics)
        for id in tcx.hir_body_owners() {
            let did = id.to_def_id();
            if !matches!(tcx.def_kind(did), DefKind::Fn | DefKind::AssocFn) {
                continue;
            }
            if tcx.generics_of(did).requires_monomorphization(tcx) {
                continue;
            }
            let inst = Instance::mono(tcx, did);
            mono_roots.push((tcx.def_path_str(did), inst));
        }
        mono_roots.sort_by(|a, b| a.0.cmp(&b.0));
        let cap: usize = std::env::var("FACTS_MONO_CAP").ok().and_then(|v| v.parse().ok()).unwrap_or(60000);
        write!(out, "\"mono\":{},", ex.mono_walk(mono_roots, cap)).unwrap();
        write!(out, "\"adts\":[{}],", adts.join(",")).unwrap();
        write!(out, "\"impls\":[{}],", impls.join(",")).unwrap();
        write!(out, "\"statics\":[{}],", statics.join(",")).unwrap();
        write!(out, "\"foreign_mods\":[{}],", foreign.join(",")).unwrap();
        write!(out, "\"unsafe_blocks\":[{}],", unsafe_blocks.join(",")).unwrap();
        let mut fl: Vec<String> = files.into_iter().collect();
        fl.sort();
        write!(
            out,
            "\"files\":[{}],\"nbodies\":{},",
            fl.iter().map(|f| esc(f)).collect::<Vec<_>>().join(","),
            nbodies
        )
        .unwrap();
        // crate attrs / cfg
        let oc = tcx.sess.overflow_checks();
        write!(out, "\"overflow_checks\":{},", oc).unwrap();
        out.push_str("\"types\":{");
        let types = ex.types.borrow();
        let mut first = true;
        for (k, v) in types.iter() {
            if !first {
                out.push(',');
            }
            first = false;
            write!(out, "{}:{}", esc(k), v).unwrap();
        }
        out.push_str("}}");
        let path = std::env::var("FACTS_OUT").unwrap_or("/tmp/facts.json".into());
        std::fs::write(&path, out).unwrap();
        eprintln!("FACTS written {} bodies={}", path, nbodies);
        rustc_driver::Compilation::Continue
    }
}

fn main() {
    let mut args: Vec<String> = std::env::args().collect();
    args.remove(1);
    rustc_driver::run_compiler(&args, &mut Cb);
}
