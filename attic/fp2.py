#!/usr/bin/env python3
"""Prototype 2: bit domain with Small(K<=4) truth tables, Dep with must-literals, branch merging."""
import json, sys, itertools
F = json.load(open('/tmp/facts.json'))['fns']
K = 4

class Bit:
    __slots__ = ('kind', 'sup', 'tt', 'D', 'M')
    # kind 'c' (tt = 0/1), 's' small: sup tuple of vars (sorted), tt tuple of 0/1 len 2^k ; 'd': D frozenset, M frozenset of (var,pol)
    def __init__(s, kind, sup=(), tt=(), D=frozenset(), M=frozenset()):
        s.kind, s.sup, s.tt, s.D, s.M = kind, sup, tt, D, M
    def key(s): return (s.kind, s.sup, s.tt, s.D, s.M)
    def __eq__(s, o): return s.key() == o.key()
    def __hash__(s): return hash(s.key())
    def deps(s): return frozenset(s.sup) if s.kind == 's' else s.D
    def must(s):
        if s.kind == 'c': return frozenset()
        if s.kind == 'd': return s.M
        out = set()
        for j, v in enumerate(s.sup):
            vals = {(i >> j) & 1 for i, t in enumerate(s.tt) if t}
            if len(vals) == 1: out.add((v, bool(vals.pop())))
        return frozenset(out)
    def __repr__(s):
        if s.kind == 'c': return str(s.tt)
        if s.kind == 's': return 'S%s%s' % (list(s.sup), ''.join(map(str, s.tt)))
        return 'D%s M%s' % (sorted(s.D), sorted(s.M))
C0 = Bit('c', tt=0); C1 = Bit('c', tt=1)
def lit(v): return Bit('s', (v,), (0, 1))
def norm(sup, tt):
    # drop irrelevant vars, detect const
    sup = list(sup); tt = list(tt)
    j = 0
    while j < len(sup):
        n = len(sup); irrelevant = all(tt[i] == tt[i ^ (1 << j)] for i in range(1 << n))
        if irrelevant:
            tt = [tt[i] for i in range(1 << n) if not (i >> j) & 1]
            # need to recompute indexes: removing bit j
            new = []
            for i in range(1 << (n - 1)):
                lo = i & ((1 << j) - 1); hi = (i >> j) << (j + 1)
                new.append(None)
            # simpler recompute from scratch
            sup2 = sup[:j] + sup[j + 1:]
            def idx(a):  # a assignment index in sup2 -> index in sup with bit j = 0
                lo = a & ((1 << j) - 1); hi = (a >> j) << (j + 1); return lo | hi
            tt = [tt_full for tt_full in []]
            return None
        j += 1
    return sup, tt
def mk(sup, fn):
    """build small bit from support list and python fn(assign dict)->0/1, normalising"""
    sup = sorted(set(sup))
    tt = []
    for i in range(1 << len(sup)):
        a = {v: (i >> j) & 1 for j, v in enumerate(sup)}
        tt.append(fn(a))
    # remove irrelevant
    changed = True
    while changed:
        changed = False
        for j, v in enumerate(sup):
            if all(tt[i] == tt[i ^ (1 << j)] for i in range(1 << len(sup))):
                sup2 = sup[:j] + sup[j + 1:]
                tt2 = []
                for i2 in range(1 << len(sup2)):
                    lo = i2 & ((1 << j) - 1); hi = (i2 >> j) << (j + 1)
                    tt2.append(tt[lo | hi])
                sup, tt = sup2, tt2; changed = True; break
    if not sup: return C1 if tt[0] else C0
    return Bit('s', tuple(sup), tuple(tt))
def ev(b, a):
    if b.kind == 'c': return b.tt
    i = sum(a[v] << j for j, v in enumerate(b.sup)); return b.tt[i]
def bnot(b):
    if b.kind == 'c': return C0 if b.tt else C1
    if b.kind == 's': return Bit('s', b.sup, tuple(1 - t for t in b.tt))
    return Bit('d', D=b.D)
def comb(a, b, f, andlike):
    if a.kind != 'd' and b.kind != 'd':
        sup = set(a.deps()) | set(b.deps())
        if len(sup) <= K: return mk(list(sup), lambda asg: f(ev(a, asg), ev(b, asg)))
    D = a.deps() | b.deps()
    if andlike is True: M = a.must() | b.must()
    elif andlike is False: M = a.must() & b.must()
    else: M = frozenset()
    # contradiction check
    if any((v, not p) in M for v, p in M): return C0
    return Bit('d', D=D, M=M)
def band(a, b):
    if a == C0 or b == C0: return C0
    if a == C1: return b
    if b == C1: return a
    return comb(a, b, lambda x, y: x & y, True)
def bor(a, b):
    if a == C1 or b == C1: return C1
    if a == C0: return b
    if b == C0: return a
    return comb(a, b, lambda x, y: x | y, False)
def bxor(a, b):
    if a.kind == 'c': return b if a.tt == 0 else bnot(b)
    if b.kind == 'c': return a if b.tt == 0 else bnot(a)
    return comb(a, b, lambda x, y: x ^ y, None)
def bite(c, a, b):  # if c then a else b
    if a == b: return a
    return bor(band(c, a), band(bnot(c), b))

class BV:
    def __init__(s, bits): s.bits = list(bits)
    @staticmethod
    def const(v, n=64): return BV([C1 if (v >> i) & 1 else C0 for i in range(n)])
    @staticmethod
    def var(name, n=64): return BV([lit((name, i)) for i in range(n)])
    def known(s): return all(b.kind == 'c' for b in s.bits)
    def val(s): return sum(b.tt << i for i, b in enumerate(s.bits))
def bigor(bits):
    r = C0
    for b in bits: r = bor(r, b)
    return r
def binop(op, a, b):
    n = len(a.bits)
    if op == 'BitAnd': return BV(map(band, a.bits, b.bits))
    if op == 'BitOr': return BV(map(bor, a.bits, b.bits))
    if op == 'BitXor': return BV(map(bxor, a.bits, b.bits))
    if op in ('Shl', 'Shr'):
        assert b.known(); k = b.val()
        return BV([C0] * k + a.bits[:n - k]) if op == 'Shl' else BV(a.bits[k:] + [C0] * k)
    if a.known() and b.known():
        x, y = a.val(), b.val()
        r = {'Lt': x < y, 'Ne': x != y, 'Eq': x == y, 'Ge': x >= y, 'Gt': x > y, 'Le': x <= y}[op]
        return BV([C1 if r else C0])
    if op in ('Ne', 'Eq') and b.known() and b.val() == 0:
        r = bigor(a.bits); return BV([r if op == 'Ne' else bnot(r)])
    if op in ('Ne', 'Eq') and len(a.bits) == 1:
        r = bxor(a.bits[0], b.bits[0]); return BV([r if op == 'Ne' else bnot(r)])
    raise NotImplementedError((op,))
TYBITS = {'u64': 64, 'u32': 32, 'i32': 32, 'usize': 64, 'bool': 1, 'u8': 8, 'u128': 128, 'isize': 64}

def join(c, x, y):
    if isinstance(x, BV): return BV([bite(c, p, q) for p, q in zip(x.bits, y.bits)])
    if isinstance(x, list): return [join(c, p, q) for p, q in zip(x, y)]
    if x is y or x == y: return x
    raise NotImplementedError(('join', x, y))

def run(fname, args):
    f = F[fname]
    env = {i + 1: a for i, a in enumerate(args)}
    def exec_from(bb, env, stop):
        """run until block `stop` (exclusive) or return; returns ('ret', val) or ('at', env)"""
        def rd(pl):
            v = env[pl['l']]
            for p in pl['p']:
                if p == 'deref': pass
                elif 'f' in p: v = v[p['f']]
                else: raise NotImplementedError(p)
            return v
        def op(o):
            if o['k'] in ('copy', 'move'): return rd(o['pl'])
            if o['k'] == 'int': return BV.const(int(o['v']), TYBITS[o['ty']])
            if o['k'] == 'val' and o['ty'] == '()': return None
            raise NotImplementedError(o)
        while True:
            if bb == stop: return ('at', env)
            b = f['blocks'][bb]
            for s in b['st']:
                rv = s['rv']; k = rv['k']
                if k == 'use': v = op(rv['o'])
                elif k == 'ref': v = rd(rv['pl'])
                elif k == 'bin': v = binop(rv['op'], op(rv['a']), op(rv['b']))
                elif k == 'un': v = BV([bnot(x) for x in op(rv['a']).bits])
                elif k == 'cast':
                    a = op(rv['o']); n = TYBITS[rv['ty']]; v = BV((a.bits + [C0] * n)[:n])
                else: raise NotImplementedError(rv)
                assert not s['dst']['p']; env[s['dst']['l']] = v
            t = b['term']
            if t['k'] == 'goto': bb = t['t']
            elif t['k'] == 'assert':
                c = op(t['c']); assert c.known() and c.val() == int(t['exp']), ('undischarged', t); bb = t['t']
            elif t['k'] == 'return': return ('ret', env[0])
            elif t['k'] == 'call':
                env[t['dst']['l']] = run(t['res']['path'], [op(a) for a in t['a']]); bb = t['t']
            elif t['k'] == 'switch':
                d = op(t['d'])
                if d.known():
                    bb = dict((int(a), b2) for a, b2 in t['ts']).get(d.val(), t['else'])
                else:
                    assert len(d.bits) == 1 and len(t['ts']) == 1 and t['ts'][0][0] == '0'
                    c = d.bits[0]
                    # both branches to return (small functions): join return values
                    r0 = exec_from(t['ts'][0][1], dict(env), None)
                    r1 = exec_from(t['else'], dict(env), None)
                    assert r0[0] == 'ret' and r1[0] == 'ret'
                    return ('ret', join(c, r1[1], r0[1]))
            else: raise NotImplementedError(t)
    env = env
    r = exec_from(0, env, None)
    return r[1]
env = None

def sq(i): return 'abcdefgh'[i % 8] + str(8 - i // 8)
def neigh(i):
    r, c = divmod(i, 8); out = []
    if r > 0: out.append(i - 8)
    if r < 7: out.append(i + 8)
    if c > 0: out.append(i - 1)
    if c < 7: out.append(i + 1)
    return out
names = ['p1', 'all', 'e', 'm', 'h', 'd', 'c', 'r']
pb = [BV.var(n) for n in names]
def proj(D):
    out = set()
    for (v, i) in D:
        if v == 'p1': out.add((sq(i), 'C')); out.add((sq(i), 'O'))
        elif v == 'all': out.add((sq(i), 'O'))
        else: out.add((sq(i), 'T'))
    return out
r = run('engine::PieceBoardState::trapped_piece_bits', [pb])
for i, b in enumerate(r.bits):
    if b != C0:
        want = {(sq(i), 'C'), (sq(i), 'O')} | {(sq(n), k) for n in neigh(i) for k in 'CO'}
        print('trap', sq(i), 'ok' if proj(b.deps()) == want else ('MISMATCH', sorted(proj(b.deps()))), 'must', sorted(b.must()))
# GameState = [p1_turn, move_number, phase, piece_board(PieceBoard=[PieceBoardState]), hash]
for side in (1, 0):
    gs = [BV.const(side, 1), None, None, [pb], None]
    r = run('engine::GameState::curr_player_non_frozen_pieces', [gs, pb])
    bad = 0
    for i, b in enumerate(r.bits):
        want = {(sq(i), k) for k in 'COT'} | {(sq(n), k) for n in neigh(i) for k in 'COT'}
        got = proj(b.deps())
        col = (('p1', i), bool(side))
        if got != want or col not in b.must() or (('all', i), True) not in b.must():
            bad += 1
            if bad < 3: print('nonfrozen side', side, sq(i), sorted(want - got), sorted(got - want), sorted(b.must()))
    print('non_frozen side', side, 'mismatches', bad)
    for d, dname in enumerate(['Up', 'Right', 'Down', 'Left']):
        r = run('engine::GameState::invalid_rabbit_moves', [gs, BV.const(d, 64), pb])
        nz = [i for i, b in enumerate(r.bits) if b != C0]
        print(' rabbit-back side', side, dname, len(nz), (sorted(r.bits[nz[0]].must()) if nz else ''))
