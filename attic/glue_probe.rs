#![feature(rustc_private)]
extern crate rustc_driver;
extern crate rustc_hir;
extern crate rustc_interface;
extern crate rustc_middle;
extern crate rustc_span;
use rustc_driver::Callbacks;
use rustc_hir::def::DefKind;
use rustc_middle::mir::*;
use rustc_middle::ty::{self, Instance, TyCtxt, TypingEnv, EarlyBinder};
use std::collections::{HashMap, HashSet};

fn callees<'tcx>(tcx: TyCtxt<'tcx>, inst: Instance<'tcx>) -> Vec<Instance<'tcx>> {
    let tenv = TypingEnv::fully_monomorphized();
    let mut out = vec![];
    match inst.def {
        ty::InstanceKind::Item(d) => { if !tcx.is_mir_available(d) { return out; } }
        ty::InstanceKind::DropGlue(_, Some(_)) => {}
        _ => return out,
    }
    let body = tcx.instance_mir(inst.def);
    for bb in body.basic_blocks.iter() {
        match &bb.terminator().kind {
            TerminatorKind::Call { func, .. } => {
                let fty = func.ty(&body.local_decls, tcx);
                let fty = inst.instantiate_mir_and_normalize_erasing_regions(tcx, tenv, EarlyBinder::bind(fty));
                if let ty::FnDef(did, args) = fty.kind() {
                    if let Ok(Some(ci)) = Instance::try_resolve(tcx, tenv, *did, args) { out.push(ci); }
                }
            }
            TerminatorKind::Drop { place, .. } => {
                let pty = place.ty(&body.local_decls, tcx).ty;
                let pty = inst.instantiate_mir_and_normalize_erasing_regions(tcx, tenv, EarlyBinder::bind(pty));
                out.push(Instance::resolve_drop_in_place(tcx, pty));
            }
            _ => {}
        }
    }
    out
}

struct Cb;
impl Callbacks for Cb {
    fn after_analysis<'tcx>(&mut self, _c: &rustc_interface::interface::Compiler, tcx: TyCtxt<'tcx>) -> rustc_driver::Compilation {
        if tcx.crate_name(rustc_span::def_id::LOCAL_CRATE).as_str() != "arimaa_engine_step" { return rustc_driver::Compilation::Continue; }
        for id in tcx.hir_crate_items(()).definitions() {
            let did = id.to_def_id();
            if !matches!(tcx.def_kind(did), DefKind::Struct) || !tcx.def_path_str(did).ends_with("GameState") { continue; }
            let t = tcx.type_of(did).instantiate_identity().skip_norm_wip();
            let root = Instance::resolve_drop_in_place(tcx, t);
            let mut seen: HashMap<Instance<'tcx>, Vec<Instance<'tcx>>> = HashMap::new();
            let mut stack = vec![root];
            while let Some(i) = stack.pop() {
                if seen.contains_key(&i) || seen.len() > 400 { continue; }
                let cs = callees(tcx, i);
                for c in &cs { stack.push(*c); }
                seen.insert(i, cs);
            }
            eprintln!("GLUE nodes={}", seen.len());
            // find nodes that can reach themselves
            for (n, _) in seen.iter() {
                let mut vis = HashSet::new(); let mut st = seen[n].clone(); let mut cyc = false;
                while let Some(x) = st.pop() { if x == *n { cyc = true; break; } if vis.insert(x) { if let Some(cs) = seen.get(&x) { st.extend(cs.iter().cloned()); } } }
                if cyc { eprintln!("CYCLE {}", format!("{:?}", n).chars().take(220).collect::<String>()); }
            }
        }
        rustc_driver::Compilation::Continue
    }
}
fn main() {
    let mut args: Vec<String> = std::env::args().collect();
    args.remove(1);
    rustc_driver::run_compiler(&args, &mut Cb);
}
