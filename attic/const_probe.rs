#![feature(rustc_private)]
extern crate rustc_driver;
extern crate rustc_hir;
extern crate rustc_interface;
extern crate rustc_middle;
extern crate rustc_span;
use rustc_driver::Callbacks;
use rustc_hir::def::DefKind;
use rustc_middle::mir::ConstValue;
use rustc_middle::ty::TyCtxt;
struct Cb;
impl Callbacks for Cb {
    fn after_analysis<'tcx>(&mut self, _c: &rustc_interface::interface::Compiler, tcx: TyCtxt<'tcx>) -> rustc_driver::Compilation {
        if tcx.crate_name(rustc_span::def_id::LOCAL_CRATE).as_str() != "arimaa_engine_step" { return rustc_driver::Compilation::Continue; }
        for id in tcx.hir_crate_items(()).definitions() {
            let did = id.to_def_id();
            if !matches!(tcx.def_kind(did), DefKind::Const { .. } | DefKind::AssocConst { .. }) { continue; }
            let name = tcx.def_path_str(did);
            let ty = tcx.type_of(did).instantiate_identity().skip_norm_wip();
            match tcx.const_eval_poly(did) {
                Ok(ConstValue::Indirect { alloc_id, offset }) => {
                    let a = tcx.global_alloc(alloc_id).unwrap_memory().inner();
                    let bytes = a.inspect_with_uninit_and_ptr_outside_interpreter(offset.bytes_usize()..a.len());
                    eprintln!("CONST {} : {} bytes={} first16={:?}", name, ty, bytes.len(), &bytes[..bytes.len().min(16)]);
                }
                Ok(v) => eprintln!("CONST {} : {} = {:?}", name, ty, v),
                Err(e) => eprintln!("CONST {} err {:?}", name, e),
            }
        }
        // unsafe / statics
        for id in tcx.hir_crate_items(()).definitions() {
            let did = id.to_def_id();
            if matches!(tcx.def_kind(did), DefKind::Static { .. }) { eprintln!("STATIC {}", tcx.def_path_str(did)); }
        }
        rustc_driver::Compilation::Continue
    }
}
fn main() {
    let mut args: Vec<String> = std::env::args().collect();
    args.remove(1);
    rustc_driver::run_compiler(&args, &mut Cb);
}
