use std::sync::Arc;

// self-owning list without a neutralising Drop impl
pub struct Chain {
    head: Option<Arc<ChainNode>>,
}
struct ChainNode {
    elem: u64,
    next: Option<Arc<ChainNode>>,
}
impl Chain {
    pub fn push(&self, elem: u64) -> Chain {
        Chain { head: Some(Arc::new(ChainNode { elem, next: self.head.clone() })) }
    }
}

// Drop impl that forgets to take the link before dropping the node
pub struct BadDrop {
    head: Option<Arc<BadNode>>,
}
struct BadNode {
    elem: u64,
    next: Option<Arc<BadNode>>,
}
impl Drop for BadDrop {
    fn drop(&mut self) {
        let mut link = self.head.take();
        while let Some(node) = link {
            link = match Arc::into_inner(node) {
                Some(node) => node.next.clone(),
                None => None,
            };
        }
    }
}

// Drop impl that never empties its own head
pub struct LazyDrop {
    head: Option<Arc<LazyNode>>,
}
struct LazyNode {
    next: Option<Arc<LazyNode>>,
}
impl Drop for LazyDrop {
    fn drop(&mut self) {}
}

pub fn depth(n: &Option<Arc<ChainNode>>) -> usize {
    match n {
        None => 0,
        Some(n) => 1 + depth(&n.next),
    }
}

pub fn use_all(c: Chain, b: BadDrop, l: LazyDrop) -> usize {
    let d = depth(&c.head);
    drop(b);
    drop(l);
    d
}
