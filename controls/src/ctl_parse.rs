use std::str::FromStr;

pub struct Num(pub usize);

impl FromStr for Num {
    type Err = String;
    fn from_str(s: &str) -> Result<Self, Self::Err> {
        let chars: Vec<char> = s.chars().collect();
        let first = chars[0];
        let n: usize = s.parse().unwrap();
        let idx = (first as u8 - 97) as usize;
        Ok(Num(n + idx))
    }
}
