use std::cell::Cell;
use std::rc::Rc;
use std::sync::atomic::{AtomicU64, Ordering};

pub struct RcList {
    head: Option<Rc<RcNode>>,
}
struct RcNode {
    elem: u64,
    next: Option<Rc<RcNode>>,
}

pub struct Cached {
    pub value: u64,
    memo: Cell<u64>,
}

pub struct BoxedCache {
    inner: Box<Cell<u64>>,
}

static COUNTER: AtomicU64 = AtomicU64::new(0);
static mut SCRATCH: u64 = 0;

pub fn bump() -> u64 {
    COUNTER.fetch_add(1, Ordering::Relaxed)
}

/// observes how many other handles exist: interleaving-dependent
pub fn shared_elsewhere(a: &std::sync::Arc<u64>) -> bool {
    std::sync::Arc::strong_count(a) > 1
}

pub fn now() -> std::time::Instant {
    std::time::Instant::now()
}

pub struct State {
    pub x: u64,
}
impl State {
    pub fn poke(&mut self) {
        self.x += 1;
    }
}

pub fn raw(p: *const u64) -> u64 {
    unsafe { *p }
}
