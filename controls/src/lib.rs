//! Positive examples: every zero-expected rule of the checker must fire on this crate in
//! every run (DESIGN section 6). Nothing here is ever executed.
#![allow(dead_code)]
pub mod ctl_parse;
pub mod direction;
pub mod drop_cycle;
pub mod engine;
pub mod g_types;
pub mod zobrist_values;
