#[derive(Clone, Copy, Debug, Eq, PartialEq)]
pub enum Direction {
    Up,
    Right,
    Down,
    Left,
}
