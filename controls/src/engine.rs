// A deliberately broken miniature of the bitboard helpers: every geometry rule must fire here.
use super::direction::Direction;

pub struct PieceBoardState {
    pub p1_pieces: u64,
    pub all_pieces: u64,
    pub elephants: u64,
    pub camels: u64,
    pub horses: u64,
    pub dogs: u64,
    pub cats: u64,
    pub rabbits: u64,
}

const LEFT: u64 = 0x0101_0101_0101_0101;
const RIGHT: u64 = 0x8080_8080_8080_8080;
const TOP: u64 = 0xff;
const BOTTOM: u64 = 0xff00_0000_0000_0000;

// no right-edge mask: h-file wraps to the a-file of the next rank
pub fn shift_pieces_in_direction(bits: u64, direction: &Direction) -> u64 {
    match direction {
        Direction::Up => (bits & !TOP) >> 8,
        Direction::Right => bits << 1,
        Direction::Down => (bits & !BOTTOM) << 8,
        Direction::Left => (bits & !LEFT) >> 1,
    }
}

// Up and Down swapped
pub fn shift_pieces_in_opp_direction(bits: u64, direction: &Direction) -> u64 {
    match direction {
        Direction::Up => (bits & !TOP) >> 8,
        Direction::Right => (bits & !LEFT) >> 1,
        Direction::Down => (bits & !BOTTOM) << 8,
        Direction::Left => (bits & !RIGHT) << 1,
    }
}

pub fn shift_in_direction(bits: u64, direction: &Direction) -> u64 {
    match direction {
        Direction::Up => bits >> 8,
        Direction::Right => bits << 1,
        Direction::Down => bits << 8,
        Direction::Left => bits >> 2,
    }
}

// left neighbour forgotten
pub fn influenced_squares(b: u64) -> u64 {
    ((b & !TOP) >> 8) | ((b & !BOTTOM) << 8) | ((b & !RIGHT) << 1)
}

// support from below forgotten
pub fn supported_pieces(b: u64) -> u64 {
    (b & ((b & !TOP) >> 8)) | (b & ((b & !RIGHT) << 1)) | (b & ((b & !LEFT) >> 1))
}

// tests the square behind the piece
pub fn can_move_in_direction(direction: &Direction, piece_board: &PieceBoardState) -> u64 {
    shift_pieces_in_direction(!piece_board.all_pieces, direction)
}
