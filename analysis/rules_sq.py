"""C16 (squares): conversions between square, index, bit, file/rank and text.

The domain is finite (64 squares), so every conversion is evaluated by the abstract interpreter on each of the 64
constants (constant folding of the function's MIR, no execution of the crate) and compared with spec/geometry.py:

  C16.sq   from_index / index / as_bit_board / from_bit_board / column_char / row / new agree with bit i = file i mod 8,
           rank 8 - i div 8, and are mutually inverse
  C16.sqd  Display prints exactly column_char then row (two default placeholders, no literal text)
  C16.sqp  FromStr accepts exactly: two characters, the first in 'a'..='h', the second a one-character integer in 1..=8,
           and returns Square::new(first, parsed second)  (decision tree over an opaque string)
"""
from . import bits as B
from .bits import C0, C1
from .values import BV, Struct, Enum, Ref, Term, Ite, Tok
from .mai import State, Undecided
from . import inputs
from spec import geometry as G

SQ = 'square::Square'


def _const(v):
    return v.uval() if isinstance(v, BV) and v.known() else None


def _sqidx(v):
    if isinstance(v, Struct) and v.ty == SQ:
        return _const(v.fields[0])
    return None


def check_conversions(ctx, prog, I):
    R = 'C16.sq'
    ctx.rule(R, 'for each of the 64 squares: from_index, index, as_bit_board, from_bit_board, column_char, row and new agree with '
                '"bit i = file i mod 8, rank 8 - i div 8" and are mutually inverse')
    names = ['from_index', 'index', 'as_bit_board', 'from_bit_board', 'column_char', 'row', 'new']
    fn = {}
    for n in names:
        k = prog.one('Square::' + n)
        if not ctx.anchor('fn Square::' + n, k is not None):
            return
        fn[n] = k
    bad = {}
    nob = 0

    def ob(what, i, ok, got):
        nonlocal nob
        nob += 1
        if not ok:
            bad.setdefault(what, []).append((i, got))

    for i in range(64):
        try:
            st = State({})
            sq = Struct(SQ, (BV.const(i, 8),))
            r = inputs.ref_to(I, st, 'sq', sq)
            v, _ = I.call_fn(fn['from_index'], [BV.const(i, 8)], st)
            ob('from_index', i, _sqidx(v) == i, v)
            v, _ = I.call_fn(fn['index'], [r], st)
            ob('index', i, _const(v) == i, v)
            v, _ = I.call_fn(fn['as_bit_board'], [r], st)
            ob('as_bit_board', i, _const(v) == (1 << i), v)
            v, _ = I.call_fn(fn['from_bit_board'], [BV.const(1 << i, 64)], st)
            ob('from_bit_board', i, _sqidx(v) == i, v)
            v, _ = I.call_fn(fn['column_char'], [r], st)
            ob('column_char', i, _const(v) == ord('a') + i % 8, v)
            v, _ = I.call_fn(fn['row'], [r], st)
            ob('row', i, _const(v) == 8 - i // 8, v)
            v, _ = I.call_fn(fn['new'], [BV.const(ord('a') + i % 8, 32), BV.const(8 - i // 8, 64)], st)
            ob('new', i, _sqidx(v) == i, v)
            assert G.name(i) == '%s%d' % (chr(ord('a') + i % 8), 8 - i // 8)
        except Undecided as e:
            ob('undecided', i, False, str(e))
    for what in names + ['undecided']:
        b = bad.get(what)
        ctx.ob('Square::%s agrees with the geometry on all 64 squares' % what, not b, sample=(what in ('new', 'from_bit_board')))
        if b:
            ctx.finding(R, 'square::Square::' + what, 'squares',
                        '%s disagrees on %d squares, e.g. %s -> %r' % (what, len(b), G.name(b[0][0]), b[0][1]))
    ctx.analysed['square_conversion_evaluations'] = nob
    ctx.floor('square conversion evaluations', nob, 64 * 7)


def check_display(ctx, prog, I):
    from .rules_panic import find_impl
    R = 'C16.sqd'
    ctx.rule(R, 'Display for Square writes column_char() then row() through two default placeholders and no literal text')
    k = find_impl(prog, 'std::fmt::Display', SQ, 'fmt')
    if not ctx.anchor('impl Display for Square', k is not None):
        return
    # template bytes of the format_args! call(s) in the body
    templates = []
    for b in prog.fns[k]['blocks']:
        for s in b['st']:
            o = (s.get('rv') or {}).get('o') or {}
            if o.get('k') == 'val' and str(o.get('ty', '')).startswith('&[u8;') and o.get('bytes') is not None:
                templates.append(o['bytes'])
    ok = templates == ['c0c000']
    ctx.ob('format template of Display for Square is two default placeholders (%s)' % templates, ok, sample=True)
    if not ok:
        ctx.finding(R, k, 'template', 'format template bytes are %s, expected two default placeholders and nothing else (c0c000)' % templates)
    bad = []
    for i in range(64):
        st = State({})
        sink = []
        I.watch['new_display'] = sink
        try:
            r = inputs.ref_to(I, st, 'sq', Struct(SQ, (BV.const(i, 8),)))
            fm = inputs.ref_to(I, st, 'f', Tok('fmt', 'std::fmt::Formatter'))
            I.call_fn(k, [r, Ref(fm.cell, (), True)], st)
        except Undecided as e:
            bad.append((i, 'undecided: %s' % e))
            continue
        finally:
            I.watch.pop('new_display', None)
        got = [_const(a[1][0]) if a[1] else None for a in sink]
        if got != [ord('a') + i % 8, 8 - i // 8]:
            bad.append((i, got))
    ctx.ob('Display for Square passes (file letter, rank number) to the formatter on all 64 squares', not bad, sample=True)
    if bad:
        ctx.finding(R, k, 'arguments', 'Display formats %r for %s (expected file letter then rank), %d squares affected'
                    % (bad[0][1], G.name(bad[0][0]), len(bad)))


def _paths(v, pre=()):
    if isinstance(v, Ite):
        c = v.c
        if c.kind == 's' and len(c.sup) == 1 and c.sup[0][0] == '@':
            a = B.ATOMS[c.sup[0][1]]
            pos = c.tt == (0, 1)
            for x in _paths(v.a, pre + ((a, pos),)):
                yield x
            for x in _paths(v.b, pre + ((a, not pos),)):
                yield x
            return
        yield pre + ((None, None),), v
        return
    yield pre, v


def _root_tok(v):
    """name of the opaque token a term is derived from (through narrowing / affine shifts only)"""
    while isinstance(v, Term) and v.kind in ('narrowed', 'affine', 'cast', 'zext'):
        v = v.args[0]
    if isinstance(v, Term) and v.kind == 'tok':
        return v.args[0]
    return None


def check_parser(ctx, prog):
    from .rules_panic import find_impl
    R = 'C16.sqp'
    ctx.rule(R, 'Square::from_str succeeds exactly when the text has two characters, the first within a..h and the second a '
                'one-character integer within 1..8, and then returns Square::new(first, that integer)')
    k = find_impl(prog, 'std::str::FromStr', SQ, 'from_str')
    if not ctx.anchor('impl FromStr for Square', k is not None):
        return
    I = inputs.make_interp(prog)
    I.strict_unknown = False
    sink = []
    I.watch['Square::new'] = sink
    try:
        st = State({})
        r, _ = I.call_fn(k, [inputs.ref_to(I, st, 's', Tok('text', 'str'))], st)
    except Undecided as e:
        ctx.finding(R, k, 'undecided', 'cannot decide the parser: %s' % e)
        return
    oks = []
    for path, leaf in _paths(r):
        if isinstance(leaf, Enum) and leaf.var == 0:
            oks.append((path, leaf))
        elif not (isinstance(leaf, Enum) and leaf.var == 1):
            ctx.finding(R, k, 'shape', 'result is neither Ok nor Err on some path: %r' % (leaf,))
            return
    ok = len(oks) == 1
    ctx.ob('Square::from_str has a single accepting path', ok)
    if not ok:
        ctx.finding(R, k, 'accepting-paths', '%d accepting paths in the decision tree (expected one conjunction of tests)' % len(oks))
        return
    path, leaf = oks[0]
    want = {'len': False, 'col': False, 'row': False, 'int': False}
    extra = []
    col_tok = row_tok = None
    for a, pos in path:
        if a is None:
            extra.append('non-atomic condition')
            continue
        if a.kind == 'cmp' and a.key[0] == 'Eq' and isinstance(a.key[1], Term) and a.key[1].kind == 'len' \
                and isinstance(a.key[2], BV) and a.key[2].known() and a.key[2].uval() == 2 and pos:
            want['len'] = True
        elif a.kind == 'inrange' and pos and a.key[1:] == (97, 104):
            want['col'] = True
            col_tok = _root_tok(a.key[0])
        elif a.kind == 'inrange' and pos and a.key[1:] == (1, 8):
            want['row'] = True
            row_tok = _root_tok(a.key[0])
        elif a.kind == 'variant' and ((a.key[1] == 0 and pos) or (a.key[1] == 1 and not pos)):   # Result: 0 = Ok, 1 = Err
            want['int'] = True
        else:
            extra.append('%s%s %r' % ('' if pos else 'not ', a.kind, a.key if len(repr(a.key)) < 120 else a.kind))
    for name, text in (('len', 'text length == 2'), ('col', "first character within 'a'..='h' (97..=104)"),
                       ('row', 'parsed integer within 1..=8'), ('int', 'the integer parse succeeded')):
        ctx.ob('accepting path requires: %s' % text, want[name], sample=True)
        if not want[name]:
            ctx.finding(R, k, 'accept:' + name, 'the accepting path does not require "%s"; its conditions are %s'
                        % (text, [('%s%s %r' % ('' if p else 'not ', a.kind, a.key))[:100] for a, p in path if a is not None]))
    ctx.ob('accepting path requires nothing else', not extra)
    if extra:
        ctx.finding(R, k, 'accept:extra', 'the accepting path has further conditions: %s' % extra)
    # the accepted value is Square::new(column character, parsed row)
    ok = len(sink) >= 1 and all(len(a[1]) == 2 for a in sink)
    if ok:
        a0, a1 = sink[-1][1]
        ok = _root_tok(a0) is not None and _root_tok(a0) == col_tok and _root_tok(a1) is not None and _root_tok(a1) == row_tok
    ctx.ob('the accepted value is Square::new(range-checked character, range-checked integer)', ok, sample=True)
    if not ok:
        ctx.finding(R, k, 'value', 'the accepted square is not built by Square::new from the two range-checked values: %r'
                    % ([a[1] for a in sink],))
