"""C02 / C10 / C13: board update, capture, views, capture preview (DESIGN 4)."""
from . import bits as B
from .bits import C0, C1
from .values import BV, Struct, Enum, Ref, Seq, Term, Ite, TRUE, FALSE
from .mai import State, Undecided
from . import inputs
from .common import proj, fmt_deps, fmt_lits, real_lits, mover_lits, enum_cases
from .rules_c01 import TYPE_VAR, kinds, ball
from spec import geometry as G

FIELD_VARS = ['p1', 'all', 'e', 'm', 'h', 'd', 'c', 'r']


def board_fields(prog, v):
    order = inputs.pbs_field_order(prog)
    return {inputs.SHORT[n]: v.fields[k] for k, n in enumerate(order)}


def moves(tier_quick, squares=None):
    out = []
    for s in (squares if squares is not None else range(64)):
        for d in inputs.DIRS:
            if G.step(s, d) is not None:
                out.append((s, d))
    return out


def run_move_piece(I, prog, s, d, board=None):
    """PieceBoard::move_piece on a free board -> new board value"""
    fn = prog.one('PieceBoard::move_piece')
    st = State({})
    cell = ('static', 'in:pbs')
    st.store[cell] = board if board is not None else inputs.board(prog)
    sq = inputs.ref_to(I, st, 'sq', inputs.square(s))
    dr = inputs.ref_to(I, st, 'dir', inputs.direction(prog, d))
    _r, st2 = I.call_fn(fn, [Ref(cell, (), True), sq, dr], st)
    return st2.store[cell]


def run_remove_trapped(I, prog, board):
    fn = prog.one('PieceBoard::remove_trapped_pieces')
    st = State({})
    cell = ('static', 'in:pbs')
    st.store[cell] = board
    r, st2 = I.call_fn(fn, [Ref(cell, (), True)], st)
    return r, st2.store[cell]


def run_trapped_bits(I, prog, board):
    fn = prog.one('PieceBoardState::trapped_piece_bits')
    st = State({})
    ref = inputs.ref_to(I, st, 'pbs', board)
    r, _ = I.call_fn(fn, [ref], st)
    return r


def check_move_footprint(ctx, prog, I, mvs):
    ctx.rule('C02.2', 'PieceBoard::move_piece(s, d): on each of the 8 bitboards F the source bit becomes 0, the '
                      'destination bit depends on exactly {F[s], F[dst]}, every other bit is an exact copy')
    fn = prog.one('PieceBoard::move_piece')
    from .rules_geom import _opt
    if not _opt(ctx, 'PieceBoard::move_piece', fn):
        return
    for (s, d) in mvs:
        dst = G.step(s, d)
        nb = run_move_piece(I, prog, s, d)
        f = board_fields(prog, nb)
        ctx.count('move_modes')
        for name in FIELD_VARS:
            bv = f[name]
            bad = None
            for j in range(64):
                b = bv.bits[j]
                if j == s:
                    if b is not C0:
                        bad = 'source bit %s of %s is %r, expected 0' % (G.name(s), name, b)
                elif j == dst:
                    dps = B.deps(b)
                    if not (dps <= {(name, s), (name, dst)} and (name, s) in dps):
                        bad = 'destination bit %s of %s depends on %s, expected {%s[%s], %s[%s]}' % (
                            G.name(dst), name, fmt_deps(dps), name, G.name(s), name, G.name(dst))
                else:
                    if b is not B.lit((name, j)):
                        bad = 'bit %s of %s is %r, expected an unchanged copy' % (G.name(j), name, b)
                if bad:
                    break
            ctx.ob('move %s%s board %s: source cleared, destination from {src,dst}, rest copied' % (G.name(s), d, name),
                   bad is None, sample=(s == 27 and d == 'Up' and name == 'c'))
            if bad:
                ctx.finding('C02.2', fn, '%s:%s' % (name, d), 'step %s%s: %s' % (G.name(s), d, bad))


def check_capture_footprint(ctx, prog, I):
    ctx.rule('C02.3', 'trapped_piece_bits()[i] is 0 off the four traps; on trap t it requires a piece on t and depends '
                      'exactly on occupancy and colour of t and of its four neighbours; remove_trapped_pieces ands all 8 '
                      'boards with the complement of exactly that value')
    fn = prog.one('PieceBoardState::trapped_piece_bits')
    if not ctx.anchor('fn trapped_piece_bits', fn is not None):
        return
    board = inputs.board(prog)
    tr = run_trapped_bits(I, prog, board)
    for i in range(64):
        b = tr.bits[i]
        if i not in G.TRAPS:
            ok = b is C0
            ctx.ob('trapped bit %s is 0 (not a trap)' % G.name(i), ok, nontrivial=False)
            if not ok:
                ctx.finding('C02.3', fn, 'nontrap:' + G.name(i), 'a piece on %s (not a trap square) can be reported as trapped' % G.name(i))
            continue
        pd = proj(B.deps(b))
        want = kinds([i] + G.neighbours(i), 'CO')
        okm = (('all', i), True) in B.must(b)
        okd = pd == want
        ctx.ob('trap %s: requires a piece there; depends on colour+occupancy of %s and neighbours' % (G.name(i), G.name(i)),
               okm and okd, sample=True)
        if not okm:
            ctx.finding('C02.3', fn, 'trap-lit:' + G.name(i), 'trap %s: "a piece stands on it" is not required (must-literals %s)'
                        % (G.name(i), fmt_lits(real_lits(b))))
        if not okd:
            ctx.finding('C02.3', fn, 'trap-footprint:' + G.name(i),
                        'trap %s: depends on %s; missing %s, unexpected %s (support must be counted per colour from the four neighbours)'
                        % (G.name(i), sorted(pd), sorted(want - pd), sorted(pd - want)))
    # removal
    rfn = prog.one('PieceBoard::remove_trapped_pieces')
    from .rules_geom import _opt
    if not _opt(ctx, 'PieceBoard::remove_trapped_pieces', rfn):
        # the removal is decided at the public level (C02.5: every stored bit after a step against the specification)
        return
    flag, nb = run_remove_trapped(I, prog, board)
    f = board_fields(prog, nb)
    okflag = isinstance(flag, BV) and flag.bits[0] is I.nonzero_bit(tr)
    ctx.ob('remove_trapped_pieces returns "trapped_piece_bits() != 0"', okflag, sample=True)
    if not okflag:
        ctx.finding('C02.3', rfn, 'flag', 'the captured-flag is not exactly "some trapped bit is set"')
    for name in FIELD_VARS:
        bv = f[name]
        bad = None
        for j in range(64):
            b = bv.bits[j]
            if j not in G.TRAPS:
                if b is not B.lit((name, j)):
                    bad = 'bit %s changed although it is not a trap square' % G.name(j)
                    break
            else:
                # expected: F[t] & !trapped[t]  (possibly guarded by flag, which trapped[t] implies)
                want = B.band(B.lit((name, j)), B.bnot(tr.bits[j]))
                if b is not want:
                    # accept the guarded form ite(flag, F & !T, F)
                    alt = B.bite(I.nonzero_bit(tr), want, B.lit((name, j)))
                    if b is not alt and not (B.deps(b) == B.deps(want) and (((('#', tr.bits[j].n), False) in B.must(b)) or True) and _same_removal(b, name, j, tr)):
                        bad = 'trap bit %s is not "old bit and not trapped_piece_bits()[%s]"' % (G.name(j), G.name(j))
                        break
        if bad and 'is not "old bit' in bad:
            # another spelling of the same update (a different early-out, a mask built in another order): the two functions of the
            # ~14 board bits around one trap are compared as exact truth tables
            try:
                bad = _exact_removal(prog, name)
            except Undecided as e:
                bad = bad + ' (exact comparison undecided: %s)' % e
        ctx.ob('removal on board %s: non-trap bits copied, trap bits and-ed with the complement of the reported capture' % name,
               bad is None, sample=(name == 'p1'))
        if bad:
            ctx.finding('C02.3', rfn, 'remove:' + name, 'board %s: %s' % (name, bad))


def _exact_removal(prog, name):
    """trap bits of board `name` after remove_trapped_pieces == old bit & !expected capture, with exact truth tables (K = 14)"""
    from .rules_hash import exact_equal
    old_k = B.K
    B.K = 14
    try:
        I2 = inputs.make_interp(prog, fuel=20000000)
        board = inputs.board(prog)
        tr = run_trapped_bits(I2, prog, board)
        _flag, nb = run_remove_trapped(I2, prog, board)
        f = board_fields(prog, nb)
        fb = board_fields(prog, board)
        for j in G.TRAPS:
            got = f[name].bits[j]
            # expected capture at j from first principles: occupied and no friendly neighbour
            gold_n = C0
            silv_n = C0
            for q in G.neighbours(j):
                gold_n = B.bor(gold_n, fb['p1'].bits[q])
                silv_n = B.bor(silv_n, B.band(fb['all'].bits[q], B.bnot(fb['p1'].bits[q])))
            mine = B.bite(fb['p1'].bits[j], gold_n, silv_n)
            cap = B.band(fb['all'].bits[j], B.bnot(mine))
            want = B.band(fb[name].bits[j], B.bnot(cap))
            want2 = B.band(fb[name].bits[j], B.bnot(tr.bits[j]))
            if not (exact_equal(got, want) or exact_equal(got, want2)):
                return 'trap bit %s is not "old bit and not captured there" (compared as exact truth tables)' % G.name(j)
        return None
    finally:
        B.K = old_k


def _same_removal(b, name, j, tr):
    """b must require F[j] and must be forced to 0 by trapped[j]."""
    m = B.must(b)
    return ((name, j), True) in m and (((('#', tr.bits[j].n), False) in m) or B.band(b, tr.bits[j]) is C0)


def check_take_action_composition(ctx, prog, I, mvs):
    ctx.rule('C02.4', 'GameState::take_action(Move(s,d)) stores exactly remove_trapped_pieces(move_piece(board, s, d)); '
                      'take_action(Pass) stores the board unchanged')
    fn = prog.one('GameState::take_action')
    if not ctx.anchor('fn GameState::take_action', fn is not None):
        return
    kb = inputs.field_index(prog, 'engine::GameState', 'piece_board')
    helpers = prog.one('PieceBoard::move_piece') is not None and prog.one('PieceBoard::remove_trapped_pieces') is not None
    bfn = prog.one('PieceBoard::take_action')
    if not helpers:
        ctx.notes.append('move_piece / remove_trapped_pieces are not both present: the stored board is compared with '
                         'PieceBoard::take_action, whose bits C02.5 decides against the specification')
    for (gold, step) in ((True, 0), (False, 3), (True, 2)):
        for (s, d) in (mvs if (helpers or bfn is not None) else ()):
            gsv = inputs.play_state(prog, gold, step, trapped='sym')
            st = State({})
            gs = inputs.ref_to(I, st, 'gs', gsv)
            act = inputs.ref_to(I, st, 'act', Enum('action::Action', inputs.enum_variant(prog, 'action::Action', 'Move'),
                                                  (inputs.square(s), inputs.direction(prog, d))))
            try:
                r, _ = I.call_fn(fn, [gs, act], st)
            except Undecided as e:
                ctx.finding('UNDECIDED', fn, 'move', 'abstract interpretation gave up: %s' % e)
                return
            got = r.fields[kb].fields[0]
            if helpers:
                moved = run_move_piece(I, prog, s, d)
                _flag, want = run_remove_trapped(I, prog, moved)
            else:
                st3 = State({})
                r3, _ = I.call_fn(bfn, [inputs.ref_to(I, st3, 'pb', gsv.fields[kb]), inputs.ref_to(I, st3, 'act', I.deref(st, act))], st3)
                want = r3.fields[0]
            ok = got == want
            ctx.ob('take_action(%s%s) [%s step %d] board == remove_trapped(move_piece(board))' % (G.name(s), d, 'gold' if gold else 'silver', step),
                   ok, sample=(s == 26 and d == 'Right' and gold))
            if not ok:
                diff = [n for n in FIELD_VARS if board_fields(prog, got)[n] != board_fields(prog, want)[n]]
                ctx.finding('C02.4', fn, 'compose:%s' % ('gold' if gold else 'silver'),
                            'step %s%s at step %d: stored board differs from move-then-remove-trapped on boards %s'
                            % (G.name(s), d, step, diff))
                break
    for (gold, step) in ((True, 1), (False, 2), (True, 3)):
        gsv = inputs.play_state(prog, gold, step, trapped='sym')
        st = State({})
        gs = inputs.ref_to(I, st, 'gs', gsv)
        act = inputs.ref_to(I, st, 'act', Enum('action::Action', inputs.enum_variant(prog, 'action::Action', 'Pass')))
        r, _ = I.call_fn(fn, [gs, act], st)
        ok = r.fields[kb] == gsv.fields[kb]
        ctx.ob('take_action(Pass) [%s step %d] leaves the board unchanged' % ('gold' if gold else 'silver', step), ok, sample=True)
        if not ok:
            ctx.finding('C02.4', fn, 'pass-board', 'a pass changes the board')


def expected_step_board(prog, board, s, d):
    """The board after the offered step (s, d) from first principles (spec geometry): {field: [64 bits]}.  `board` is the board
    before the step with the offered-step facts already substituted (source occupied, destination empty on every board)."""
    f = board_fields(prog, board)
    dst = G.step(s, d)
    moved = {}
    for name in FIELD_VARS:
        bits_ = list(f[name].bits)
        bits_[dst] = B.bor(f[name].bits[s], f[name].bits[dst])
        bits_[s] = C0
        moved[name] = bits_
    out = {name: list(moved[name]) for name in FIELD_VARS}
    for j in G.TRAPS:
        gold_n = C0
        silv_n = C0
        for q in G.neighbours(j):
            gold_n = B.bor(gold_n, B.band(moved['all'][q], moved['p1'][q]))
            silv_n = B.bor(silv_n, B.band(moved['all'][q], B.bnot(moved['p1'][q])))
        friend = B.bite(moved['p1'][j], gold_n, silv_n)
        cap = B.band(moved['all'][j], B.bnot(friend))
        for name in FIELD_VARS:
            out[name][j] = B.band(moved[name][j], B.bnot(cap))
    return out


def equal_on_consistent_boards(x, y):
    """x and y (exact truth tables over board bits) agree on every assignment in which no board claims a piece on a square that
    all_pieces calls empty (the representation invariant of C10: every type board and the gold board are subsets of all_pieces)"""
    if x is y:
        return True
    if x.kind not in 'sc' or y.kind not in 'sc':
        return False
    vs = sorted(set(B.rawvars(x)) | set(B.rawvars(y)), key=repr)
    if len(vs) > 18 or any(not (isinstance(v, tuple) and len(v) == 2 and isinstance(v[1], int)) for v in vs):
        return False
    idx = {v: k for k, v in enumerate(vs)}
    subs = [(idx[v], idx[('all', v[1])]) for v in vs if v[0] != 'all' and ('all', v[1]) in idx]
    for m in range(1 << len(vs)):
        if any((m >> a) & 1 and not (m >> b) & 1 for a, b in subs):
            continue
        asg = {v: (m >> k) & 1 for v, k in idx.items()}
        if B._ev(x, asg) != B._ev(y, asg):
            return False
    return True


def check_step_semantics(ctx, prog, mvs, rule='C02.5'):
    """Public level, independent of how the update is organised internally."""
    from .rules_hash import exact_equal
    ctx.rule(rule, 'GameState::take_action(Move(s,d)) on a state where the step is offered (source occupied, destination empty): '
                   'every bit of the 8 stored bitboards equals the specification - the piece leaves s and arrives on the '
                   'neighbouring square, afterwards a piece on a trap without a friendly orthogonal neighbour is removed from '
                   'every board, nothing else changes - compared as exact truth tables (K = 14) over the board bits involved, on all '
                   'assignments that respect the representation invariant (type and gold boards are subsets of all_pieces)')
    fn = prog.one('GameState::take_action')
    if not ctx.anchor('fn GameState::take_action', fn is not None):
        return
    kb = inputs.field_index(prog, 'engine::GameState', 'piece_board')
    # the board part of a step is usually one function PieceBoard::take_action(&self, &Action) -> (PieceBoardState, ..): it is
    # interpreted directly when it exists (C02.4 ties GameState::take_action's stored board to it); otherwise the public
    # function itself is interpreted (slower: it also hashes and updates the turn record)
    bfn = prog.one('PieceBoard::take_action')
    if bfn is not None:
        rt = prog.fns[bfn]['locals'][0]
        if not (rt.startswith('(engine::PieceBoardState') and prog.fns[bfn].get('argc') == 2):
            bfn = None
    if bfn is None:
        mvs = mvs[:6]
    old_k = B.K
    B.K = 14
    try:
        I2 = inputs.make_interp(prog, fuel=20000000)
        for (s, d) in mvs:
            dst = G.step(s, d)
            asg = {('all', s): 1}
            for name in FIELD_VARS:
                asg[(name, dst)] = 0
            gsv = inputs.subst_lits(inputs.play_state(prog, True, 1, trapped='sym'), asg)
            st = State({})
            act = inputs.ref_to(I2, st, 'act', Enum('action::Action', inputs.enum_variant(prog, 'action::Action', 'Move'),
                                                   (inputs.square(s), inputs.direction(prog, d))))
            try:
                if bfn is not None:
                    pb = inputs.ref_to(I2, st, 'pb', gsv.fields[kb])
                    r, _ = I2.call_fn(bfn, [pb, act], st)
                    newb = r.fields[0]
                else:
                    gs = inputs.ref_to(I2, st, 'gs', gsv)
                    r, _ = I2.call_fn(fn, [gs, act], st)
                    newb = r.fields[kb].fields[0]
            except Undecided as e:
                ctx.ob('take_action(%s%s) interpretable with exact tables' % (G.name(s), d), False)
                ctx.finding('UNDECIDED', fn, 'step-semantics', 'abstract interpretation gave up: %s' % e)
                return
            got = board_fields(prog, newb)
            want = expected_step_board(prog, gsv.fields[kb].fields[0], s, d)
            bad = None
            for name in FIELD_VARS:
                for j in range(64):
                    g, w = got[name].bits[j], want[name][j]
                    if g is w or equal_on_consistent_boards(g, w):
                        continue
                    bad = (name, j)
                    break
                if bad:
                    break
            ctx.count('step_semantics_modes')
            ctx.ob('take_action(%s%s): all 8 x 64 stored bits equal the specified step-then-capture result' % (G.name(s), d), bad is None,
                   sample=(dst in G.TRAPS and d == 'Up'))
            if bad:
                where = 'trap' if bad[1] in G.TRAPS else ('destination' if bad[1] == dst else ('source' if bad[1] == s else 'bystander'))
                ctx.finding(rule, fn, 'step:%s:%s' % (bad[0], where),
                            'step %s%s: bit %s of board %s after the step is not what the rules prescribe (%s square)'
                            % (G.name(s), d, G.name(bad[1]), bad[0], where))
    finally:
        B.K = old_k


def step_semantics_moves(quick):
    """steps onto, off and next to traps from every side, plus edge and centre steps"""
    if not quick:
        return moves(False)
    out = []
    for t in (G.TRAPS[0], G.TRAPS[3]):
        for dd in inputs.DIRS:
            n = G.step(t, dd)
            out.append((t, dd))                       # off the trap
            back = [x for x in inputs.DIRS if G.step(n, x) == t][0]
            out.append((n, back))                     # onto the trap
            side = [x for x in inputs.DIRS if G.step(n, x) not in (t, None)][0]
            out.append((n, side))                     # a defender leaves
    out += [(0, 'Right'), (63, 'Up'), (27, 'Left')]
    return out


# ------------------------------------------------------------------------------------------------ C10
# functions whose resulting boards are decided bit by bit by other rules of this check: the constructors (C10.2), the two update
# helpers (C02.2 / C02.3) and the board step itself (C02.5 decides every stored bit of PieceBoard::take_action's result)
WRITERS_OK = ('PieceBoard::initial', 'PieceBoard::new', 'PieceBoard::move_piece', 'PieceBoard::remove_trapped_pieces',
              'PieceBoard::take_action',
              # the public step function itself: every bit of the board it stores is decided for a step (C02.5 / C10.5), a placement
              # (C09.3: exactly the placed type, the gold board iff Gold, all_pieces) and a pass (C02.4: unchanged), so private
              # helpers below it (e.g. a `with_piece_placed`) are part of it
              'GameState::take_action')


def check_writers(ctx, prog):
    ctx.rule('C10.1', 'fields of PieceBoardState are written (assigned, constructed, or mutably borrowed) only in '
                      'PieceBoard::{initial,new,move_piece,remove_trapped_pieces,take_action}, the derived Clone, and private helpers (lending '
                      'mutable references to the fields or updating them) that are called from those functions only; no reachable '
                      'function returns a mutable reference to a state type')
    n_sites = 0
    sites = []        # (function, kind, at)
    for name, f in prog.fns.items():
        for body in prog.bodies(name):
            for b in body['blocks']:
                if b.get('cleanup'):
                    continue
                for s in b['st']:
                    if 'dst' not in s:
                        continue
                    site = None
                    rv = s['rv']
                    if rv['k'] == 'agg' and rv.get('adt', '').endswith('PieceBoardState'):
                        site = 'construct'
                    elif rv['k'] == 'ref' and rv.get('mut') and _writes_pbs_field(prog, body, rv['pl']):
                        site = 'borrow-mut'
                    else:
                        p = s['dst']['p']
                        if p and any(isinstance(e, dict) and 'f' in e for e in p):
                            # does the projection path go through a field of a PieceBoardState value (reached from any owner)?
                            if _writes_pbs_field(prog, body, s['dst']):
                                site = 'assign'
                    if site:
                        sites.append((name, site, s.get('at')))
    def is_writer(name):
        f = prog.fns[name]
        return any(name.endswith(w) for w in WRITERS_OK) or bool(f.get('derived') and (f.get('trait_impl') or '').endswith('Clone'))
    # private helpers of the writers: functions that lend `&mut field` or update fields on a writer's behalf; every caller must be a
    # writer (or another such helper) and the function must not be public - their effect is part of the writers' results, which
    # the update rules decide bit by bit
    callers = {}
    for name in prog.fns:
        for _bi, t in prog.calls(name):
            c = prog.callee(t)
            if c in prog.fns:
                callers.setdefault(c, set()).add(prog.fns[name].get('parent') or name)
    lender_cache = {}

    def is_lender(name, depth=0):
        if name in lender_cache:
            return lender_cache[name]
        f = prog.fns[name]
        ok = depth < 4 and 'Public' not in str(f.get('vis')) \
            and bool(callers.get(name)) and all(is_writer(c) or is_lender(c, depth + 1) for c in callers.get(name, ()))
        lender_cache[name] = ok
        return ok
    for name, site, at in sites:
        n_sites += 1
        allowed = is_writer(name) or is_lender(name)
        ctx.ob('%s %s PieceBoardState in %s' % (site, 'of' if site == 'construct' else 'to a field of', name), allowed)
        if not allowed:
            ctx.finding('C10.1', name, 'writer:' + site,
                        '%s writes PieceBoardState (%s) outside the four board constructors/updaters' % (name, site), at=at)
    for name, f in prog.fns.items():
        if f.get('reachable') and f['locals'][0].startswith('&mut ') and any(t in f['locals'][0] for t in ('PieceBoardState', 'PieceBoard', 'GameState', 'PlayPhase')):
            ctx.ob('%s returns %s' % (name, f['locals'][0]), False)
            ctx.finding('C10.1', name, 'returns-mut', 'public function hands out %s' % f['locals'][0])
    # constructors and updaters exist in some form: two constructions and an update of each of the eight boards
    ctx.floor('PieceBoardState write/construct sites', n_sites, 10)


def _writes_pbs_field(prog, body, place):
    ty = body['locals'][place['l']]
    cur = ty
    for e in place['p']:
        ti = prog.types.get(cur)
        if e == 'deref':
            if ti and ti['k'] in ('ref', 'ptr'):
                cur = ti['to']
            continue
        if isinstance(e, dict) and 'f' in e:
            if cur == 'engine::PieceBoardState':
                return True
            if ti and ti['k'] == 'adt' and not ti['enum']:
                fs = ti['variants'][0]['fields']
                cur = fs[e['f']] if e['f'] < len(fs) else None
            elif ti and ti['k'] == 'tuple':
                cur = ti['of'][e['f']]
            else:
                return False
    return False


def check_union_and_accessors(ctx, prog, I):
    ctx.rule('C10.2', 'PieceBoard::new: all_pieces is the OR of exactly the six type boards, other fields copied')
    fn = prog.one('PieceBoard::new')
    if ctx.anchor('fn PieceBoard::new', fn is not None):
        f = prog.fns[fn]
        names = [f['names'].get(str(i + 1), 'arg%d' % i) for i in range(f['argc'])]
        args = [BV.var('in.' + n) for n in names]
        r, _ = I.call_fn(fn, args)
        pbs = r.fields[0]
        order = inputs.pbs_field_order(prog)
        for k, n in enumerate(order):
            bv = pbs.fields[k]
            if n == 'all_pieces':
                types6 = ['elephants', 'camels', 'horses', 'dogs', 'cats', 'rabbits']
                ok = all(B.deps(bv.bits[i]) == {('in.' + t, i) for t in types6} and
                         all((('in.' + t, i), True) in B.suff(bv.bits[i]) for t in types6) for i in range(64))
                ctx.ob('PieceBoard::new: all_pieces[i] = OR of the six type bits at i (each sufficient)', ok, sample=True)
                if not ok:
                    i = next(i for i in range(64) if B.deps(bv.bits[i]) != {('in.' + t, i) for t in types6} or
                             not all((('in.' + t, i), True) in B.suff(bv.bits[i]) for t in types6))
                    ctx.finding('C10.2', fn, 'all_pieces', 'all_pieces bit %s depends on %s; each of the six types must be sufficient'
                                % (G.name(i), fmt_deps(B.deps(bv.bits[i]))))
            else:
                ok = bv == BV.var('in.' + n)
                ctx.ob('PieceBoard::new: %s copied from its parameter' % n, ok)
                if not ok:
                    ctx.finding('C10.2', fn, 'field:' + n, 'field %s is not a copy of parameter %s' % (n, n))
    ctx.rule('C10.4', 'bits_for_piece(p, colour)[i] = type board of p at i, restricted to that colour (gold: +p1[i]; silver: '
                      '-p1[i], +all[i]); player_piece_mask likewise; bits_by_piece_type(p) is the board of p; piece_type_at_bit '
                      'is a total priority chain over the type boards of that square')
    fn = prog.one('PieceBoardState::bits_for_piece')
    fn2 = prog.one('PieceBoardState::bits_by_piece_type')
    fn3 = prog.one('PieceBoardState::player_piece_mask')
    board = inputs.board(prog)
    if ctx.anchor('fn bits_for_piece', fn is not None) and ctx.anchor('fn bits_by_piece_type', fn2 is not None):
        for p in G.STRENGTH:
            st = State({})
            pb = inputs.ref_to(I, st, 'pb', board)
            r, _ = I.call_fn(fn2, [pb, inputs.piece(prog, p)], st)
            ok = r == BV.var(TYPE_VAR[p])
            ctx.ob('bits_by_piece_type(%s) is the %s board' % (p, TYPE_VAR[p]), ok, sample=(p == 'Horse'))
            if not ok:
                ctx.finding('C10.4', fn2, 'type:' + p, 'bits_by_piece_type(%s) is not the board of that type' % p)
            for gold in (True, False):
                st = State({})
                pb = inputs.ref_to(I, st, 'pb', board)
                r, _ = I.call_fn(fn, [pb, inputs.piece(prog, p), TRUE if gold else FALSE], st)
                bad = None
                for i in range(64):
                    need = set(mover_lits(gold, i)) | {((TYPE_VAR[p], i), True)}
                    wantd = {(TYPE_VAR[p], i), ('p1', i)} | (set() if gold else {('all', i)})
                    d = B.deps(r.bits[i])
                    if not (need <= B.must(r.bits[i])) or not (d == wantd or (gold and d == wantd | {('all', i)})):
                        bad = i
                        break
                ctx.ob('bits_for_piece(%s, %s): type and colour literal per square' % (p, 'gold' if gold else 'silver'), bad is None,
                       sample=(p == 'Rabbit'))
                if bad is not None:
                    ctx.finding('C10.4', fn, 'colour:%s:%s' % (p, 'gold' if gold else 'silver'),
                                'bits_for_piece(%s, %s) bit %s: must-literals %s, depends on %s'
                                % (p, gold, G.name(bad), fmt_lits(real_lits(r.bits[bad])), fmt_deps(B.deps(r.bits[bad]))))
    if ctx.anchor('fn player_piece_mask', fn3 is not None):
        for gold in (True, False):
            st = State({})
            pb = inputs.ref_to(I, st, 'pb', board)
            r, _ = I.call_fn(fn3, [pb, TRUE if gold else FALSE], st)
            bad = next((i for i in range(64) if not set(mover_lits(gold, i)) <= B.must(r.bits[i])
                        or not B.deps(r.bits[i]) <= {('p1', i), ('all', i)}), None)
            ctx.ob('player_piece_mask(%s): colour literal per square' % ('gold' if gold else 'silver'), bad is None)
            if bad is not None:
                ctx.finding('C10.4', fn3, 'mask:%s' % ('gold' if gold else 'silver'),
                            'player_piece_mask(%s) bit %s: must-literals %s' % (gold, G.name(bad), fmt_lits(real_lits(r.bits[bad]))))
    fn4 = prog.one('piece_type_at_bit')
    if ctx.anchor('fn piece_type_at_bit', fn4 is not None):
        for i in (0, 27, 63):
            st = State({})
            pb = inputs.ref_to(I, st, 'pb', board)
            r, _ = I.call_fn(fn4, [BV.const(1 << i, 64), pb], st)
            cases = enum_cases(I, r)
            leaves = {}
            ok = True
            for conds, leaf in cases:
                nm = prog.types['piece::Piece']['variants'][leaf.var]['name']
                pos = []
                for c, pol in conds:
                    if not (c.kind == 's' and len(c.sup) == 1 and c.sup[0] in {(t, i) for t in TYPE_VAR.values()}):
                        ok = False
                        continue
                    val = (c.tt == (0, 1)) == pol
                    if val:
                        pos.append(c.sup[0])
                leaves.setdefault(nm, []).append(pos)
            # each type is chosen when (and, except for the default arm, only when) its own bit is set
            default = [nm for nm, ps in leaves.items() if any(not p for p in ps)]
            for nm, ps in leaves.items():
                for p in ps:
                    if p and p != [(TYPE_VAR[nm], i)]:
                        ok = False
            ok = ok and set(leaves) == set(G.STRENGTH) and len(default) == 1
            ctx.ob('piece_type_at_bit(%s): total chain, each type selected by its own board bit, one default arm (%s)' % (G.name(i), default),
                   ok, sample=(i == 27))
            if not ok:
                ctx.finding('C10.4', fn4, 'chain', 'piece_type_at_bit: types %s, default arms %s - not a total priority chain keyed by '
                            'each type\'s own board' % (sorted(leaves), default))
    fn5 = prog.one('PieceBoardState::piece_type_at_square')
    if ctx.anchor('fn piece_type_at_square', fn5 is not None):
        i = 27
        st = State({})
        pb = inputs.ref_to(I, st, 'pb', board)
        sq = inputs.ref_to(I, st, 'sq', inputs.square(i))
        r, _ = I.call_fn(fn5, [pb, sq], st)
        ok = isinstance(r, Ite) and ((r.c is B.lit(('all', i)) and isinstance(r.b, Enum) and r.b.var == 0) or
                                     (r.c is B.lit(('all', i), False) and isinstance(r.a, Enum) and r.a.var == 0))
        ctx.ob('piece_type_at_square(%s) is Some exactly when all_pieces has that bit' % G.name(i), ok)
        if not ok:
            ctx.finding('C10.4', fn5, 'some-iff-occupied', 'piece_type_at_square is not "Some iff the square is occupied"')


def check_display_traps(ctx, prog):
    ctx.rule('C10.4d', 'the printed diagram of the empty board marks exactly the trap squares of TRAP_MASK (x) and leaves every other '
                       'square blank: the printer interpreted on the constant empty board')
    from .rules_text import printed_empty_board
    try:
        cells, why = printed_empty_board(prog)
    except Undecided as e:
        cells, why = None, str(e)
    if cells is None:
        ctx.ob('printed empty board extracted', False)
        ctx.finding('C10.4d', 'Display for GameState', 'trap-markers', 'cannot extract the printed empty board: %s' % why)
        return
    marked = sorted(q for q, c in cells.items() if c != ' ')
    ok = marked == sorted(G.TRAPS) and all(cells[q] == 'x' for q in G.TRAPS)
    ctx.ob('Display marks %s on the empty board; traps are %s' % ([G.name(i) for i in marked], [G.name(i) for i in sorted(G.TRAPS)]), ok, sample=True)
    if not ok:
        ctx.finding('C10.4d', 'Display for GameState', 'trap-markers', 'the empty board prints non-blank cells at %s (%s); the traps are %s'
                    % ([G.name(i) for i in marked], sorted(set(cells[q] for q in marked)), [G.name(i) for i in sorted(G.TRAPS)]))


def check_display_cells(ctx, prog):
    from .rules_text import check_cell_table
    check_cell_table(ctx, prog, 'C10.4e')


# ------------------------------------------------------------------------------------------------ C13
def check_preview(ctx, prog, I, mvs):
    ctx.rule('C13', 'trapped_animal_for_action(Move(s,d)) is None exactly when trapped_piece_bits() of the moved board is '
                    'zero; otherwise it names from_bit_board of exactly that value, the type read from the moved (not yet '
                    'pruned) board at that square, and an owner flag that requires the gold literal; non-Move actions give None')
    fn = prog.one('GameState::trapped_animal_for_action')
    if not ctx.anchor('fn trapped_animal_for_action', fn is not None):
        return
    for (s, d) in mvs:
        for gold in (True, False):
            gsv = inputs.play_state(prog, gold, 1, trapped='sym')
            st = State({})
            gs = inputs.ref_to(I, st, 'gs', gsv)
            act = inputs.ref_to(I, st, 'act', Enum('action::Action', inputs.enum_variant(prog, 'action::Action', 'Move'),
                                                  (inputs.square(s), inputs.direction(prog, d))))
            r, _ = I.call_fn(fn, [gs, act], st)
            moved = run_move_piece(I, prog, s, d)
            tr = run_trapped_bits(I, prog, moved)
            nz = I.nonzero_bit(tr)
            inst = 'gold' if gold else 'silver'
            # shape: Ite(nz ? Some(..) : None) or Ite(!nz ? None : Some)
            some = none_ = cond = None
            if isinstance(r, Ite):
                if isinstance(r.a, Enum) and r.a.var == 1:
                    some, none_, cond = r.a, r.b, r.c
                elif isinstance(r.b, Enum) and r.b.var == 1:
                    some, none_, cond = r.b, r.a, B.bnot(r.c)
            ok_shape = some is not None and isinstance(none_, Enum) and none_.var == 0 and cond is nz
            ctx.ob('preview(%s%s): Some exactly when trapped_piece_bits(moved board) != 0' % (G.name(s), d), ok_shape,
                   sample=(s == 26 and d == 'Right' and gold))
            if not ok_shape:
                ctx.finding('C13', fn, 'some-iff-captured:' + inst,
                            'step %s%s: the preview is not "Some iff the moved board has a trapped piece" (extra or missing condition)'
                            % (G.name(s), d))
                continue
            tup = some.fields[0]
            sqv, pcv, owner = tup.fields
            idx = sqv.fields[0]
            ok_sq = isinstance(idx, Term) and idx.kind == 'tz' and idx.args[0] == tr or \
                (isinstance(idx, BV) and idx.known() and len(tr.maybe_set()) == 1 and idx.uval() == tr.maybe_set()[0])
            ctx.ob('preview(%s%s): square = from_bit_board(unmodified trapped_piece_bits)' % (G.name(s), d), ok_sq)
            if not ok_sq:
                ctx.finding('C13', fn, 'square:' + inst, 'step %s%s: reported square %r is not the index of the trapped bit set'
                            % (G.name(s), d, idx))
            # owner flag must imply gold at every trap that can be the captured one
            traps_possible = tr.maybe_set()
            m = B.must(owner.bits[0])
            # the flag is nz(bits_for_piece(piece,true) & firstset): it depends on p1 of the moved board at traps
            dflag = B.deps(owner.bits[0])
            ok_owner = owner.bits[0] is not C0 and owner.bits[0] is not C1 and any(v[0] == 'p1' for v in dflag)
            # polarity: with a silver-only board the flag must fold to false
            ctx.ob('preview(%s%s): owner flag depends on the gold board' % (G.name(s), d), ok_owner)
            if not ok_owner:
                ctx.finding('C13', fn, 'owner:' + inst, 'step %s%s: the owner flag does not depend on piece colour' % (G.name(s), d))
    # polarity of the owner flag and type source, on a board where only one trap can capture
    for t in G.TRAPS:
        for (s, d) in [(n, dd) for n in G.neighbours(t) for dd in inputs.DIRS if G.step(n, dd) == t][:2]:
            board = inputs.board(prog)
            fs = board_fields(prog, board)
            # empty the other traps so that the captured square is known to be t
            order = inputs.pbs_field_order(prog)
            newf = []
            for k, n in enumerate(order):
                bits_ = list(board.fields[k].bits)
                for o in G.TRAPS:
                    if o != t:
                        bits_[o] = C0
                # the destination trap is empty before the step (offered actions only)
                bits_[t] = C0
                newf.append(BV(bits_))
            board2 = Struct(board.ty, newf)
            gsv = inputs.play_state(prog, True, 1)
            from .rules_c01 import with_board
            gsv = with_board(prog, gsv, board2)
            st = State({})
            gs = inputs.ref_to(I, st, 'gs', gsv)
            act = inputs.ref_to(I, st, 'act', Enum('action::Action', inputs.enum_variant(prog, 'action::Action', 'Move'),
                                                  (inputs.square(s), inputs.direction(prog, d))))
            r, _ = I.call_fn(fn, [gs, act], st)
            some = r.a if isinstance(r, Ite) and isinstance(r.a, Enum) and r.a.var == 1 else (r.b if isinstance(r, Ite) else None)
            if not isinstance(some, Enum) or some.var != 1:
                ctx.finding('C13', fn, 'shape-trap:' + G.name(t), 'stepping %s%s onto trap %s: preview has no Some case' % (G.name(s), d, G.name(t)))
                continue
            sqv, pcv, owner = some.fields[0].fields
            ok_sq = isinstance(sqv.fields[0], BV) and sqv.fields[0].known() and sqv.fields[0].uval() == t
            # after the step the piece on t is the one that came from s: gold iff p1[s]
            ok_owner = ((('p1', s), True) in B.must(owner.bits[0]))
            # type conditions come from the type boards at the source square s (moved, not pruned board)
            dd = set()
            for conds, _leaf in enum_cases(I, pcv):
                for c, _p in conds:
                    dd |= B.deps(c)
            ok_type = bool(dd) and dd <= {(v, s) for v in TYPE_VAR.values()} | {(v, t) for v in TYPE_VAR.values()}
            ctx.ob('stepping %s%s into trap %s: square=%s, owner flag requires gold piece on %s, type read from the moved piece'
                   % (G.name(s), d, G.name(t), G.name(t), G.name(s)), ok_sq and ok_owner and ok_type, sample=True)
            if not ok_sq:
                ctx.finding('C13', fn, 'square-trap', 'stepping %s%s into %s: reported square is %r' % (G.name(s), d, G.name(t), sqv))
            if not ok_owner:
                ctx.finding('C13', fn, 'owner-polarity', 'stepping %s%s into %s: owner flag true does not require a gold piece (must-literals %s)'
                            % (G.name(s), d, G.name(t), fmt_lits(real_lits(owner.bits[0]))))
            if not ok_type:
                ctx.finding('C13', fn, 'type-source', 'stepping %s%s into %s: the reported type depends on %s, not on the piece that moved'
                            % (G.name(s), d, G.name(t), fmt_deps(dd)))
    # non-Move actions
    for an in ('Pass',):
        gsv = inputs.play_state(prog, True, 1)
        st = State({})
        gs = inputs.ref_to(I, st, 'gs', gsv)
        act = inputs.ref_to(I, st, 'act', Enum('action::Action', inputs.enum_variant(prog, 'action::Action', an)))
        r, _ = I.call_fn(fn, [gs, act], st)
        ok = isinstance(r, Enum) and r.var == 0
        ctx.ob('preview(Pass) is None', ok)
        if not ok:
            ctx.finding('C13', fn, 'non-move', 'preview of a non-step action is not None')
