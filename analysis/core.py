"""Check context: findings keyed without line numbers, known-findings file,
reports, evidence (DESIGN 2.4)."""
import hashlib
import json
import os
import time

VERIF = os.path.dirname(os.path.dirname(os.path.abspath(__file__)))
KNOWN = os.path.join(VERIF, 'known_findings.txt')
# runs against a scratch tree (selftest, VF_REPO=...) must never overwrite the evidence of /repo
OUT = VERIF if os.environ.get('VF_REPO', '/repo') == '/repo' else os.path.join(VERIF, '.cache', 'scratch-out')


class CheckerBroken(Exception):
    """A control failed or the machinery cannot run; nothing is claimed."""


class Ctx:
    def __init__(self, prop, tier, level, seed=0):
        self.prop = prop
        self.tier = tier
        self.level = level
        self.seed = seed
        self.t0 = time.time()
        self.findings = []        # dict(key, rule, fn, at, msg, detail)
        self.obligations = 0      # obligations analysed
        self.discharged = 0
        self.nontrivial = set()   # distinct obligations needing more than constant folding
        self.samples = []
        self.rules = []           # rule texts
        self.assumptions = []
        self.analysed = {}        # free-form counters: functions, call sites, modes ...
        self.exhaustive = None
        self.notes = []

    # -- recording
    def rule(self, rid, text):
        self.rules.append({'id': rid, 'text': text})

    def ob(self, desc, ok, nontrivial=True, sample=False):
        """Record one obligation; `ok` True = discharged."""
        self.obligations += 1
        if ok:
            self.discharged += 1
        if nontrivial:
            self.nontrivial.add(desc)
        if sample or (ok and len(self.samples) < 12 and nontrivial and self.obligations % 7 == 1):
            if len(self.samples) < 40:
                self.samples.append({'obligation': desc, 'verdict': 'discharged' if ok else 'VIOLATED'})

    def count(self, name, n=1):
        self.analysed[name] = self.analysed.get(name, 0) + n

    def setcount(self, name, n):
        self.analysed[name] = n

    def finding(self, rule, fn, instance, msg, at=None, detail=None):
        key = '%s/%s/%s' % (rule, fn, instance)
        for f in self.findings:
            if f['key'] == key:
                return
        self.findings.append({'key': key, 'rule': rule, 'fn': fn, 'instance': instance,
                              'msg': msg, 'at': at, 'detail': detail})

    def floor(self, what, got, want):
        """Fail closed when a confirmed instance count is lost."""
        self.ob('floor %s: found %d, confirmed %d' % (what, got, want), got >= want, nontrivial=False)
        if got < want:
            self.finding('ANCHOR-LOST', what, 'count', 'expected at least %d instances of %s, found %d'
                         % (want, what, got))

    def anchor(self, what, present):
        if not present:
            self.ob('anchor %s present' % what, False, nontrivial=False)
            self.finding('ANCHOR-LOST', what, 'missing', 'anchor %s not found in the analysed program' % what)
        return present


def load_known():
    findings, fixed = {}, []
    if os.path.exists(KNOWN):
        for line in open(KNOWN):
            line = line.strip()
            if not line or line.startswith('#'):
                continue
            if line.startswith('finding:'):
                rest = line[len('finding:'):].strip()
                parts = dict(p.split('=', 1) for p in rest.split(' ', 2)[:2])
                desc = rest.split(' ', 2)[2] if len(rest.split(' ', 2)) > 2 else ''
                findings[(parts['property'], parts['key'])] = desc
            elif line.startswith('fixed:'):
                fixed.append(line)
    return findings, fixed


def finish(ctx, explanation, trusted_base=None, checker_cmd=None):
    """Print KNOWN-FINDING / VIOLATION lines, write reports and evidence; return exit code."""
    known, _fixed = load_known()
    rep_dir = os.path.join(OUT, 'reports', ctx.prop)
    violations = 0
    known_hit = 0
    for f in ctx.findings:
        kk = (ctx.prop, f['key'])
        if kk in known:
            print('KNOWN-FINDING: property=%s %s [%s]' % (ctx.prop, known[kk], f['key']))
            known_hit += 1
            continue
        os.makedirs(rep_dir, exist_ok=True)
        h = hashlib.sha256(f['key'].encode()).hexdigest()[:16]
        path = os.path.join(rep_dir, h + '.json')
        rep = dict(f)
        rep['property'] = ctx.prop
        rep['rules'] = [r for r in ctx.rules if r['id'] == f['rule'] or f['rule'].startswith(r['id'])]
        with open(path, 'w') as out:
            json.dump(rep, out, indent=1, default=str)
        print('VIOLATION property=%s replay=%s' % (ctx.prop, path))
        print('  rule=%s fn=%s instance=%s at=%s\n  %s' % (f['rule'], f['fn'], f['instance'], f['at'], f['msg']))
        violations += 1
    wall = time.time() - ctx.t0
    cov = {
        'explanation': explanation,
        'obligations': ctx.obligations,
        'discharged': ctx.discharged,
        'evaluations': max(ctx.obligations, 1),
        'distinct_nontrivial': len(ctx.nontrivial),
        'rule': 'one obligation per (rule instance, mode); non-trivial = its discharge needed more than '
                'constant folding or presence of an anchor; distinct by obligation text',
        'samples': ctx.samples[:40] if ctx.samples else [{'obligation': 'none recorded', 'verdict': 'n/a'}],
        'rules': ctx.rules,
        'analysed': ctx.analysed,
        'known_findings_matched': known_hit,
        'checker_cmd': checker_cmd or ('./vf check %s --tier %s' % (ctx.prop, ctx.tier)),
        'trusted_base': trusted_base or [],
    }
    if ctx.exhaustive is not None:
        cov['exhaustive'] = ctx.exhaustive
    if ctx.notes:
        cov['notes'] = ctx.notes
    ev = {
        'property_id': ctx.prop,
        'tier': ctx.tier,
        'seed': ctx.seed,
        'level': ctx.level,
        'coverage': cov,
        'assumptions': ctx.assumptions,
        'wall_s': round(wall, 3),
        'violations': violations,
    }
    os.makedirs(os.path.join(OUT, 'evidence'), exist_ok=True)
    tmp = os.path.join(OUT, 'evidence', '%s.json.tmp' % ctx.prop)
    with open(tmp, 'w') as out:
        json.dump(ev, out, indent=1, default=str)
    os.replace(tmp, os.path.join(OUT, 'evidence', '%s.json' % ctx.prop))
    print('%s tier=%s obligations=%d discharged=%d violations=%d known=%d wall=%.1fs'
          % (ctx.prop, ctx.tier, ctx.obligations, ctx.discharged, violations, known_hit, wall))
    return 1 if violations else 0
