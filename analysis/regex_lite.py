"""A small regular-expression reader and leftmost-first matcher for *constant* patterns found in the analysed crate.

Used by the C15 header rule: the pattern is a constant of the program, the language of printed headers is known from the
Display analysis, so "every printed header is matched and captured as (number, side)" is a decidable statement about two
constants.  Supported: literals, escapes \\s \\d \\w \\S \\D \\W and escaped punctuation, '.', classes with ranges and
negation, groups (capturing and (?:..)), alternation, ^ $, quantifiers * + ? {m} {m,} {m,n} (greedy and lazy).
Anything else raises Unsupported (the caller fails closed).
"""


class Unsupported(Exception):
    pass


def _cls_escape(c):
    if c == 'd':
        return lambda ch: ch.isdigit() and ch.isascii() or (ch.isdigit())
    if c == 'D':
        return lambda ch: not ch.isdigit()
    if c == 's':
        return lambda ch: ch.isspace()
    if c == 'S':
        return lambda ch: not ch.isspace()
    if c == 'w':
        return lambda ch: ch.isalnum() or ch == '_'
    if c == 'W':
        return lambda ch: not (ch.isalnum() or ch == '_')
    if c == 'n':
        return lambda ch: ch == '\n'
    if c == 't':
        return lambda ch: ch == '\t'
    if c == 'r':
        return lambda ch: ch == '\r'
    if not c.isalnum():
        return lambda ch, c=c: ch == c
    raise Unsupported('escape \\%s' % c)


class Parser(object):
    def __init__(self, p):
        self.p = p
        self.i = 0
        self.ngroups = 0

    def peek(self):
        return self.p[self.i] if self.i < len(self.p) else None

    def parse(self):
        n = self.alt()
        if self.i != len(self.p):
            raise Unsupported('unbalanced pattern at %d' % self.i)
        return n

    def alt(self):
        branches = [self.concat()]
        while self.peek() == '|':
            self.i += 1
            branches.append(self.concat())
        return branches[0] if len(branches) == 1 else ('alt', branches)

    def concat(self):
        items = []
        while self.peek() is not None and self.peek() not in '|)':
            items.append(self.repeat())
        return ('cat', items)

    def repeat(self):
        a = self.atom()
        while True:
            c = self.peek()
            if c == '*':
                lo, hi = 0, None
            elif c == '+':
                lo, hi = 1, None
            elif c == '?':
                lo, hi = 0, 1
            elif c == '{':
                j = self.p.find('}', self.i)
                if j < 0:
                    raise Unsupported('unterminated {')
                body = self.p[self.i + 1:j]
                try:
                    if ',' in body:
                        x, y = body.split(',', 1)
                        lo = int(x)
                        hi = int(y) if y.strip() else None
                    else:
                        lo = hi = int(body)
                except ValueError:
                    raise Unsupported('counted repetition {%s}' % body)
                self.i = j
            else:
                return a
            self.i += 1
            lazy = False
            if self.peek() == '?':
                lazy = True
                self.i += 1
            a = ('rep', a, lo, hi, lazy)

    def atom(self):
        c = self.peek()
        self.i += 1
        if c == '(':
            cap = None
            if self.p.startswith('?:', self.i):
                self.i += 2
            elif self.peek() == '?':
                raise Unsupported('group flags')
            else:
                self.ngroups += 1
                cap = self.ngroups
            n = self.alt()
            if self.peek() != ')':
                raise Unsupported('unterminated group')
            self.i += 1
            return ('grp', cap, n)
        if c == '[':
            return self.cls()
        if c == '\\':
            e = self.peek()
            if e is None:
                raise Unsupported('dangling backslash')
            self.i += 1
            return ('set', _cls_escape(e))
        if c == '^':
            return ('bol',)
        if c == '$':
            return ('eol',)
        if c == '.':
            return ('set', lambda ch: ch != '\n')
        if c in '*+?{':
            raise Unsupported('dangling quantifier')
        return ('set', lambda ch, c=c: ch == c)

    def cls(self):
        neg = False
        if self.peek() == '^':
            neg = True
            self.i += 1
        tests = []
        first = True
        while True:
            c = self.peek()
            if c is None:
                raise Unsupported('unterminated class')
            if c == ']' and not first:
                self.i += 1
                break
            first = False
            self.i += 1
            if c == '[':
                raise Unsupported('nested class')
            if c == '\\':
                e = self.peek()
                self.i += 1
                tests.append(_cls_escape(e))
                continue
            if self.peek() == '-' and self.i + 1 < len(self.p) and self.p[self.i + 1] != ']':
                hi = self.p[self.i + 1]
                self.i += 2
                tests.append(lambda ch, lo=c, hi=hi: lo <= ch <= hi)
            else:
                tests.append(lambda ch, c=c: ch == c)
        return ('set', (lambda ch: not any(t(ch) for t in tests)) if neg else (lambda ch: any(t(ch) for t in tests)))


def compile(p):
    ps = Parser(p)
    return ps.parse(), ps.ngroups


def _m(node, s, i, caps, k):
    """backtracking matcher in continuation-passing style; k(i, caps) -> result or None"""
    t = node[0]
    if t == 'cat':
        items = node[1]

        def go(j, i, caps):
            if j == len(items):
                return k(i, caps)
            return _m(items[j], s, i, caps, lambda i2, c2: go(j + 1, i2, c2))
        return go(0, i, caps)
    if t == 'alt':
        for b in node[1]:
            r = _m(b, s, i, caps, k)
            if r is not None:
                return r
        return None
    if t == 'set':
        if i < len(s) and node[1](s[i]):
            return k(i + 1, caps)
        return None
    if t == 'bol':
        return k(i, caps) if i == 0 else None
    if t == 'eol':
        return k(i, caps) if i == len(s) else None
    if t == 'grp':
        cap = node[1]

        def after(i2, c2):
            if cap is not None:
                c2 = dict(c2)
                c2[cap] = (i, i2)
            return k(i2, c2)
        return _m(node[2], s, i, caps, after)
    if t == 'rep':
        _, a, lo, hi, lazy = node

        def go(n, i, caps):
            def more():
                if hi is not None and n >= hi:
                    return None
                return _m(a, s, i, caps, lambda i2, c2: go(n + 1, i2, c2) if i2 > i or n < lo else None)

            def stop():
                return k(i, caps) if n >= lo else None
            if lazy:
                r = stop()
                return r if r is not None else more()
            r = more()
            return r if r is not None else stop()
        return go(0, i, caps)
    raise Unsupported(t)


def search(compiled, s):
    """leftmost-first search like regex::Regex::captures: returns {0: (a, b), g: (a, b) ...} or None"""
    node, ng = compiled
    for start in range(len(s) + 1):
        r = _m(node, s, start, {}, lambda i, c: (i, c))
        if r is not None:
            end, caps = r
            caps = dict(caps)
            caps[0] = (start, end)
            return caps
    return None
