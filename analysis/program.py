"""Program model over the exported facts: functions, call sites, call graph,
reachability, SCCs, dominators (analysis A of DESIGN)."""
import struct


class Program:
    def __init__(self, facts):
        self.F = facts
        self.fns = facts['fns']
        self.types = facts['types']
        self.consts = facts['consts']
        self.adts = {a['path']: a for a in facts['adts']}
        self._cg = None

    # ---- lookup by role / suffix (private helpers are found by name *suffix*,
    # so moving a function between modules does not lose the anchor)
    def find(self, suffix):
        """Functions whose def path equals `suffix` or ends with '::'+suffix."""
        out = [k for k in self.fns if k == suffix or k.endswith('::' + suffix)]
        return out

    def one(self, suffix):
        c = self.find(suffix)
        return c[0] if len(c) == 1 else None

    def const_named(self, suffix):
        c = [k for k in self.consts if k == suffix or k.endswith('::' + suffix)]
        return c[0] if len(c) == 1 else None

    def const_int(self, suffix):
        k = self.const_named(suffix)
        if k is None or 'int' not in self.consts[k]:
            return None
        return int(self.consts[k]['int'])

    def const_u64_array(self, suffix):
        """Flattened list of u64 read from the constant's allocation bytes + its dims."""
        k = self.const_named(suffix)
        if k is None or 'bytes' not in self.consts[k]:
            return None, None
        ty = self.consts[k]['ty']
        raw = bytes.fromhex(self.consts[k]['bytes'])
        dims = []
        t = self.types.get(ty)
        while t and t['k'] == 'array':
            dims.append(t['len'])
            t = self.types.get(t['of'])
        if not t or t['k'] != 'int':
            return None, None
        w = t['bits'] // 8
        n = len(raw) // w
        vals = [int.from_bytes(raw[i * w:(i + 1) * w], 'little') for i in range(n)]
        return vals, dims

    # ---- iteration
    def bodies(self, name):
        """The body and its promoted bodies."""
        f = self.fns[name]
        yield f
        for p in f.get('promoted', []):
            yield p

    def calls(self, name, include_cleanup=False):
        """(block index, terminator) for each Call in function `name`."""
        f = self.fns[name]
        for bi, b in enumerate(f['blocks']):
            if b.get('cleanup') and not include_cleanup:
                continue
            t = b['term']
            if t['k'] == 'call':
                yield bi, t

    def callee(self, t):
        r = t.get('res')
        if r:
            return r['path']
        f = t.get('f')
        if f and f.get('k') == 'fn':
            return f['path']
        return None

    def closures_of(self, name):
        return [k for k, f in self.fns.items() if f.get('parent') == name and k != name]

    # ---- call graph over local bodies (+ external leaves)
    def callgraph(self):
        if self._cg is not None:
            return self._cg
        cg = {}
        for name, f in self.fns.items():
            out = set()
            for b in f['blocks']:
                if b.get('cleanup'):
                    continue
                t = b['term']
                if t['k'] == 'call':
                    c = self.callee(t)
                    if c:
                        out.add(c)
                # closure construction -> closure body; fn items passed as values
                for s in b['st']:
                    rv = s.get('rv')
                    if rv and rv['k'] == 'agg' and 'closure' in rv:
                        out.add(rv['closure'])
                    if rv:
                        for o in _operands(rv):
                            if o.get('k') == 'fn':
                                out.add(o['path'])
                if t['k'] == 'call':
                    for a in t['a']:
                        if a.get('k') == 'fn':
                            out.add(a['path'])
            cg[name] = out
        self._cg = cg
        return cg

    def reachable(self, roots, follow=None):
        cg = self.callgraph()
        seen = set()
        st = [r for r in roots]
        while st:
            n = st.pop()
            if n in seen:
                continue
            seen.add(n)
            if n in cg and (follow is None or follow(n)):
                st.extend(cg[n])
        return seen

    def sccs(self, nodes=None):
        """Tarjan over local functions; returns list of SCCs with >1 node or a self loop."""
        cg = self.callgraph()
        nodes = list(nodes if nodes is not None else cg.keys())
        return tarjan(nodes, lambda n: [c for c in cg.get(n, ()) if c in cg])


def _operands(rv):
    k = rv['k']
    if k in ('use', 'cast', 'repeat'):
        yield rv['o']
    elif k == 'bin':
        yield rv['a']
        yield rv['b']
    elif k == 'un':
        yield rv['a']
    elif k == 'agg':
        for o in rv['ops']:
            yield o


def tarjan(nodes, succ):
    index = {}
    low = {}
    onst = set()
    st = []
    out = []
    counter = [0]
    import sys
    sys.setrecursionlimit(100000)

    def visit(v):
        index[v] = low[v] = counter[0]
        counter[0] += 1
        st.append(v)
        onst.add(v)
        selfloop = False
        for w in succ(v):
            if w == v:
                selfloop = True
            if w not in index:
                visit(w)
                low[v] = min(low[v], low[w])
            elif w in onst:
                low[v] = min(low[v], index[w])
        if low[v] == index[v]:
            comp = []
            while True:
                w = st.pop()
                onst.discard(w)
                comp.append(w)
                if w == v:
                    break
            if len(comp) > 1 or selfloop:
                out.append(comp)

    for n in nodes:
        if n not in index:
            visit(n)
    return out


# ---- CFG helpers
def successors(term):
    k = term['k']
    if k == 'goto':
        return [term['t']]
    if k == 'switch':
        return [t for _, t in term['ts']] + [term['else']]
    if k in ('call', 'drop', 'assert'):
        return [term['t']] if term.get('t') is not None else []
    return []


def postdominators(body):
    """Immediate post-dominator per block (virtual exit = -1), computed on the sub-graph of blocks that
    can reach a `return`: dead ends (unreachable, diverging calls, unwinding) do not pull joins to the exit."""
    n = len(body['blocks'])
    EXIT = -1
    succ = {}
    for i in range(n):
        t = body['blocks'][i]['term']
        if t['k'] == 'return':
            succ[i] = [EXIT]
        else:
            succ[i] = list(successors(t))
    # blocks that can reach EXIT
    pred = {i: [] for i in range(n)}
    pred[EXIT] = []
    for i, ss in succ.items():
        for s in ss:
            pred[s].append(i)
    live = set()
    st = [EXIT]
    while st:
        x = st.pop()
        if x in live:
            continue
        live.add(x)
        st.extend(pred[x])
    allnodes = set(live)
    pdom = {i: set(allnodes) for i in live}
    pdom[EXIT] = {EXIT}
    changed = True
    order = [i for i in range(n - 1, -1, -1) if i in live]
    while changed:
        changed = False
        for i in order:
            ss = [s for s in succ[i] if s in live]
            new = set.intersection(*[pdom[s] for s in ss]) | {i}
            if new != pdom[i]:
                pdom[i] = new
                changed = True
    ipdom = {}
    for i in range(n):
        if i not in live:
            ipdom[i] = None
            continue
        cands = pdom[i] - {i}
        best = None
        for c in cands:
            if all((d in pdom[c]) for d in cands):
                best = c
                break
        ipdom[i] = best
    return ipdom, pdom


def dominators(body):
    n = len(body['blocks'])
    succ = {i: successors(body['blocks'][i]['term']) for i in range(n)}
    pred = {i: [] for i in range(n)}
    for i, ss in succ.items():
        for s in ss:
            pred[s].append(i)
    dom = {i: set(range(n)) for i in range(n)}
    dom[0] = {0}
    changed = True
    while changed:
        changed = False
        for i in range(1, n):
            ps = [dom[p] for p in pred[i]]
            new = (set.intersection(*ps) if ps else set()) | {i}
            if new != dom[i]:
                dom[i] = new
                changed = True
    return dom
