"""LIST: the persistent history list is iterated completely and in order (shared clause of C05 / C06).

The repetition tests count occurrences with `hash_history.iter().filter(..).count()`; the rules in rules_rep summarise that
chain and so rely on `List::iter` visiting every node exactly once.  That reliance is decided here from the code of
`linked_list`, by induction over the list:

  L0  iter(&l)                     = Iter{ next: Some(&first node) iff the head link is present }
  L1  Iter{ Some(&N) }.next()      = Some(&N.elem) unconditionally, and afterwards next = Some(&M) iff N.next is Some(M)
      (N.len and M are opaque: any inspection of them makes the result conditional or undecided)
  L2  Iter{ None }.next()          = None, state unchanged
  A   append(&l, e)                = list whose first node holds e and whose next link is l's head link
  runs over explicit chains of 0..3 nodes confirm the composed behaviour (sequence e0..e(k-1), then None).
"""
from . import bits as B
from .bits import C0, C1
from .values import BV, Struct, Enum, Ref, Term, Ite, Tok, TRUE, FALSE
from .mai import State, Undecided
from .summaries import some, none
from . import inputs

NODE = 'linked_list::Node<zobrist::Zobrist>'
ITER = "linked_list::Iter<'_, T>"
NEXT = "<linked_list::Iter<'a, T> as std::iter::Iterator>::next"
LINK = inputs.LINK_Z


def _gate(name):
    return B.atom_bit(B.atom('tokbool', name))


def _node(prog, elem, nxt, tag):
    return inputs.struct_from(prog, 'linked_list::Node', ty=NODE, elem=elem, next=nxt,
                              len=Term('tok', ('len:' + tag,), 64))


def _under(v, asg):
    """Resolve the Ite layers of `v` under an assignment of the gate variables; None if a condition mentions anything else."""
    while isinstance(v, Ite):
        c = v.c
        if c.kind != 'c' and not all(x in asg for x in c.sup):
            return None
        if getattr(c, 'kind', None) not in ('c', 's'):
            return None
        v = v.a if B._ev(c, asg) else v.b
    return v


def _assignments(gates):
    vars_ = [g.sup[0] for g in gates]
    for m in range(1 << len(vars_)):
        yield {v: (m >> i) & 1 for i, v in enumerate(vars_)}


def _is_none(v):
    return isinstance(v, Enum) and v.var == 0


def _some_ref(v):
    if isinstance(v, Enum) and v.var == 1 and isinstance(v.fields[0], Ref):
        return v.fields[0]
    return None


def _iter_state(prog, I, st, itr):
    v = I.read_at(st, itr.cell, itr.path)
    return v.fields[inputs.field_index(prog, 'linked_list::Iter', 'next')]


def check_list(ctx, prog, I, prop):
    R = prop + '.L'
    ctx.rule(R, 'the history list iterator visits every node exactly once, newest first: iter() starts at the head, next() on a '
                'node yields that node\'s element whatever its successor or length field, then moves to exactly the successor; '
                'append() links the old head behind the new node')
    f_iter = prog.one('List::<T>::iter')
    f_app = prog.one('List::<T>::append')
    if NEXT not in prog.fns or f_iter is None or f_app is None:
        ctx.finding(R, 'linked_list', 'anchor', 'List::iter / Iter::next / List::append not found')
        return
    n_ob = 0

    def bad(fn, inst, msg):
        ctx.finding(R, fn, inst, msg)

    # ---- L0: iter() on a list whose head is present under g0 (node opaque)
    try:
        g0 = _gate('list.head')
        n0 = Tok('node0', NODE)
        st = State({})
        lst = inputs.ref_to(I, st, 'lst', Struct(inputs.LIST_Z, (I.merge(g0, some(Struct('$Arc', (n0,)), LINK), none(LINK)),)))
        it, st = I.call_fn(f_iter, [lst], st)
        nx = it.fields[inputs.field_index(prog, 'linked_list::Iter', 'next')] if isinstance(it, Struct) else None
        for asg in _assignments([g0]):
            v = _under(nx, asg)
            present = asg[g0.sup[0]]
            if present:
                r = _some_ref(v)
                ok = r is not None and I.read_at(st, r.cell, r.path) is n0
            else:
                ok = _is_none(v)
            ctx.ob('L0 iter() starts at the head (head %s)' % ('present' if present else 'absent'), ok)
            n_ob += 1
            if not ok:
                bad(f_iter, 'iter-start:%s' % ('some' if present else 'none'),
                    'iter() on a list whose head is %s yields start state %r' % ('present' if present else 'absent', v))
    except Undecided as e:
        bad(f_iter, 'iter-start:undecided', 'cannot decide iter(): %s' % e)

    # ---- L1: one step on an arbitrary node
    try:
        g1 = _gate('list.succ')
        m = Tok('succ', NODE)
        e = inputs.opaque_hash('elem')
        n = _node(prog, e, I.merge(g1, some(Struct('$Arc', (m,)), LINK), none(LINK)), 'n')
        st = State({})
        nref = inputs.ref_to(I, st, 'node', n)
        itv = inputs.struct_from(prog, 'linked_list::Iter', ty=ITER, next=some(Ref(nref.cell, nref.path, False)))
        itr = inputs.ref_to(I, st, 'it', itv)
        itr = Ref(itr.cell, itr.path, True)
        r, st = I.call_fn(NEXT, [itr], st)
        after = _iter_state(prog, I, st, itr)
        for asg in _assignments([g1]):
            succ = asg[g1.sup[0]]
            v = _under(r, asg)
            rr = _some_ref(v)
            ok = rr is not None and I.read_at(st, rr.cell, rr.path) == e
            ctx.ob('L1 next() on a node yields its element (successor %s)' % ('present' if succ else 'absent'), ok)
            n_ob += 1
            if not ok:
                bad(NEXT, 'step-yield:%s' % ('succ' if succ else 'last'),
                    'next() on a node whose successor is %s returns %r instead of Some(&node.elem)' % ('present' if succ else 'absent', v))
            a = _under(after, asg)
            if succ:
                ar = _some_ref(a)
                ok = ar is not None and I.read_at(st, ar.cell, ar.path) is m
            else:
                ok = _is_none(a)
            ctx.ob('L1 next() moves to exactly the successor (successor %s)' % ('present' if succ else 'absent'), ok)
            n_ob += 1
            if not ok:
                bad(NEXT, 'step-advance:%s' % ('succ' if succ else 'last'),
                    'after next() on a node whose successor is %s the iterator holds %r' % ('present' if succ else 'absent', a))
    except Undecided as ex:
        bad(NEXT, 'step:undecided', 'cannot decide next() on a node with opaque successor and length: %s' % ex)

    # ---- L2: exhausted iterator
    try:
        st = State({})
        itr = inputs.ref_to(I, st, 'it', inputs.struct_from(prog, 'linked_list::Iter', ty=ITER, next=none()))
        itr = Ref(itr.cell, itr.path, True)
        r, st = I.call_fn(NEXT, [itr], st)
        ok = _is_none(r) and _is_none(_iter_state(prog, I, st, itr))
        ctx.ob('L2 next() on an exhausted iterator yields None and stays exhausted', ok)
        n_ob += 1
        if not ok:
            bad(NEXT, 'exhausted', 'next() on an exhausted iterator returns %r' % (r,))
    except Undecided as ex:
        bad(NEXT, 'exhausted:undecided', 'cannot decide next() on an exhausted iterator: %s' % ex)

    # ---- A: append links the old head behind the new node
    try:
        g0 = _gate('list.head')
        n0 = Tok('node0', NODE)
        old_link = I.merge(g0, some(Struct('$Arc', (n0,)), LINK), none(LINK))
        st = State({})
        lst = inputs.ref_to(I, st, 'lst', Struct(inputs.LIST_Z, (old_link,)))
        e = inputs.opaque_hash('new')
        try:
            out, st = I.call_fn(f_app, [lst, e], st)
        except Undecided:
            # len() of an opaque node is not evaluable: fall back to an explicit one-node old list
            raise
        hd = out.fields[0] if isinstance(out, Struct) else None
        for asg in _assignments([g0]):
            v = _under(hd, asg)
            ok = False
            if isinstance(v, Enum) and v.var == 1 and isinstance(v.fields[0], Struct) and v.fields[0].ty == '$Arc':
                nd = v.fields[0].fields[0]
                el = nd.fields[inputs.field_index(prog, 'linked_list::Node', 'elem')]
                nx = _under(nd.fields[inputs.field_index(prog, 'linked_list::Node', 'next')], asg)
                if asg[g0.sup[0]]:
                    ok = el == e and isinstance(nx, Enum) and nx.var == 1 and nx.fields[0].fields[0] is n0
                else:
                    ok = el == e and _is_none(nx)
            ctx.ob('A append() puts the element in a new head node linked to the old head (old head %s)'
                   % ('present' if asg[g0.sup[0]] else 'absent'), ok)
            n_ob += 1
            if not ok:
                bad(f_app, 'append-link:%s' % ('some' if asg[g0.sup[0]] else 'none'), 'append() builds %r' % (v,))
    except Undecided as ex:
        bad(f_app, 'append:undecided', 'cannot decide append(): %s' % ex)

    # ---- composed runs over explicit chains
    for k in range(4):
        try:
            link = none(LINK)
            elems = [inputs.opaque_hash('e%d' % i) for i in range(k)]
            for i in reversed(range(k)):
                link = some(Struct('$Arc', (_node(prog, elems[i], link, 'c%d' % i),)), LINK)
            st = State({})
            lst = inputs.ref_to(I, st, 'lst', Struct(inputs.LIST_Z, (link,)))
            it, st = I.call_fn(f_iter, [lst], st)
            itr = inputs.ref_to(I, st, 'it', it)
            itr = Ref(itr.cell, itr.path, True)
            seq = []
            for j in range(k + 1):
                r, st = I.call_fn(NEXT, [itr], st)
                rr = _some_ref(r)
                seq.append(I.read_at(st, rr.cell, rr.path) if rr is not None else (None if _is_none(r) else r))
            ok = seq == elems + [None]
            ctx.ob('run: a list of %d nodes iterates as its %d elements in order, then None' % (k, k), ok)
            n_ob += 1
            if not ok:
                bad(NEXT, 'run:%d' % k, 'a list of %d nodes iterates as %r' % (k, seq))
        except Undecided as ex:
            bad(NEXT, 'run:%d:undecided' % k, 'cannot decide the iteration of a %d-node list: %s' % (k, ex))
    ctx.analysed['list_obligations'] = n_ob
    ctx.floor('LIST obligations', n_ob, 13)
