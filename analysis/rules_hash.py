"""H: Zobrist structure rules for C08 / C17 / C05 (DESIGN 3.H, 4)."""
from . import bits as B
from .bits import C0, C1
from .values import BV, Struct, Enum, Ref, Seq, Term, Ite, HF, TRUE, FALSE, SIGMA
from .mai import State, Undecided
from . import inputs
from .common import fmt_lits, real_lits, mover_lits, fmt_deps
from .rules_c01 import TYPE_VAR
from .rules_c03 import take, move_action, pass_action, fld, play_of
from . import rules_c02
from spec import geometry as G

ROW_TYPES = ['Elephant', 'Camel', 'Horse', 'Dog', 'Cat', 'Rabbit']


# ------------------------------------------------------------------------------------------------ C17 tables
def check_tables(ctx, prog):
    ctx.rule('C17.1', 'SQUARE_VALUES (768), PUSH_VALUES + POSSIBLE_PULL_VALUES (640) are non-zero and pairwise distinct within '
                      'each group; the four STEP_VALUES are pairwise distinct; PLAYER_TO_MOVE != 0')
    sqv, d1 = prog.const_u64_array('SQUARE_VALUES')
    pu, d2 = prog.const_u64_array('PUSH_VALUES')
    pl, d3 = prog.const_u64_array('POSSIBLE_PULL_VALUES')
    stp, d4 = prog.const_u64_array('STEP_VALUES')
    p = prog.const_int('PLAYER_TO_MOVE')
    ini = prog.const_int('INITIAL')
    for nm, v in (('SQUARE_VALUES', sqv), ('PUSH_VALUES', pu), ('POSSIBLE_PULL_VALUES', pl), ('STEP_VALUES', stp),
                  ('PLAYER_TO_MOVE', p), ('INITIAL', ini)):
        if not ctx.anchor('constant ' + nm, v is not None):
            return None
    dims_ok = d1 == [12, 64] and d2 == [5, 64] and d3 == [5, 64] and d4 == [4]
    ctx.ob('table shapes %s %s %s %s' % (d1, d2, d3, d4), dims_ok)
    if not dims_ok:
        ctx.finding('C17.1', 'const tables', 'shape', 'hash tables have shapes %s %s %s %s, expected [12,64] [5,64] [5,64] [4]'
                    % (d1, d2, d3, d4))
        return None

    def distinct(name, vals, label):
        seen = {}
        ncmp = 0
        for i, x in enumerate(vals):
            if x == 0:
                ctx.ob('%s entry %s non-zero' % (name, label(i)), False)
                ctx.finding('C17.1', 'const ' + name, 'zero:%s' % label(i), '%s entry %s is zero: that feature does not change the hash'
                            % (name, label(i)))
            if x in seen:
                ctx.ob('%s entries %s and %s differ' % (name, label(seen[x]), label(i)), False)
                ctx.finding('C17.1', 'const ' + name, 'dup:%s=%s' % (label(seen[x]), label(i)),
                            '%s entries %s and %s are equal: two states differing only there collide' % (name, label(seen[x]), label(i)))
            else:
                seen[x] = i
            ncmp += i
        ctx.ob('%s: %d entries non-zero and pairwise distinct (%d comparisons)' % (name, len(vals), ncmp),
               len(seen) == len(vals) and 0 not in seen, sample=True)
        ctx.count('table_comparisons', ncmp)

    def lab_sq(i):
        r, c = divmod(i, 64)
        return '%s%s@%s' % ('G' if r < 6 else 'S', ROW_TYPES[r % 6][0], G.name(c))

    distinct('SQUARE_VALUES', sqv, lab_sq)
    distinct('PUSH_VALUES+POSSIBLE_PULL_VALUES', pu + pl,
             lambda i: '%s[%d]@%s' % ('push' if i < 320 else 'pull', (i % 320) // 64, G.name(i % 64)))
    distinct('STEP_VALUES', stp, lambda i: 'step%d' % i)
    ok = p != 0
    ctx.ob('PLAYER_TO_MOVE != 0', ok)
    if not ok:
        ctx.finding('C17.1', 'const PLAYER_TO_MOVE', 'zero', 'PLAYER_TO_MOVE is zero: the side to move does not change the hash')
    return True


def check_index_maps(ctx, prog, I):
    ctx.rule('C17.2', 'row index maps are injective and in range: piece_value (6 types x 2 colours -> 0..11), push_piece_value '
                      '(5 -> 0..4), pull_piece_value (5 -> 0..4); the column index is the square index unchanged')
    fn = prog.one('zobrist::piece_value') or prog.one('piece_value')
    rows = {}
    if ctx.anchor('fn piece_value', fn is not None):
        for t in G.STRENGTH:
            for gold in (True, False):
                for sq in (0, 37, 63):
                    r, _ = I.call_fn(fn, [inputs.square(sq), inputs.piece(prog, t), TRUE if gold else FALSE])
                    ok = isinstance(r, HF) and len(r.terms) == 1
                    sym = list(r.terms)[0][0] if ok else None
                    ok = ok and sym[0] == 'SQ' and 0 <= sym[1] < 12 and sym[2] == sq
                    ctx.ob('piece_value(%s, %s, %s) = SQUARE_VALUES[%s][%s]' % (G.name(sq), t, 'gold' if gold else 'silver',
                                                                                 sym[1] if sym else '?', sym[2] if sym else '?'), ok,
                           sample=(sq == 37 and t == 'Dog'))
                    if not ok:
                        ctx.finding('C17.2', fn, 'index:%s:%s' % (t, gold), 'piece_value(%s,%s,%s) reads %r' % (G.name(sq), t, gold, r))
                    else:
                        rows.setdefault(sym[1], set()).add((t, gold))
        clash = {r_: v for r_, v in rows.items() if len(v) > 1}
        ok = not clash and len(rows) == 12
        ctx.ob('piece_value rows: 12 (type, colour) pairs -> 12 distinct rows', ok, sample=True)
        if not ok:
            ctx.finding('C17.2', fn, 'rows', 'piece_value maps %s to the same table row' % (clash or 'fewer than 12 rows'))
    for fname, table, excluded in (('push_piece_value', 'PUSH', 'Elephant'), ('pull_piece_value', 'PULL', 'Rabbit')):
        fn = prog.one('zobrist::' + fname) or prog.one(fname)
        if not ctx.anchor('fn ' + fname, fn is not None):
            continue
        rws = {}
        for t in G.STRENGTH:
            I.panics.clear()
            r, stx = I.call_fn(fn, [inputs.square(44), inputs.piece(prog, t)])
            if t == excluded:
                ok = stx is None or bool(I.panics)
                ctx.ob('%s(%s) is the declared impossible case' % (fname, t), ok)
                continue
            ok = isinstance(r, HF) and len(r.terms) == 1
            sym = list(r.terms)[0][0] if ok else None
            ok = ok and sym[0] == table and 0 <= sym[1] < 5 and sym[2] == 44
            ctx.ob('%s(e3?, %s) = %s_VALUES[%s][44]' % (fname, t, table, sym[1] if sym else '?'), ok)
            if not ok:
                ctx.finding('C17.2', fn, 'index:%s' % t, '%s(%s) reads %r' % (fname, t, r))
            else:
                rws.setdefault(sym[1], set()).add(t)
        clash = {r_: v for r_, v in rws.items() if len(v) > 1}
        ok = not clash and len(rws) == 5
        ctx.ob('%s rows: 5 types -> 5 distinct rows' % fname, ok, sample=True)
        if not ok:
            ctx.finding('C17.2', fn, 'rows', '%s maps %s to the same table row' % (fname, clash or 'fewer than 5 rows'))


# ------------------------------------------------------------------------------------------------ expected forms
def expected_sigma(prog, I, board, prefix=''):
    """12 bulk terms of a board: row -> BV of (type, colour) bits, built in the domain from first principles."""
    f = rules_c02.board_fields(prog, board)
    out = {}
    for row in range(12):
        gold = row < 6
        t = TYPE_VAR[ROW_TYPES[row % 6]]
        bits_ = []
        for i in range(64):
            col = f['p1'].bits[i] if gold else B.band(B.bnot(f['p1'].bits[i]), f['all'].bits[i])
            bits_.append(B.band(f[t].bits[i], col))
        out[row] = BV(bits_)
    return out


def sqb_terms(h):
    """row -> (BV, gate) of the square terms of a hash form; several unconditional bulk terms of one row are one term
    over the XOR of their square sets (the table term is linear in the set).  Single-square terms SQUARE[row][i] under a gate
    (a loop that visits the set bits one at a time) are the same thing spelled per square: they are folded into the row with
    their gate as bit i."""
    out = {}
    single = {}
    for sym, g in h.terms:
        if sym[0] == 'SQB':
            if sym[1] in out and out[sym[1]][1] is C1 and g is C1:
                old = out[sym[1]][0]
                out[sym[1]] = (BV([B.bxor(x, y) for x, y in zip(old.bits, sym[2].bits)]), C1)
            else:
                out[sym[1]] = (sym[2], g)
        elif _is_single(sym):
            single.setdefault(sym[1], {})[sym[2]] = g
    for row, d in single.items():
        bits_ = [d.get(i, C0) for i in range(64)]
        if row in out:
            bv, g = out[row]
            base = bv.bits if g is C1 else [B.band(g, x) for x in bv.bits]
            bits_ = [B.bxor(x, y) for x, y in zip(base, bits_)]
        out[row] = (BV(bits_), C1)
    return out


def _is_single(sym):
    return sym[0] == 'SQ' and len(sym) == 3 and isinstance(sym[1], int) and isinstance(sym[2], int) and 0 <= sym[2] < 64


def exact_equal(x, y):
    """two bits are the same Boolean function (decided only for exact truth tables)"""
    if x is y:
        return True
    if x.kind not in 'sc' or y.kind not in 'sc':
        return False
    vs = sorted(set(B.rawvars(x)) | set(B.rawvars(y)), key=repr)
    if len(vs) > 16:
        return False
    for m in range(1 << len(vs)):
        asg = {v: (m >> j) & 1 for j, v in enumerate(vs)}
        if B._ev(x, asg) != B._ev(y, asg):
            return False
    return True


def other_terms(h):
    """everything that is not a board-square term (those are compared row by row, see sqb_terms)"""
    return {sym: g for sym, g in h.terms if sym[0] != 'SQB' and not _is_single(sym)}


def same_bv_semantics(a, b):
    """Bitwise identity, or identical dependency set + must-literals per bit (two spellings of one predicate)."""
    if a == b:
        return True
    for x, y in zip(a.bits, b.bits):
        if x is y:
            continue
        if B.equiv_conj(x, y):
            continue
        if B.deps(x) != B.deps(y) or real_lits(x) != real_lits(y):
            return False
    return True


def check_from_piece_board(ctx, prog, I):
    ctx.rule('C08.2a', 'from_piece_board(board, side, k) = INITIAL ^ [silver]PLAYER_TO_MOVE ^ STEP[k] ^ XOR over all 12 x 64 '
                       '(type, colour, square) of SQUARE[row][square] gated by "that piece stands there"')
    fn = prog.one('Zobrist::from_piece_board')
    if not ctx.anchor('fn Zobrist::from_piece_board', fn is not None):
        return
    board = inputs.board(prog)
    exp = expected_sigma(prog, I, board)
    for gold in (True, False):
        for k in range(4):
            st = State({})
            pb = inputs.ref_to(I, st, 'pb', board)
            r, _ = I.call_fn(fn, [pb, TRUE if gold else FALSE, BV.const(k, 64)], st)
            h = r.fields[0] if isinstance(r, Struct) else None
            mode = '%s step %d' % ('gold' if gold else 'silver', k)
            if not isinstance(h, HF):
                ctx.ob('[%s] from_piece_board is an XOR form' % mode, False)
                ctx.finding('C08.1', fn, 'not-xor', 'from_piece_board does not produce a pure XOR of table terms: %r' % (h,))
                continue
            want_other = {('INITIAL',): C1, ('STEP', k): C1}
            if not gold:
                want_other[('P',)] = C1
            got_other = other_terms(h)
            ok = got_other == want_other
            ctx.ob('[%s] scalar terms %s' % (mode, sorted(s[0] + str(list(s[1:])) for s in got_other)), ok, sample=(k == 2 and not gold))
            if not ok:
                ctx.finding('C08.2a', fn, 'scalar-terms:%s' % ('G' if gold else 'S'),
                            'from_piece_board(%s): scalar terms %s, expected %s' % (mode, sorted(map(str, got_other)), sorted(map(str, want_other))))
            got = sqb_terms(h)
            for row in range(12):
                if row not in got:
                    ctx.ob('[%s] row %d present' % (mode, row), False)
                    ctx.finding('C08.3', fn, 'row-missing:%d' % row, 'pieces %s/%s never enter the from-scratch hash'
                                % ('gold' if row < 6 else 'silver', ROW_TYPES[row % 6]))
                    continue
                bv, g = got[row]
                ok = g is C1 and same_bv_semantics(bv, exp[row])
                ctx.ob('[%s] SQUARE row %d gated by "%s %s on square i" for all 64 squares' % (mode, row, 'gold' if row < 6 else 'silver',
                                                                                              ROW_TYPES[row % 6]), ok,
                       sample=(row == 11 and k == 0 and gold))
                if not ok:
                    bad = next((i for i in range(64) if bv.bits[i] is not exp[row].bits[i] and
                                (B.deps(bv.bits[i]) != B.deps(exp[row].bits[i]) or real_lits(bv.bits[i]) != real_lits(exp[row].bits[i]))), None)
                    ctx.finding('C08.3', fn, 'coverage:%d' % row,
                                'row %d (%s %s): term for square %s is gated by %s, expected %s'
                                % (row, 'gold' if row < 6 else 'silver', ROW_TYPES[row % 6], G.name(bad) if bad is not None else '?',
                                   fmt_lits(real_lits(bv.bits[bad])) if bad is not None else g,
                                   fmt_lits(real_lits(exp[row].bits[bad])) if bad is not None else 'C1'))


def expected_diff(prog, I, old_board, new_board):
    a = expected_sigma(prog, I, old_board)
    b = expected_sigma(prog, I, new_board)
    return {row: BV([B.bxor(x, y) for x, y in zip(a[row].bits, b[row].bits)]) for row in range(12)}


def check_move_hash(ctx, prog, I, mvs):
    ctx.rule('C08.2b', 'take_action(Move) hash = old hash ^ [turn ends]PLAYER_TO_MOVE ^ STEP[k] ^ STEP[k\'] ^ XOR over the 12 '
                       '(type, colour) rows of SQUARE terms on exactly the squares where that row differs between the old and the '
                       'new board (k = step before, k\' = step stored in the successor)')
    fn = prog.one('GameState::take_action')
    GS = 'engine::GameState'
    pending = []
    for gold in (True, False):
        for step in range(4):
            for (s, d) in mvs:
                gsv = inputs.play_state(prog, gold, step, trapped='sym')
                r = take(I, prog, gsv, move_action(prog, s, d))
                h = fld(prog, GS, r, 'hash').fields[0]
                mode = '%s step %d %s%s' % ('gold' if gold else 'silver', step, G.name(s), d)
                ctx.count('hash_move_modes')
                if not isinstance(h, HF):
                    ctx.ob('[%s] successor hash is an XOR form' % mode, False)
                    ctx.finding('C08.1', fn, 'not-xor:move', 'the step hash update is not a pure XOR of table terms: %r' % (h,))
                    continue
                ends = step == 3
                k2 = 0 if ends else step + 1
                want_other = {('OPAQUE', 'h'): C1, ('STEP', step): C1, ('STEP', k2): C1}
                if ends:
                    want_other[('P',)] = C1
                got_other = other_terms(h)
                ok = got_other == want_other
                ctx.ob('[%s] scalar terms: old hash, STEP[%d]^STEP[%d]%s' % (mode, step, k2, ', PLAYER_TO_MOVE' if ends else ''), ok,
                       sample=(step == 3 and s == mvs[0][0]))
                if not ok:
                    ctx.finding('C08.2b', fn, 'scalar-terms:s%d' % step,
                                'step at step %d: scalar hash terms %s, expected %s' % (step, sorted(map(str, got_other)), sorted(map(str, want_other))))
                newb = fld(prog, GS, r, 'piece_board').fields[0]
                exp = expected_diff(prog, I, inputs.board(prog), newb)
                got = sqb_terms(h)
                for row in range(12):
                    e = exp[row]
                    if row not in got:
                        ok = all(b is C0 for b in e.bits)
                        if not ok:
                            ctx.ob('[%s] row %d updated' % (mode, row), False)
                            ctx.finding('C08.3', fn, 'diff-row-missing:%d' % row,
                                        'a step can change %s %s pieces but their SQUARE terms are not updated'
                                        % ('gold' if row < 6 else 'silver', ROW_TYPES[row % 6]))
                        continue
                    bv, g = got[row]
                    ok = g is C1 and same_bv_semantics(bv, e)
                    if not ok:
                        # a different way of computing the same toggles (e.g. old and new values over a mask of changed squares):
                        # the equality of the two square sets is decided with exact truth tables for this mode (second pass)
                        bad = next((i for i in range(64) if bv.bits[i] is not e.bits[i]), None)
                        pending.append(((gold, step, s, d), row, mode,
                                        'step %s%s: row %d (%s %s) square %s: hash term toggled under %s, but the board row changes under %s'
                                        % (G.name(s), d, row, 'gold' if row < 6 else 'silver', ROW_TYPES[row % 6],
                                           G.name(bad) if bad is not None else '?',
                                           fmt_deps(B.deps(bv.bits[bad])) if bad is not None else g,
                                           fmt_deps(B.deps(e.bits[bad])) if bad is not None else '')))
                        continue
                    ctx.ob('[%s] SQUARE row %d toggled exactly where the row differs between old and new board' % (mode, row), ok,
                           sample=(row == 5 and step == 0 and s == mvs[0][0] and gold))
                    if not ok:
                        bad = next((i for i in range(64) if bv.bits[i] is not e.bits[i] and
                                    (B.deps(bv.bits[i]) != B.deps(e.bits[i]) or real_lits(bv.bits[i]) != real_lits(e.bits[i]))), None)
                        ctx.finding('C08.3', fn, 'diff-coverage:%d' % row,
                                    'step %s%s: row %d (%s %s) square %s: hash term toggled under %s, but the board row changes under %s'
                                    % (G.name(s), d, row, 'gold' if row < 6 else 'silver', ROW_TYPES[row % 6],
                                       G.name(bad) if bad is not None else '?',
                                       fmt_deps(B.deps(bv.bits[bad])) if bad is not None else g,
                                       fmt_deps(B.deps(e.bits[bad])) if bad is not None else ''))
    _second_pass(ctx, prog, fn, pending)


_POOL_PROG = [None]


def _exact_worker(key):
    gold, step, s, d = key
    try:
        _exact_mode(_POOL_PROG[0], gold, step, s, d, 0)
        return key, _EXACT_CACHE.get((id(_POOL_PROG[0]), gold, step, s, d), {})
    except Exception:
        return key, {}


def _exact_modes_parallel(prog, modes):
    import multiprocessing as mp
    import os
    _POOL_PROG[0] = prog
    n = min(len(modes), max(1, (os.cpu_count() or 2) - 1), 15)
    if n <= 1:
        return dict(_exact_worker(k) for k in modes)
    ctxmp = mp.get_context('fork')
    with ctxmp.Pool(n) as pool:
        return dict(pool.map(_exact_worker, modes, chunksize=1))


def _second_pass(ctx, prog, fn, pending):
    if not pending:
        return
    modes = sorted(set(p[0] for p in pending))
    ctx.analysed['hash_modes_decided_exactly'] = len(modes)
    results = _exact_modes_parallel(prog, modes)
    for key, row, mode, msg in pending:
        ok = bool(results.get(key, {}).get(row))
        ctx.ob('[%s] SQUARE row %d toggled exactly where the row differs between old and new board (exact tables)' % (mode, row), ok)
        if not ok:
            ctx.finding('C08.3', fn, 'diff-coverage:%d' % row, msg)


_EXACT_CACHE = {}


def _exact_mode(prog, gold, step, s, d, row):
    """Re-run one (side, step, move) mode with wide exact tables and compare the toggled square set of `row` with the row-wise
    difference of old and new board as Boolean functions."""
    key = (id(prog), gold, step, s, d)
    res = _EXACT_CACHE.get(key)
    if res is None:
        saveK = B.K
        B.K = 14
        try:
            I2 = inputs.make_interp(prog, fuel=20000000)
            import os
            I2.budget_s = 2 * int(os.environ.get('VF_CALL_BUDGET_S', '90'))
            gsv = inputs.play_state(prog, gold, step, trapped='sym')
            r = take(I2, prog, gsv, move_action(prog, s, d))
            h = fld(prog, 'engine::GameState', r, 'hash').fields[0]
            newb = fld(prog, 'engine::GameState', r, 'piece_board').fields[0]
            exp = expected_diff(prog, I2, inputs.board(prog), newb)
            got = sqb_terms(h) if isinstance(h, HF) else {}
            res = {}
            rows = {}
            for sym, g in (h.terms if isinstance(h, HF) else ()):
                if sym[0] == 'SQB':
                    # a gated term toggles its squares only under the gate; several terms of one row add up (XOR)
                    bits_ = [B.band(g, x) for x in sym[2].bits]
                    rows[sym[1]] = bits_ if sym[1] not in rows else [B.bxor(x, y) for x, y in zip(rows[sym[1]], bits_)]
                elif _is_single(sym):
                    bits_ = [g if i == sym[2] else C0 for i in range(64)]
                    rows[sym[1]] = bits_ if sym[1] not in rows else [B.bxor(x, y) for x, y in zip(rows[sym[1]], bits_)]
            for rw in range(12):
                if rw in rows:
                    res[rw] = all(exact_equal(x, y) for x, y in zip(rows[rw], exp[rw].bits))
                else:
                    res[rw] = all(b is C0 for b in exp[rw].bits)
        except Undecided:
            res = {}
        finally:
            B.K = saveK
        _EXACT_CACHE[key] = res
    return bool(res.get(row))


def check_pass_hash(ctx, prog, I):
    ctx.rule('C08.2c', 'take_action(Pass) hash = old hash ^ PLAYER_TO_MOVE ^ STEP[k] ^ STEP[0]')
    fn = prog.one('GameState::take_action')
    for gold in (True, False):
        for step in (1, 2, 3):
            r = take(I, prog, inputs.play_state(prog, gold, step, trapped='sym'), pass_action(prog))
            h = fld(prog, 'engine::GameState', r, 'hash').fields[0]
            want = HF([(('OPAQUE', 'h'), C1), (('P',), C1), (('STEP', step), C1), (('STEP', 0), C1)])
            ok = h == want
            ctx.ob('[%s step %d] pass hash = h ^ P ^ STEP[%d] ^ STEP[0]' % ('gold' if gold else 'silver', step, step), ok, sample=(step == 2))
            if not ok:
                ctx.finding('C08.2c', fn, 'pass:s%d' % step, 'pass at step %d produces %r, expected %r' % (step, h, want))


def check_transposition(ctx, prog, I):
    ctx.rule('C08.2d', 'transposition_hash = state hash ^ PUSH[row(type)][square] (push pending) / PULL[row(type)][square] '
                       '(possible pull) / nothing (no status, setup)')
    fn = prog.one('GameState::transposition_hash')
    if not ctx.anchor('fn transposition_hash', fn is not None):
        return
    from .rules_c04 import run_fn
    seen = {}
    for kind, tab, pieces in (('None', None, [None]), ('PossiblePull', 'PULL', ['Cat', 'Dog', 'Horse', 'Camel', 'Elephant']),
                              ('MustCompletePush', 'PUSH', ['Rabbit', 'Cat', 'Dog', 'Horse', 'Camel'])):
        for p in pieces:
            for sq in (0, 29, 63):
                gsv = inputs.play_state(prog, True, 1, kind, sq if p else None, p)
                r = run_fn(I, prog, 'GameState::transposition_hash', gsv)
                if kind == 'None':
                    ok = r == HF([(('OPAQUE', 'h'), C1)])
                else:
                    syms = other_terms(r) if isinstance(r, HF) else {}
                    extra = [s for s in syms if s != ('OPAQUE', 'h')]
                    ok = isinstance(r, HF) and len(extra) == 1 and extra[0][0] == tab and extra[0][2] == sq and syms.get(('OPAQUE', 'h')) is C1
                    if ok:
                        seen.setdefault((tab, extra[0][1]), set()).add(p)
                ctx.ob('transposition_hash with %s%s' % (kind, '(%s,%s)' % (G.name(sq), p) if p else ''), ok, sample=(sq == 29 and p == 'Dog'))
                if not ok:
                    ctx.finding('C08.2d', fn, 'status:%s:%s' % (kind, p), 'transposition hash with status %s(%s,%s) is %r'
                                % (kind, G.name(sq), p, r))
    clash = {k: v for k, v in seen.items() if len(v) > 1}
    ctx.ob('status rows distinct per piece type', not clash)
    if clash:
        ctx.finding('C17.2', fn, 'status-rows', 'two piece types share a push/pull row: %s' % clash)
    r = run_fn(I, prog, 'GameState::transposition_hash', inputs.place_state(prog, True))
    ok = r == HF([(('OPAQUE', 'h'), C1)])
    ctx.ob('transposition_hash during setup is the state hash', ok)
    if not ok:
        ctx.finding('C08.2d', fn, 'setup', 'transposition hash during setup is %r' % (r,))


def check_eq_reads_hash_only(ctx, prog, I):
    ctx.rule('C08.4', 'GameState == GameState compares only the hash field')
    fn = None
    for k, f in prog.fns.items():
        if f.get('trait_impl') == 'std::cmp::PartialEq' and f.get('self_ty') == 'engine::GameState' and k.endswith('::eq'):
            fn = k
    if not ctx.anchor('impl PartialEq for GameState', fn is not None):
        return
    a = inputs.play_state(prog, True, 1)
    b = inputs.game_state(prog, False, Enum('engine::Phase', inputs.enum_variant(prog, 'engine::Phase', 'PlacePhase')),
                          pb=inputs.piece_board(prog, 'other.'), hash_name='h2', move_number=BV.const(7, 64))
    st = State({})
    ra = inputs.ref_to(I, st, 'a', a)
    rb = inputs.ref_to(I, st, 'b', b)
    r, _ = I.call_fn(fn, [ra, rb], st)
    want = I.eq_bit(HF([(('OPAQUE', 'h'), C1)]), HF([(('OPAQUE', 'h2'), C1)]))
    ok = isinstance(r, BV) and r.bits[0] is want
    ctx.ob('eq(a, b) is exactly "a.hash == b.hash"', ok, sample=True)
    if not ok:
        ctx.finding('C08.4', fn, 'eq', 'state equality is not just hash equality: %r' % (r,))
    c = inputs.game_state(prog, False, Enum('engine::Phase', inputs.enum_variant(prog, 'engine::Phase', 'PlacePhase')),
                          pb=inputs.piece_board(prog, 'other.'), hash_name='h', move_number=BV.const(7, 64))
    st = State({})
    r, _ = I.call_fn(fn, [inputs.ref_to(I, st, 'a', a), inputs.ref_to(I, st, 'c', c)], st)
    ok = isinstance(r, BV) and r.bits[0] is C1
    ctx.ob('two states with the same hash compare equal whatever else differs', ok)
    if not ok:
        ctx.finding('C08.4', fn, 'eq-same-hash', 'states with equal hash do not compare equal')


def check_h1(ctx, I, label):
    bad = [e for e in I.events if e[0] == 'hash-nonxor']
    ctx.ob('%s: no operator other than XOR touches a hash term' % label, not bad)
    for e in bad:
        ctx.finding('C08.1', e[1] or '?', 'nonxor:%s' % e[3], 'a hash term is combined with %s (only XOR keeps the hash incremental)' % e[3], at=e[2])


def check_parser_start_state(ctx, prog):
    """The parser builds hash = from_piece_board(board, side, 0), history = [hash], PlayPhase::initial(hash, history)."""
    from . import core
    probe = core.Ctx(ctx.prop, ctx.tier, 'other')
    _parser_start_state_by_flow(probe, prog)
    if not probe.findings:
        _parser_start_state_by_flow(ctx, prog)
        return
    # the data flow is not spelled the way the flow rule knows it (e.g. a helper wraps append + initial): the state the parser
    # returns for a printed position is inspected instead
    ctx.rule('C08.4p', 'FromStr for GameState (by value: the parser interpreted on the printer\'s own text, both sides): the returned '
                       'state\'s hash is Zobrist::from_piece_board(its board, its side, 0); the turn-start hash equals it; the history '
                       'is exactly [that hash]; step 0, nothing pending, no capture recorded')
    ctx.notes.append('C08.4p decided by value (the syntactic flow rule does not match this tree: %s)'
                     % sorted(set(f['instance'] for f in probe.findings)))
    from .rules_text import parse_printed_text, ok_leaves
    from .rules_rep import list_head
    from .rules_c03 import recorded_boards
    GS, PP = 'engine::GameState', 'engine::PlayPhase'
    fpb = prog.one('Zobrist::from_piece_board')
    if not ctx.anchor('fn Zobrist::from_piece_board', fpb is not None):
        return
    for gold in (True, False):
        side = 'gold' if gold else 'silver'
        I, r, why = parse_printed_text(prog, gold)
        if r is None:
            ctx.ob('[%s] parser interpreted on the printed text' % side, False)
            ctx.finding('C08.4p', 'FromStr for GameState', 'undecided', why)
            return
        leaves = ok_leaves(r)
        ok = len(leaves) >= 1
        ctx.ob('[%s] the parser accepts the printed text' % side, ok)
        if not ok:
            ctx.finding('C08.4p', 'FromStr for GameState', 'rejected', 'the parser does not accept the printer\'s own output')
            return
        for _g, gs in leaves:
            bad = []
            try:
                # the side read from the header is a predicate on the matched text (C15.2 / C15.hdr decide that it is the printed
                # side); here: whatever side the state records, its hash is the from-scratch hash for that side at step 0
                p1 = fld(prog, GS, gs, 'p1_turn_to_move')
                if not (isinstance(p1, BV) and p1.w == 1):
                    bad.append('side to move is %r' % (p1,))
                hv = fld(prog, GS, gs, 'hash')
                st = State({})
                pbv = fld(prog, GS, gs, 'piece_board').fields[0]
                want, _ = I.call_fn(fpb, [inputs.ref_to(I, st, 'pb', pbv), p1, BV.const(0, 64)], st)
                if not (isinstance(hv, Struct) and isinstance(want, Struct) and hv == want):
                    bad.append('hash is not from_piece_board(parsed board, side, 0)')
                pl = play_of(prog, gs)
                if pl is None:
                    bad.append('not a play-phase state')
                else:
                    if fld(prog, PP, pl, 'initial_hash_of_move') != hv:
                        bad.append('turn-start hash differs from the state hash')
                    hd = list_head(prog, fld(prog, PP, pl, 'hash_history'))
                    if not (hd is not None and hd[0] == hv and isinstance(hd[1], Enum) and hd[1].var == 0):
                        bad.append('history is not [hash]')
                    prev = recorded_boards(I, prog, pl)
                    if not (isinstance(prev, Seq) and len(prev.items) == 0):
                        bad.append('step is not 0')
                    pps = fld(prog, PP, pl, 'push_pull_state')
                    if not (isinstance(pps, Enum) and pps.var == inputs.enum_variant(prog, 'engine::PushPullState', 'None')):
                        bad.append('a push / pull is pending')
                    tr = fld(prog, PP, pl, 'piece_trapped_this_turn')
                    if not (isinstance(tr, BV) and tr.known() and tr.uval() == 0):
                        bad.append('captured-this-turn flag set')
            except (Undecided, KeyError, AttributeError, IndexError) as e:
                bad.append('cannot inspect the parsed state: %s' % e)
            ctx.ob('[%s] parsed state: hash from scratch with step 0, turn-start hash, history [hash], fresh turn record' % side, not bad, sample=True)
            for b_ in bad:
                ctx.finding('C08.4p', 'FromStr for GameState', 'state:' + b_.split(' ')[0] + ':' + side, 'the parsed state: %s' % b_)


def _parser_start_state_by_flow(ctx, prog):
    ctx.rule('C08.4p', 'FromStr for GameState: hash = Zobrist::from_piece_board(board, side, 0); the same value is appended to a '
                       'new history, passed to PlayPhase::initial and to GameState::new')
    fn = None
    for k, f in prog.fns.items():
        if f.get('trait_impl') == 'std::str::FromStr' and f.get('self_ty') == 'engine::GameState':
            fn = k
    if not ctx.anchor('impl FromStr for GameState', fn is not None):
        return
    f = prog.fns[fn]
    # copy propagation over simple `use` copies
    src = {}
    for b in f['blocks']:
        for s in b['st']:
            if 'dst' in s and not s['dst']['p'] and s['rv']['k'] == 'use' and s['rv']['o']['k'] in ('copy', 'move') \
                    and not s['rv']['o']['pl']['p']:
                src[s['dst']['l']] = s['rv']['o']['pl']['l']

    def root(l):
        seen = set()
        while l in src and l not in seen:
            seen.add(l)
            l = src[l]
        return l
    calls = {}
    for bi, t in prog.calls(fn):
        c = prog.callee(t)
        calls.setdefault(c, []).append(t)
    fpb = [c for c in calls if c.endswith('Zobrist::from_piece_board')]
    ok = len(fpb) == 1 and len(calls[fpb[0]]) == 1
    if not ok:
        ctx.ob('parser calls from_piece_board once', False)
        ctx.finding('C08.4p', fn, 'from_piece_board', 'the parser does not compute its hash with exactly one from_piece_board call')
        return
    t = calls[fpb[0]][0]
    step_arg = t['a'][2]
    ok = step_arg['k'] == 'int' and int(step_arg['v']) == 0
    ctx.ob('parser hashes with step 0', ok, sample=True)
    if not ok:
        ctx.finding('C08.4p', fn, 'step0', 'the parser hashes the position with a step other than 0')
    hroot = t['dst']['l']

    def arg_is_hash(o):
        return o['k'] in ('copy', 'move') and not o['pl']['p'] and root(o['pl']['l']) == hroot
    for suffix, idx in (('List::<T>::append', 1), ('PlayPhase::initial', 0), ('GameState::new', 4)):
        cs = [c for c in calls if c.endswith(suffix)]
        ok = len(cs) == 1 and len(calls[cs[0]]) == 1 and arg_is_hash(calls[cs[0]][0]['a'][idx])
        ctx.ob('parser passes that hash to %s' % suffix, ok)
        if not ok:
            ctx.finding('C08.4p', fn, 'flow:' + suffix, 'the value passed to %s (argument %d) is not the hash computed by from_piece_board'
                        % (suffix, idx))
    news = [c for c in calls if c.endswith('List::<T>::new')]
    ok = len(news) == 1
    ctx.ob('parser starts a new history list', ok)
    if not ok:
        ctx.finding('C08.4p', fn, 'history-new', 'the parsed state does not start from an empty history')
