from . import rules_c03, rules_c01, inputs
from spec import geometry as G

MOVES_Q = [(G.sq('d', 4), 'Up'), (G.sq('b', 3), 'Right'), (G.sq('h', 5), 'Down')]


def moves(tier):
    if tier == 'quick':
        return MOVES_Q
    return [(s, d) for s in range(0, 64, 3) for d in inputs.DIRS if G.step(s, d) is not None]


STATUS = [('None', None, None), ('PossiblePull', G.sq('d', 5), 'Horse'), ('MustCompletePush', G.sq('d', 5), 'Dog')]


def self_controls(prog, facts):
    from . import perturb

    def rule(c, p2):
        rules_c03.check_transitions(c, p2, inputs.make_interp(p2), MOVES_Q[:1], STATUS[:1])
    return perturb.run_controls([('turn ends after the third step',
                                  lambda f: perturb.perturb_int(f, 'GameState::move_piece', 3, 2, ty='usize'), rule, 'C03')], facts)

def run(ctx, prog, facts, tier):
    I = inputs.make_interp(prog, fuel=5000000)
    rules_c03.check_step_is_len(ctx, prog, I)
    rules_c03.check_transitions(ctx, prog, I, moves(tier), STATUS)
    ctx.floor('C03 transition modes', ctx.analysed.get('transition_modes', 0), 60)
    # the "last step" cut agrees with the generator that must stop offering push starts (same threshold)
    ctx.rule('C03.cut', 'push starts are withheld exactly at the step index at which move_piece ends the turn')
    for gold in (True, False):
        for step in range(4):
            r = rules_c01.run_valid_actions(I, prog, inputs.play_state(prog, gold, step), False)
            n_bulk = sum(1 for it in r.items if it[0] == 'bulk')
            ok = (n_bulk == 8) if step < 3 else (n_bulk == 4)
            ctx.ob('[%s step %d] %d bulk generators (push starts %s)' % ('gold' if gold else 'silver', step, n_bulk,
                                                                         'present' if step < 3 else 'absent'), ok)
            if not ok:
                ctx.finding('C03.cut', prog.one('GameState::valid_actions_'), 'push-vs-turn-end:s%d' % step,
                            'at step %d the turn %s with this step but push starts are %s' %
                            (step, 'ends' if step == 3 else 'continues', 'offered' if n_bulk == 8 else 'withheld'))
    rules_c03.check_overflow_sites(ctx, I, 'C03', prog)
    ctx.exhaustive = tier != 'quick'
    ctx.assumptions += ['the step counter has no storage of its own: it is the length of the recorded-board list (checked), so '
                        '"always between 0 and 3" follows from the table by induction (argument)',
                        'NOT decided: which actions are offered (C01)']
    return ('Transition table of GameState::take_action extracted by abstract interpretation for side x step x status x '
            '{Move, Pass}: successor side, step counter (list length), move number as n + c, per-turn record fields.',
            ['factgen MIR export', 'std summaries'])
