from . import rules_c02, rules_geom, rules_text, inputs
from .check_c01 import QUICK_SQUARES


def self_controls(prog, facts):
    from . import perturb
    from spec import geometry as G

    def rule(c, p2):
        rules_c02.check_display_traps(c, p2)
        rules_geom.check_constants(c, p2, which=['TRAP_MASK'], rule='C10.F')
    return perturb.run_controls([('trap mask differs from the printed markers',
                                  lambda f: perturb.perturb_const(f, 'TRAP_MASK', G.TRAP_MASK ^ (1 << 45) ^ (1 << 44)), rule, 'C10.F')], facts)

def run(ctx, prog, facts, tier):
    I = inputs.make_interp(prog, fuel=5000000)
    mvs = rules_c02.moves(True, QUICK_SQUARES if tier == 'quick' else None)
    rules_geom.check_constants(ctx, prog, which=['TRAP_MASK'], rule='C10.F')
    rules_geom.check_traps_nonadjacent(ctx, prog)
    rules_c02.check_writers(ctx, prog)
    rules_c02.check_union_and_accessors(ctx, prog, I)
    rules_c02.check_display_traps(ctx, prog)
    rules_c02.check_display_cells(ctx, prog)
    # uniformity of the 8-board update preserves disjointness / union / p1 <= all
    rules_c02.check_move_footprint(ctx, prog, I, mvs)
    rules_c02.check_capture_footprint(ctx, prog, I)
    rules_c02.check_take_action_composition(ctx, prog, I, mvs[::4])
    rules_c02.check_step_semantics(ctx, prog, rules_c02.step_semantics_moves(tier == 'quick'), rule='C10.5')
    from . import rules_c09
    rules_c09.check_place_transitions(ctx, prog, I)       # the board a placement stores (who-may-write relies on it)
    # base case of the invariant for positions that come from text
    rules_text.check_parsed_board_consistent(ctx, prog, 'C10', full=(tier != 'quick'))
    ctx.assumptions += [
        'NOT decided: per-side piece-count bounds over whole games; layout arithmetic of the printed diagram',
        'invariant preservation (types disjoint, all = union, p1 <= all) follows from the uniform update of all 8 boards '
        '(checked) by induction over applied actions (argument, not mechanised); base cases: the empty initial board, and parsed '
        'boards (C10.pb: owner bit only with exactly one type bit of the same square)']
    return ('Who-may-write analysis over all MIR assignment / aggregate sites of PieceBoardState, bit-level interpretation of '
            'PieceBoard::new and the accessors, uniform 8-board update and trap removal footprints.',
            ['factgen MIR export', 'std summaries'])
