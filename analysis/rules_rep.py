"""C05 / C06 / C07: repetition rules and summary queries (DESIGN 4)."""
from . import bits as B
from .bits import C0, C1
from .values import BV, Struct, Enum, Ref, Seq, Term, Ite, HF, Tok, TRUE, FALSE, SIGMA
from .mai import State, Undecided
from . import inputs
from .common import fmt_lits, real_lits
from .rules_c01 import run_valid_actions, classify_items, action_parts
from .rules_c03 import take, move_action, pass_action, fld, play_of
from .rules_c04 import run_fn
from spec import geometry as G

GS = 'engine::GameState'
PP = 'engine::PlayPhase'


def atoms_of(bit):
    return [B.ATOMS[v[1]] for v in B.rawvars(bit) if v[0] == '@']


def split_rep_atoms(bit):
    """The (hash-equality atom, seen-twice atom) a repetition gate is built from, or None."""
    ats = atoms_of(bit)
    eq = [a for a in ats if a.kind == 'hfeq']
    cnt = [a for a in ats if a.kind == 'cmp' and isinstance(a.payload[1], Term) and a.payload[1].kind == 'count']
    if len(eq) == 1 and len(cnt) == 1 and len(ats) == 2:
        return eq[0], cnt[0]
    return None


def gate_is_neither(bit, a1, a2):
    """bit == (not a1) and (not a2)"""
    want = B.band(B.atom_bit(a1, False), B.atom_bit(a2, False))
    return bit is want


def count_parts(cnt_atom):
    op, term, k = cnt_atom.payload
    lst, pred = term.args
    thr = k.uval() if isinstance(k, BV) and k.known() else None
    if op == 'Gt' and thr is not None:
        op, thr = 'Ge', thr + 1          # count > 1 is count >= 2
    # pred is the bit "history element == X": a tokeq2 atom with payload (elem token, Zobrist{HF})
    if isinstance(pred, BV):
        pred = pred.bits[0]
    pa = atoms_of(pred)
    hashv = None
    if len(pa) == 1 and pa[0].kind == 'tokeq2':
        for x in pa[0].payload:
            if isinstance(x, Struct) and x.fields and isinstance(x.fields[0], HF):
                hashv = x.fields[0]
    return op, thr, lst, hashv


def hist_is_token(lst_snapshot, name='hist'):
    return ("Tok(%s)" % name) in repr(lst_snapshot) or ("Tok(%s" % name) in repr(lst_snapshot)


def symbolic_move(prog, d):
    return Enum('action::Action', inputs.enum_variant(prog, 'action::Action', 'Move'),
                (Struct('square::Square', (SIGMA,)), inputs.direction(prog, d)))


def check_c05(ctx, prog, I, quick):
    ctx.rule('C05.1', 'both turn-ending actions are guarded: Pass by (turn-start hash != hash without step) and not seen-twice; a '
                      'fourth step is retained only if the same two tests hold for its resulting position, unless a capture '
                      'happened this turn')
    ctx.rule('C05.2', 'like is compared with like: the board-unchanged test compares side-less hashes (no PLAYER_TO_MOVE term), '
                      'the seen-twice test counts exactly the hash that taking the action would append to the history')
    ctx.rule('C05.3', 'every turn-ending successor stores one and the same value as state hash, turn-start hash and new history '
                      'head; the history tail is the old history, or empty only under the captured condition')
    ctx.rule('C05.4', 'seen-twice counts occurrences in the history with threshold >= 2')
    fn = prog.one('GameState::valid_actions_')
    h0 = HF([(('OPAQUE', 'h0'), C1)])
    for gold in (True, False):
        side = 'gold' if gold else 'silver'
        # ---- Pass
        for step in (1, 2, 3):
            gsv = inputs.play_state(prog, gold, step)
            r = run_valid_actions(I, prog, gsv, True)
            items = classify_items(prog, r)
            ps = [x for x in items if x[2] == ('Pass',)]
            mode = '%s step %d' % (side, step)
            if len(ps) != 1:
                ctx.ob('[%s] Pass present once in the filtered list' % mode, False)
                ctx.finding('C05.1', fn, 'pass-missing:%s' % side, 'mode [%s]: Pass item not found in the action list' % mode)
                continue
            gate = ps[0][1]
            sp = split_rep_atoms(gate)
            ok = sp is not None and gate_is_neither(gate, sp[0], sp[1])
            ctx.ob('[%s] Pass guarded by not(board unchanged) and not(seen twice)' % mode, ok, sample=(step == 2 and gold))
            if not ok:
                ctx.finding('C05.1', fn, 'pass-guard:%s' % side,
                            'mode [%s]: Pass is offered under %r - not the conjunction of the two repetition tests' % (mode, gate))
                continue
            eq, cnt = sp
            succ = take(I, prog, gsv, pass_action(prog))
            newh = fld(prog, GS, succ, 'hash').fields[0]
            # board-unchanged test: h0 vs (successor hash without the side term)
            want_eq = h0.xor(newh).xor(HF([(('P',), C1)]))
            ok = eq.key == want_eq
            ctx.ob('[%s] Pass: unchanged-test compares turn-start hash with the side-less resulting hash' % mode, ok)
            if not ok:
                ctx.finding('C05.2', fn, 'pass-eq:%s' % side,
                            'mode [%s]: the "board unchanged" test for Pass compares %r; expected turn-start hash against the '
                            'resulting hash without the side term' % (mode, eq.key))
            op, thr, lst, hv = count_parts(cnt)
            ok = hv == newh
            ctx.ob('[%s] Pass: seen-twice counts the hash that pass() appends to the history' % mode, ok)
            if not ok:
                ctx.finding('C05.2', fn, 'pass-count-hash:%s' % side,
                            'mode [%s]: the seen-twice test for Pass counts %r but pass() records %r' % (mode, hv, newh))
            ok = op == 'Ge' and thr == 2 and hist_is_token(lst)
            ctx.ob('[%s] Pass: count over the stored history, threshold >= 2' % mode, ok)
            if not ok:
                ctx.finding('C05.4', fn, 'pass-threshold:%s' % side, 'mode [%s]: seen-twice test is "%s %s" over %s' % (mode, op, thr, 'the history' if hist_is_token(lst) else 'something else'))
        # ---- fourth step
        gsv = inputs.play_state(prog, gold, 3)
        r = run_valid_actions(I, prog, gsv, True)
        mode = '%s step 3' % side
        nf = 0
        for it in r.items:
            if it[0] != 'filtered':
                if it[0] == 'bulk':
                    ctx.ob('[%s] fourth-step generator is filtered' % mode, False)
                    ctx.finding('C05.1', fn, 'step4-unfiltered:%s' % side, 'mode [%s]: a fourth-step generator is not filtered for repetition' % mode)
                continue
            keep, inner = it[1], it[2]
            d = action_parts(prog, inner[2])[2]
            nf += 1
            sp = split_rep_atoms(keep)
            ok = sp is not None and gate_is_neither(keep, sp[0], sp[1])
            ctx.ob('[%s %s] fourth step kept iff not(board unchanged) and not(seen twice)' % (mode, d), ok, sample=(d == 'Up' and gold))
            if not ok:
                ctx.finding('C05.1', fn, 'step4-guard:%s' % side, 'mode [%s]: fourth step %s retained under %r' % (mode, d, keep))
                continue
            eq, cnt = sp
            succ = take(I, prog, gsv, symbolic_move(prog, d))
            newh = fld(prog, GS, succ, 'hash').fields[0]
            want_eq = h0.xor(newh).xor(HF([(('P',), C1)]))
            ok = eq.key == want_eq
            ctx.ob('[%s %s] unchanged-test compares turn-start hash with the side-less hash of the resulting position' % (mode, d), ok)
            if not ok:
                ctx.finding('C05.2', fn, 'step4-eq:%s' % side,
                            'mode [%s]: fourth step %s: the "board unchanged" test does not compare the turn-start hash with the '
                            'side-less hash of the position the step produces' % (mode, d))
            op, thr, lst, hv = count_parts(cnt)
            ok = hv == newh
            ctx.ob('[%s %s] seen-twice counts exactly the hash take_action would record' % (mode, d), ok)
            if not ok:
                ctx.finding('C05.2', fn, 'step4-count-hash:%s' % side,
                            'mode [%s]: fourth step %s: the seen-twice test counts a hash different from the one take_action appends '
                            '(e.g. wrong side to move)' % (mode, d))
            ok = op == 'Ge' and thr == 2 and hist_is_token(lst)
            ctx.ob('[%s %s] count over the stored history, threshold >= 2' % (mode, d), ok)
            if not ok:
                ctx.finding('C05.4', fn, 'step4-threshold:%s' % side, 'mode [%s]: seen-twice test is "%s %s"' % (mode, op, thr))
        ctx.ob('[%s] four filtered own-step generators' % mode, nf == 4)
        if nf != 4:
            ctx.finding('C05.1', fn, 'step4-count:%s' % side, 'mode [%s]: %d filtered generators, expected 4' % (mode, nf))
    check_history(ctx, prog, I)


def as_list(v):
    """a List value chosen between two lists (`if reset { List::new() } else { old.clone() }` built as values) is the list whose
    head link is chosen the same way"""
    if isinstance(v, Ite) and isinstance(v.a, (Struct, Ite)) and isinstance(v.b, (Struct, Ite)):
        a_, b_ = as_list(v.a), as_list(v.b)
        if not (isinstance(a_, Struct) and isinstance(b_, Struct) and a_.ty.split('<')[0] == b_.ty.split('<')[0]
                and len(a_.fields) == 1 and len(b_.fields) == 1):
            return v
        fa, fb = a_.fields[0], b_.fields[0]
        return Struct(a_.ty if '<T>' not in a_.ty else b_.ty, (fa if fa is fb else Ite(v.c, fa, fb),))
    return v


def list_head(prog, lst):
    """List<Zobrist> value -> (elem, next) of its head node, or None"""
    lst = as_list(lst)
    head = lst.fields[0]
    if isinstance(head, Enum) and head.var == 1:
        arc = head.fields[0]
        node = arc.fields[0]
        return node.fields[0], node.fields[1]
    return None


class _OldHead(object):
    """The stored history head, either untouched (the token) or re-wrapped by clone():
    Ite(hist is Some ? Some(payload token of hist) : None)."""
    def __eq__(self, v):
        if isinstance(v, Tok):
            return v.name == 'hist'
        if isinstance(v, Ite):
            a, b, c = v.a, v.b, v.c
            if isinstance(a, Enum) and a.var == 0:
                a, b, c = b, a, B.bnot(c)
            ats = atoms_of(c)
            return (isinstance(a, Enum) and a.var == 1 and isinstance(a.fields[0], Tok) and a.fields[0].name == 'hist#1.0'
                    and isinstance(b, Enum) and b.var == 0 and len(ats) == 1 and ats[0].kind == 'variant'
                    and ((ats[0].key == ('hist', 1) and c is B.atom_bit(ats[0])) or
                         (ats[0].key == ('hist', 0) and c is B.atom_bit(ats[0], False))))
        return False

    def __ne__(self, v):
        return not self.__eq__(v)


def check_history(ctx, prog, I):
    fn = prog.one('GameState::take_action')
    old_head = _OldHead()
    s, d = G.sq('d', 4), 'Up'
    for gold in (True, False):
        for (step, act, trapped_in) in ((1, 'Pass', False), (2, 'Pass', True), (3, 'Move', False), (3, 'Pass', False), (3, 'Move', True)):
            gsv = inputs.play_state(prog, gold, step, trapped=trapped_in)
            succ = take(I, prog, gsv, pass_action(prog) if act == 'Pass' else move_action(prog, s, d))
            mode = '%s step %d %s%s' % ('gold' if gold else 'silver', step, act, ' (captured earlier)' if trapped_in else '')
            newh = fld(prog, GS, succ, 'hash')
            pl = play_of(prog, succ)
            ih = fld(prog, PP, pl, 'initial_hash_of_move')
            hist = fld(prog, PP, pl, 'hash_history')
            hd = list_head(prog, hist)
            ok = hd is not None and hd[0] == newh and ih == newh
            ctx.ob('[%s] new state hash = turn-start hash = appended history head' % mode, ok, sample=(act == 'Pass' and step == 1 and gold))
            if not ok:
                ctx.finding('C05.3', fn, 'history-head:%s:%s' % (act, 'G' if gold else 'S'),
                            'mode [%s]: the hash appended to the history (%s) differs from the new state hash / turn-start hash'
                            % (mode, 'none appended' if hd is None else 'different value'))
                continue
            nxt = hd[1]
            # tail: old history head, or empty only under a capture condition
            if old_head == nxt:
                ok, why = True, 'tail = old history'
                if act == 'Pass' and trapped_in:
                    ok, why = True, 'tail = old history (history was already cut at the capture)'
            elif isinstance(nxt, Enum) and nxt.var == 0:
                ok = (act == 'Pass' and trapped_in)
                why = 'tail empty'
            elif isinstance(nxt, Ite):
                # Ite(cond ? None : old)  cond must imply a capture in this step
                a, b, c = nxt.a, nxt.b, nxt.c
                if isinstance(b, Enum) and b.var == 0:
                    a, b, c = b, a, B.bnot(c)
                moved = None
                ok = isinstance(a, Enum) and a.var == 0 and old_head == b
                if ok:
                    from . import rules_c02
                    mb = rules_c02.run_move_piece(I, prog, s, d)
                    tr = rules_c02.run_trapped_bits(I, prog, mb)
                    ok = c is I.nonzero_bit(tr)
                why = 'tail emptied exactly when this step captures' if ok else 'tail emptied under another condition'
            else:
                ok, why = False, 'tail is %r' % (nxt,)
            ctx.ob('[%s] history tail: %s' % (mode, why), ok)
            if not ok:
                ctx.finding('C05.3', fn, 'history-tail:%s:%s' % (act, 'G' if gold else 'S'), 'mode [%s]: %s' % (mode, why))
    # mid-turn: history kept, or emptied exactly when this step captures
    gsv = inputs.play_state(prog, True, 1)
    succ = take(I, prog, gsv, move_action(prog, s, d))
    pl = play_of(prog, succ)
    hist = as_list(fld(prog, PP, pl, 'hash_history')).fields[0]
    ok = old_head == hist or (isinstance(hist, Ite) and ((old_head == hist.a and isinstance(hist.b, Enum) and hist.b.var == 0) or
                                                          (old_head == hist.b and isinstance(hist.a, Enum) and hist.a.var == 0)))
    ctx.ob('mid-turn step keeps the history (or cuts it at a capture)', ok)
    if not ok:
        ctx.finding('C05.3', fn, 'history-midturn', 'a mid-turn step rewrites the history: %r' % (hist,))


# ------------------------------------------------------------------------------------------------ C06
def check_c06(ctx, prog, I, modes):
    ctx.rule('C06.1', 'valid_actions_(true) is valid_actions_(false) item by item, in the same order, except that Pass gains exactly '
                      'the two repetition tests and fourth steps are filtered; nothing is inserted or reordered')
    ctx.rule('C06.2', 'the filter is inactive before the fourth step and after a capture this turn; non-step actions are never filtered')
    ctx.rule('C06.3', 'a fourth step is withheld exactly when (result == turn-start board) or (seen twice): a disjunction of two tests')
    fn = prog.one('GameState::valid_actions_')
    for (gold, step, kind, sq, pc, trapped) in modes:
        gsv = inputs.play_state(prog, gold, step, kind, sq, pc, trapped=trapped)
        mode = '%s step %d %s%s' % ('gold' if gold else 'silver', step, kind, ' captured' if trapped else '')
        try:
            a = run_valid_actions(I, prog, gsv, False)
            b = run_valid_actions(I, prog, gsv, True)
        except Undecided as e:
            ctx.finding('UNDECIDED', fn, 'c06:' + mode, str(e))
            continue
        ctx.count('c06_modes')
        key = '%s/s%d/%s%s' % ('G' if gold else 'S', step, kind, '/captured' if trapped else '')
        ok = len(a.items) == len(b.items)
        ctx.ob('[%s] same number of items with and without repetition checking (%d)' % (mode, len(a.items)), ok)
        if not ok:
            ctx.finding('C06.1', fn, 'length:' + key, 'mode [%s]: %d items without and %d with repetition checking' % (mode, len(a.items), len(b.items)))
            continue
        active = step == 3 and not trapped
        for i, (x, y) in enumerate(zip(a.items, b.items)):
            base = x
            gx = C1
            while base[0] == 'cond':
                gx = B.band(gx, base[1])
                base = base[2]
            is_pass = base[0] == 'elem' and action_parts(prog, base[1]) == ('Pass',)
            is_move = (base[0] == 'elem' and action_parts(prog, base[1])[0] == 'Move') or base[0] == 'bulk'
            if x == y:
                ok = not is_pass and not (active and is_move)
                ctx.ob('[%s] item %d unchanged by repetition checking' % (mode, i), ok)
                if not ok:
                    ctx.finding('C06.2', fn, 'unfiltered:' + key, 'mode [%s]: item %d (%s) ends the turn but is not tested for repetition'
                                % (mode, i, 'Pass' if is_pass else 'fourth step'))
                continue
            # differs: must be the same item under an extra gate
            ybase = y
            keep = C1
            while ybase[0] in ('cond', 'filtered'):
                keep = B.band(keep, ybase[1])
                ybase = ybase[2]
            same_core = ybase == base
            if not same_core:
                ctx.ob('[%s] item %d is the same action in both lists' % (mode, i), False)
                ctx.finding('C06.1', fn, 'reordered:' + key, 'mode [%s]: item %d differs between the two lists beyond an added condition' % (mode, i))
                continue
            if is_pass:
                sp = None
                extra = None
                # keep = gx & extra
                cands = [at for at in atoms_of(keep)]
                eqs = [t for t in cands if t.kind == 'hfeq']
                cnts = [t for t in cands if t.kind == 'cmp']
                ok = len(eqs) == 1 and len(cnts) == 1 and keep is B.band(gx, B.band(B.atom_bit(eqs[0], False), B.atom_bit(cnts[0], False)))
                ctx.ob('[%s] Pass gains exactly the two repetition tests' % mode, ok, sample=(step == 1 and gold))
                if not ok:
                    ctx.finding('C06.1', fn, 'pass-gate:' + key, 'mode [%s]: with repetition checking Pass is offered under %r' % (mode, keep))
            elif is_move:
                if not active:
                    ctx.ob('[%s] step item %d untouched while the filter is inactive' % (mode, i), False)
                    ctx.finding('C06.2', fn, 'filter-active:' + key,
                                'mode [%s]: a step that does not end the turn (or a turn with a capture) is filtered for repetition' % mode)
                    continue
                extra_atoms = [t for t in atoms_of(keep) if t.kind in ('hfeq', 'cmp') and t not in atoms_of(gx)]
                eqs = [t for t in extra_atoms if t.kind == 'hfeq']
                cnts = [t for t in extra_atoms if t.kind == 'cmp']
                ok = len(eqs) == 1 and len(cnts) == 1 and keep is B.band(gx, B.band(B.atom_bit(eqs[0], False), B.atom_bit(cnts[0], False)))
                ctx.ob('[%s] fourth-step item %d withheld iff (unchanged or seen twice)' % (mode, i), ok, sample=(i == 0 and gold))
                if not ok:
                    ctx.finding('C06.3', fn, 'step4-gate:' + key, 'mode [%s]: fourth step item %d retained under %r (expected: neither test fires)'
                                % (mode, i, keep))
            else:
                ctx.ob('[%s] non-step item %d untouched' % (mode, i), False)
                ctx.finding('C06.2', fn, 'nonstep-filtered:' + key, 'mode [%s]: a non-step item is filtered' % mode)


# ------------------------------------------------------------------------------------------------ C07
def pass_gate(prog, seq):
    for x in classify_items(prog, seq):
        if x[2] == ('Pass',):
            return x[1]
    return C0


def check_c07(ctx, prog, I, modes):
    ctx.rule('C07.1', 'can_pass(c) is exactly the condition under which Pass is in valid_actions_(c), for both c, in every mode')
    fn = prog.one('GameState::can_pass')
    if ctx.anchor('fn can_pass', fn is not None):
        for (gold, step, kind, sq, pc, trapped) in modes:
            gsv = inputs.play_state(prog, gold, step, kind, sq, pc, trapped=trapped)
            for c in (True, False):
                mode = '%s step %d %s check_rep=%s' % ('gold' if gold else 'silver', step, kind, c)
                st = State({})
                gs = inputs.ref_to(I, st, 'gs', gsv)
                r, _ = I.call_fn(fn, [gs, TRUE if c else FALSE], st)
                lst = run_valid_actions(I, prog, gsv, c)
                g = pass_gate(prog, lst)
                ok = isinstance(r, BV) and r.bits[0] is g
                ctx.ob('[%s] can_pass == "Pass is listed"' % mode, ok, sample=(step == 2 and c and gold and kind == 'None'))
                if not ok:
                    ctx.finding('C07.1', fn, 'can-pass:%s:s%d:%s:%s' % ('G' if gold else 'S', step, kind, c),
                                'mode [%s]: can_pass answers %r but Pass is listed under %r' % (mode, r.bits[0] if isinstance(r, BV) else r, g))
        for gold in (True, False):
            st = State({})
            gs = inputs.ref_to(I, st, 'gs', inputs.place_state(prog, gold))
            r, _ = I.call_fn(fn, [gs, TRUE], st)
            ok = isinstance(r, BV) and r.bits[0] is C0
            ctx.ob('can_pass during setup is false', ok)
            if not ok:
                ctx.finding('C07.1', fn, 'can-pass:setup', 'can_pass is not false during setup')
    check_has_move(ctx, prog)
    check_setup_actions(ctx, prog, I)


def check_has_move(ctx, prog, quick=True, tables=True):
    """C07.2 with wide truth tables (K = 10) so that Boolean equivalence is decided exactly."""
    ctx.rule('C07.2a', 'has_non_passing_like_action(L) is true exactly when remove_passing_like_actions leaves L non-empty '
                       '(same activation table over step x captured, same per-action test), decided by truth table')
    ctx.rule('C07.2b', 'has_move() is false exactly when can_pass(true) is false and every generator valid_actions_ uses yields no '
                       'non-passing-like action: it is the disjunction of those tests, with the constant true passed to can_pass')
    oldK = B.K
    B.K = 10
    try:
        I = inputs.make_interp(prog, fuel=20000000)
        fa = prog.one('GameState::has_non_passing_like_action')
        fb = prog.one('GameState::remove_passing_like_actions')
        if ctx.anchor('fn has_non_passing_like_action', fa is not None) and ctx.anchor('fn remove_passing_like_actions', fb is not None):
            from .summaries import seq_nonempty_bit
            mv = inputs.enum_variant(prog, 'action::Action', 'Move')
            for gold in (True,):
                for step in range(4):
                    for trapped in (False, True):
                        L = Seq([('bulk', BV.var('L'), Enum('action::Action', mv, (Struct('square::Square', (SIGMA,)), inputs.direction(prog, 'Up')))),
                                 ('cond', B.atom_bit(B.atom('tokbool', 'x')),
                                  ('elem', Enum('action::Action', mv, (inputs.square(27), inputs.direction(prog, 'Right')))))])
                        gsv = inputs.play_state(prog, gold, step, trapped=trapped)
                        st = State({})
                        gs = inputs.ref_to(I, st, 'gs', gsv)
                        # the helper may take the list by value or by reference
                        if prog.fns[fa]['locals'][2].startswith('&'):
                            lcell = ('static', 'in:Larg')
                            st.store[lcell] = L
                            ra, _ = I.call_fn(fa, [gs, Ref(lcell)], st)
                        else:
                            ra, _ = I.call_fn(fa, [gs, L], st)
                        st = State({})
                        gs = inputs.ref_to(I, st, 'gs', gsv)
                        cell = ('static', 'in:L')
                        st.store[cell] = L
                        _r, st2 = I.call_fn(fb, [gs, Ref(cell, (), True)], st)
                        L2 = st2.store[cell]
                        nb = C0
                        for it in L2.items:
                            nb = B.bor(nb, present_bit(I, it))
                        ok = isinstance(ra, BV) and ra.bits[0] is nb
                        mode = 'step %d%s' % (step, ' captured' if trapped else '')
                        ctx.ob('[%s] has_non_passing_like_action(L) == nonempty(filtered L)' % mode, ok, sample=(step == 3 and not trapped))
                        if not ok:
                            ctx.finding('C07.2a', fa, 'equiv:s%d:%s' % (step, trapped),
                                        'mode [%s]: the has-move shortcut and the list filter disagree on when a generated list still has '
                                        'an action (different step / capture table or different per-action test)' % mode)
        # ---- has_move against the offered list, as exact local tables (independent of how has_move is written)
        B.K = oldK
        from . import rules_local
        lt_ok = rules_local.check_hasmove_tables(ctx, prog, quick) if tables else False
        B.K = 10
        # ---- has_move structure with the per-list test stubbed by atoms
        fh = prog.one('GameState::has_move')
        if ctx.anchor('fn has_move', fh is not None):
            gens_seen = []

            def stub(I_, st, args):
                lst = args[1]
                while isinstance(lst, Ref):
                    lst = I_.deref(st, lst)
                gens_seen.append(lst)
                return boolv_atom('hnp%d' % len(gens_seen)), st
            I2 = inputs.make_interp(prog, fuel=20000000)
            I2.overrides[fa] = stub
            for gold in (True, False):
                for step in range(4):
                    for kind, sq, pc in (('None', None, None), ('PossiblePull', 27, 'Horse'), ('MustCompletePush', 27, 'Dog')):
                        if kind != 'None' and step == 0:
                            continue
                        del gens_seen[:]
                        gsv = inputs.play_state(prog, gold, step, kind, sq, pc)
                        st = State({})
                        gs = inputs.ref_to(I2, st, 'gs', gsv)
                        pb = inputs.ref_to(I2, st, 'pb', inputs.board(prog))
                        r, _ = I2.call_fn(fh, [gs, pb], st)
                        # which lists were tested?
                        ref = run_valid_actions(I2, prog, gsv, False)
                        ref_items = [it for it in ref.items if not (strip(it)[0] == 'elem' and action_parts(prog, strip(it)[1]) == ('Pass',))]
                        got_items = [it for lst in gens_seen for it in lst.items]
                        mode = '%s step %d %s' % ('gold' if gold else 'silver', step, kind)
                        st_ = State({})
                        gs_ = inputs.ref_to(I2, st_, 'gs', gsv)
                        cp0, _ = I2.call_fn(prog.one('GameState::can_pass'), [gs_, TRUE], st_)
                        # when a pass is unconditionally available the generators are legitimately not consulted
                        ok = same_generated(prog, got_items, ref_items) or (kind != 'MustCompletePush' and cp0.bits[0] is C1)
                        structural = ok
                        if not ok and step < 3 and lt_ok:
                            # before the fourth step nothing is filtered: "has a move" is "the list is non-empty", which the exact
                            # tables (LT.hasmove) decide however has_move computes it (e.g. directly on bitboards)
                            ok = True
                            ctx.count('has_move_modes_decided_by_tables')
                        ctx.ob('[%s] has_move tests exactly the items valid_actions_ generates (%d)' % (mode, len(ref_items)), ok,
                               sample=(step == 1 and kind == 'PossiblePull' and gold))
                        if not ok:
                            ctx.finding('C07.2b', fh, 'generators:%s:s%d:%s' % ('G' if gold else 'S', step, kind),
                                        'mode [%s]: has_move consults %d generated items, valid_actions_ offers %d: a generator is '
                                        'missing or different' % (mode, len(got_items), len(ref_items)))
                        # result: None iff can_pass(true) or any stub atom
                        st = State({})
                        gs = inputs.ref_to(I2, st, 'gs', gsv)
                        cp, _ = I2.call_fn(prog.one('GameState::can_pass'), [gs, TRUE], st)
                        want_has = cp.bits[0] if kind != 'MustCompletePush' else C0
                        for k in range(len(gens_seen)):
                            want_has = B.bor(want_has, B.atom_bit(B.atom('tokbool', 'hnp%d' % (k + 1))))
                        got_has = option_is_none_bit(r)
                        ok = got_has is want_has or (not structural and step < 3 and lt_ok)
                        ctx.ob('[%s] has_move is None iff can_pass(true) or some generated list has a non-passing-like action' % mode, ok)
                        if not ok:
                            ctx.finding('C07.2b', fh, 'combination:%s:s%d:%s' % ('G' if gold else 'S', step, kind),
                                        'mode [%s]: has_move does not combine can_pass(true) and the generator tests as a plain disjunction '
                                        '(e.g. can_pass called without repetition checking, or a test skipped)' % mode)
    finally:
        B.K = oldK


def same_generated(prog, got, ref):
    """The items has_move tests are the items valid_actions_ lists: identical bulk generators; single conditional steps
    agree on the action, and the listed item's guard is the tested guard possibly strengthened by the no-duplicate test."""
    if len(got) != len(ref):
        return False
    gb = sorted(repr_item(x) for x in got if strip(x)[0] == 'bulk')
    rb = sorted(repr_item(x) for x in ref if strip(x)[0] == 'bulk')
    if gb != rb:
        return False

    def elems(xs):
        out = {}
        for x in xs:
            g = C1
            cur = x
            while cur[0] == 'cond':
                g = B.band(g, cur[1])
                cur = cur[2]
            if cur[0] == 'elem':
                out.setdefault(repr(cur[1]), []).append(g)
        return out
    ge, re_ = elems(got), elems(ref)
    if set(ge) != set(re_):
        return False
    for k in ge:
        if len(ge[k]) != len(re_[k]):
            return False
        for a, b in zip(ge[k], re_[k]):
            if a is b:
                continue
            if not (real_lits(a) <= real_lits(b) and B.deps(a) <= B.deps(b)):
                return False
    return True


def boolv_atom(name):
    from .values import boolv
    return boolv(B.atom_bit(B.atom('tokbool', name)))


def strip(it):
    while it[0] in ('cond', 'filtered'):
        it = it[2]
    return it


def repr_item(it):
    if it[0] == 'bulk':
        return 'bulk:%s:%r' % (hash(it[1]), it[2])
    if it[0] == 'cond':
        return 'cond:%d:%s' % (id(it[1]), repr_item(it[2]))
    return repr(it)


def present_bit(I, it):
    from .summaries import item_present_bit
    if it[0] == 'filtered':
        return B.band(it[1], present_bit(I, it[2]))
    if it[0] == 'cond':
        return B.band(it[1], present_bit(I, it[2]))
    return item_present_bit(I, it)


def option_is_none_bit(v):
    if isinstance(v, Enum):
        return C1 if v.var == 0 else C0
    if isinstance(v, Ite):
        return B.bite(v.c, option_is_none_bit(v.a), option_is_none_bit(v.b))
    raise Undecided('option shape %r' % (v,))


def check_setup_actions(ctx, prog, I):
    ctx.rule('C07.4', 'setup: the placements offered are the six piece types, each guarded by "fewer than its full complement of the '
                      'mover\'s pieces of that type placed" with limits 1,1,2,2,2,8 (sum 16 = home squares); no result during setup')
    fn = prog.one('GameState::valid_placement')
    if not ctx.anchor('fn valid_placement', fn is not None):
        return
    from .rules_c01 import TYPE_VAR
    from .common import mover_lits
    for gold in (True, False):
        r = run_fn(I, prog, 'GameState::valid_placement', inputs.place_state(prog, gold))
        side = 'gold' if gold else 'silver'
        seen = {}
        for it in r.items:
            gate = C1
            cur = it
            while cur[0] == 'cond':
                gate = B.band(gate, cur[1])
                cur = cur[2]
            parts = action_parts(prog, cur[1]) if cur[0] == 'elem' else None
            if not parts or parts[0] != 'Place':
                ctx.finding('C07.4', fn, 'item:' + side, 'unexpected setup item %r' % (it,))
                continue
            p = parts[1]
            ats = atoms_of(gate)
            limit = None
            bv = None
            if len(ats) == 1 and ats[0].kind == 'nz' and gate is B.atom_bit(ats[0], False):
                limit, bv = 1, ats[0].payload
            elif len(ats) == 1 and ats[0].kind == 'cmp' and ats[0].payload[0] == 'Lt' and gate is B.atom_bit(ats[0]):
                t = ats[0].payload[1]
                k = ats[0].payload[2]
                if isinstance(t, Term) and t.kind == 'popcount' and isinstance(k, BV) and k.known():
                    limit, bv = k.uval(), t.args[0]
            want = G.FULL_COMPLEMENT[p]
            okl = limit == want
            okb = bv is not None and bv.w == 64 and all(set(mover_lits(gold, i)) | {((TYPE_VAR[p], i), True)} <= B.must(bv.bits[i]) for i in range(64))
            if bv is not None and not okb:
                # alternatively the count may run over the mover's sixteen home squares: during setup every piece of a side stands
                # on that side's home ranks (C09 placement clauses), so the window holds exactly the mover's pieces
                home = set(G.HOME_SQUARES[gold]) if hasattr(G, 'HOME_SQUARES') else set(range(48, 64) if gold else range(0, 16))
                counted = []
                for b_ in bv.bits:
                    if b_ is C0:
                        continue
                    sq = [v_[1] for (v_, pol) in B.must(b_) if pol and v_[0] == TYPE_VAR[p]]
                    counted.append(sq[0] if len(sq) == 1 and B.rawvars(b_) <= {(TYPE_VAR[p], sq[0]), ('p1', sq[0]), ('all', sq[0])} else None)
                okb = None not in counted and len(counted) == len(set(counted)) and set(counted) == home
            ctx.ob('[%s setup] Place(%s) offered while fewer than %d of the mover\'s %ss are placed' % (side, p, want, p), okl and okb,
                   sample=(p == 'Horse'))
            if not okl:
                ctx.finding('C07.4', fn, 'limit:%s:%s' % (p, side), 'setup (%s): %s can be placed while fewer than %s are on the board; the full complement is %d'
                            % (side, p, limit, want))
            if not okb:
                ctx.finding('C07.4', fn, 'counted:%s:%s' % (p, side), 'setup (%s): the count for %s is not taken over the mover\'s own pieces of that type' % (side, p))
            seen[p] = limit
        ok = set(seen) == set(G.STRENGTH) and sum(v for v in seen.values() if v) == 16
        ctx.ob('[%s setup] six placement types, limits sum to 16' % side, ok)
        if not ok:
            ctx.finding('C07.4', fn, 'types:' + side, 'setup (%s): placement types/limits %s' % (side, seen))
