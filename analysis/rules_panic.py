"""B: panic-site inventory and discharge for C15 / C16 / C19 (DESIGN 3.B)."""
from . import bits as B
from .bits import C0, C1
from .values import BV, Struct, Enum, Ref, Seq, Term, Ite, Tok, TRUE, FALSE
from .mai import State, Undecided
from . import inputs
from spec import geometry as G

PANICKY_CALLEE_MARKS = ('::unwrap', '::expect', '::index', '::index_mut', 'panicking::', 'rt::panic', '::unwrap_failed',
                        '::expect_failed', '::split_at', '::swap_remove', 'Vec::<T, A>::remove', 'Vec::<T, A>::insert',
                        '::copy_from_slice', 'RefCell<T>>::borrow', '::step_by', 'from_digit', '::swap', 'unreachable',
                        'slice_start_index', 'slice_end_index', 'Vec::<T, A>::drain', 'String::remove', '::split_off',
                        '::chunks', '::windows', 'char::from_u32_unchecked', 'to_digit')

# total functions whose names contain a panicky mark (`unwrap_or` contains `unwrap`); closures they call are analysed as code
NEVER_PANIC_SUFFIXES = ('::unwrap_or', '::unwrap_or_else', '::unwrap_or_default', '::expect_none_or')

# Sites whose safety rests on a reachable-state invariant that is not statically decided (DESIGN 4 C19.4).
# key: (function suffix, site kind) -> reason
INVARIANTS = {
    ('linked_list::List::<T>::append', 'Overflow'):
        'history length + 1: a list of usize::MAX nodes cannot exist in memory',
    ('bit_manip::first_set_bit', 'Overflow'):
        '1 << trailing_zeros(x) with x != 0: placement_bit is only evaluated while a home square is free (setup ends after the 32nd placement)',
    ('zobrist::piece_value', 'BoundsCheck'):
        'square index < 64 for the placement square: same setup invariant (x != 0 gives trailing_zeros <= 63)',
}


def inventory(prog, entries):
    """All panic sites in local functions reachable from the entry set: {(fn, at, kind): description}"""
    reach = prog.reachable(entries)
    sites = {}
    for name in sorted(reach):
        f = prog.fns.get(name)
        if f is None:
            continue
        for b in f['blocks']:
            if b.get('cleanup'):
                continue
            t = b['term']
            if t['k'] == 'assert':
                sites[(name, t['at'], t['msg'])] = 'assert %s' % t['msg']
            elif t['k'] == 'call':
                c = prog.callee(t) or ''
                if t['t'] is None:
                    sites[(name, t['at'], c)] = 'diverging call %s' % c
                elif any(m in c for m in PANICKY_CALLEE_MARKS) and c not in prog.fns and not c.endswith(NEVER_PANIC_SUFFIXES):
                    sites[(name, t['at'], c)] = 'call %s' % c
    return sites, reach


def site_kind(key):
    return key[2]


def classify(ctx, prog, I, sites, prop, label, extra_ok=None):
    """Compare the inventory with what the abstract interpreter visited."""
    visited_ok = set(I.asserts_ok)
    bad = dict(I.asserts_bad)
    pan = dict(I.panics)
    n_dis = n_unreached = n_inv = 0
    for key, desc in sorted(sites.items()):
        fn, at, kind = key
        short = '%s/%s' % (fn, kind.split('::')[-1] if '::' in kind else kind)
        if key in bad or key in pan:
            inv = None
            for (suf, k), why in INVARIANTS.items():
                if fn.endswith(suf) and k == kind:
                    inv = why
            if inv is not None and prop == 'C19':
                n_inv += 1
                ctx.ob('[%s] %s at %s rests on the invariant: %s' % (label, desc, at, inv), True, sample=True)
                ctx.count('invariant_table_sites')
                continue
            ctx.ob('[%s] %s in %s discharged' % (label, desc, fn), False, sample=True)
            msg = '%s can fail: %s%s' % (desc, bad.get(key) or 'reachable under %d path conditions' % len(pan.get(key, ())),
                                         (' [first met in: %s]' % getattr(I, 'first_seen_in', {}).get(key)) if getattr(I, 'first_seen_in', {}).get(key) else '')
            for efn, inst in attributed(I, key, prog):
                ctx.finding('PANIC-SITE', efn, inst, msg + ('' if efn == fn else ' [arithmetic located in %s]' % fn), at=at)
        elif key in visited_ok:
            n_dis += 1
            ctx.ob('[%s] %s in %s (%s) discharged' % (label, desc, fn, at.split('/')[-1]), True, sample=(n_dis % 9 == 1))
        elif key in I.exec_sites:
            # the call was executed abstractly but no summary vouched for its panic condition
            ctx.ob('[%s] %s in %s discharged' % (label, desc, fn), False, sample=True)
            ctx.finding('PANIC-SITE', fn, _inst(kind, I, key, prog), '%s is reached and nothing discharges its panic condition' % desc, at=at)
        else:
            n_unreached += 1
            ctx.ob('[%s] %s in %s unreachable in every analysed mode' % (label, desc, fn), True, nontrivial=False)
    ctx.count('panic_sites_' + label, len(sites))
    ctx.count('panic_site_kinds_' + label, len(set((k[0], k[2]) for k in sites)))
    ctx.count('discharged_' + label, n_dis)
    ctx.count('unreached_' + label, n_unreached)
    return n_dis, n_unreached, n_inv


def overflow_type(prog, fn, at):
    """operator and operand type of the overflow assert at `at` in `fn` (e.g. 'Add usize')"""
    f = prog.fns.get(fn)
    if not f:
        return '?'
    out = set()
    for b in f['blocks']:
        t = b['term']
        if t['k'] == 'assert' and t['msg'] == 'Overflow' and t['at'] == at and t.get('ops'):
            o = t['ops'].get('a')
            ty = '?'
            if o and o['k'] in ('copy', 'move') and not o['pl']['p']:
                ty = f['locals'][o['pl']['l']]
            elif o and o['k'] == 'int':
                ty = o['ty']
            out.add('%s:%s' % (t['ops'].get('op', '?'), ty))
    return '/'.join(sorted(out)) or '?'


ENTRY_OF_KIND = {'Pass': 'engine::GameState::pass', 'Move': 'engine::GameState::move_piece'}


def attributed(I, key, prog=None):
    """[(function, instance)] under which a failing site is reported.  An arithmetic overflow in the engine that was met while an
    action was being applied is identified by the *input* that reaches it - which kind of action (a pass / a step), and whose turn
    and which step (turn_end_scope) - not by the helper the arithmetic happens to live in: it is reported under the engine
    function that applies that kind of action.  (The known finding K1 is "Silver passes / makes a fourth step at the maximal move
    number"; moving `move_number + 1` into a helper does not make it a different finding, meeting it in other situations does.)"""
    fn, at, kind = key
    if kind != 'Overflow' or prog is None:
        return [(fn, kind)]
    modes = getattr(I, 'assert_modes', {}).get(key)
    if fn.endswith(tuple(ENTRY_OF_KIND.values())):
        return [(fn, 'Overflow(%s)%s' % (overflow_type(prog, fn, at), turn_end_scope(I, key)))]
    if not modes or not fn.startswith('engine::'):
        return [(fn, kind)]
    out = []
    for k in sorted({m[2] for m in modes}):
        if k in ENTRY_OF_KIND:
            out.append((ENTRY_OF_KIND[k], 'Overflow(%s)%s' % (overflow_type(prog, fn, at), turn_end_scope(I, key, k))))
    return out or [(fn, kind)]


def _inst(kind, I, key, prog=None):
    return attributed(I, key, prog)[0][1]


def report_side_conditions(ctx, I, prop, fn_filter=None):
    for e in I.events:
        if e[0] == 'lossy-cast':
            ctx.ob('no lossy narrowing cast on parser input', False)
            ctx.finding('LOSSY-CAST', e[1] or '?', 'cast', 'a value is narrowed without a dominating range check: %s' % e[3])
    for path, n in sorted(I.unknown_calls.items()):
        ctx.ob('callee %s has a summary' % path, False)
        ctx.finding('UNKNOWN-CALLEE', path, 'no-summary', 'external callee %s is not in the summary / contract table (may panic)' % path)


# ------------------------------------------------------------------------------------------------ drivers
def tagged(I, tag, thunk):
    """Run `thunk` and remember under which engine mode (side, step, action kind) each failing assert was met."""
    if tag is None:
        return thunk()
    saved = dict(I.asserts_bad)
    I.asserts_bad.clear()
    try:
        return thunk()
    finally:
        modes = I.__dict__.setdefault('assert_modes', {})
        for k in I.asserts_bad:
            modes.setdefault(k, set()).add(tag)
        for k, v in saved.items():
            I.asserts_bad.setdefault(k, v)


def turn_end_scope(I, key, only_kind=None):
    """'' when the failing assert is met only while Silver's turn ends (Silver passes or makes a fourth step) - the scope of
    the known finding K1 - otherwise a qualifier naming the other situations."""
    modes = getattr(I, 'assert_modes', {}).get(key)
    if not modes:
        return ''
    other = set()
    for (gold, step, kind) in modes:
        if only_kind is not None and kind != only_kind:
            continue
        ends = kind == 'Pass' or step == 3
        if gold or not ends:
            other.add('%s-%s' % ('gold' if gold else 'silver', 'end' if ends else 'mid'))
    return ('@also:' + '+'.join(sorted(other))) if other else ''


def action_kind(prog, act):
    if isinstance(act, Enum):
        return 'Pass' if act.var == inputs.enum_variant(prog, 'action::Action', 'Pass') else 'Move'
    return 'Move'


def run_entry(ctx, I, fn, args_builder, label, tag=None):
    st = State({})
    try:
        args = args_builder(I, st)
        before = set(I.panics) | set(I.asserts_bad)
        tagged(I, tag, lambda: I.call_fn(fn, args, st))
        labels = I.__dict__.setdefault('first_seen_in', {})
        for k in (set(I.panics) | set(I.asserts_bad)) - before:
            labels.setdefault(k, label)
        return True
    except Undecided as e:
        ctx.ob('[%s] interpretable' % label, False)
        ctx.finding('UNDECIDED', fn, label, 'abstract interpretation gave up: %s' % e)
        return False


def refine_bulk_item(ctx, I, prog, fn, n, desc, gsv, item, gate, before, fresh, tag):
    """A panic site left open by the run on a symbolic offered item (one template standing for the offered actions of up to 64
    squares) is re-examined by finite case split: once per square whose offering condition is satisfiable, on the instance of the
    state in which the input literals that condition forces are constants, with the loop-free branches of the entry function
    followed separately to its exit.  Sites still open in some instance stay reported."""
    for k in fresh:
        I.panics.pop(k, None)
        I.asserts_bad.pop(k, None)
        getattr(I, 'first_seen_in', {}).pop(k, None)
    bv, tmpl = item[1], item[2]
    saved = I.late_join
    I.late_join = set(saved) | {fn}
    runs = 0
    try:
        for sq in range(bv.w):
            g = B.band(gate, bv.bits[sq])
            if g is C0:
                continue
            asg = {v: (1 if p else 0) for (v, p) in B.must(g)
                   if isinstance(v, tuple) and len(v) == 2 and isinstance(v[1], int) and v[0] not in ('@', '#')}
            if g.kind == 's' and len(g.sup) == 1 and g.sup[0][0] not in ('@', '#'):
                asg[g.sup[0]] = 1 if g.tt == (0, 1) else 0
            gs_i = inputs.subst_lits(gsv, asg)
            act_i = inputs.subst_sigma(tmpl, sq)

            def build(I_, st, gs_i=gs_i, act_i=act_i, g=g):
                st.pc = (g,) if g is not C1 else ()
                return [inputs.ref_to(I_, st, 'gs', gs_i), inputs.ref_to(I_, st, 'act', act_i)]
            runs += run_entry(ctx, I, fn, build, '%s(offered item, square %s) / %s' % (n, G.name(sq), desc), tag=tag)
    finally:
        I.late_join = saved
    ctx.count('offered_item_case_splits', runs)
    return runs


def find_impl(prog, trait, self_ty, method):
    for k, f in prog.fns.items():
        if f.get('trait_impl') == trait and f.get('self_ty') == self_ty and k.endswith('::' + method):
            return k
    return None


def engine_modes(prog, tier):
    """(description, GameState value) covering setup and play."""
    out = []
    for gold in (True, False):
        out.append(('setup %s' % ('gold' if gold else 'silver'), inputs.place_state(prog, gold)))
    sqs = [G.sq('d', 4), G.sq('a', 5), G.sq('h', 1)] if tier == 'quick' else [G.sq('d', 4), G.sq('a', 8), G.sq('h', 1), G.sq('c', 3), G.sq('e', 2), G.sq('h', 8), G.sq('a', 1)]
    for gold in (True, False):
        for step in range(4):
            for trapped in (('sym',) if tier == 'quick' else ('sym', False, True)):
                out.append(('play %s step %d%s' % ('gold' if gold else 'silver', step, ' captured' if trapped is True else (' captured?' if trapped == 'sym' else '')),
                            inputs.play_state(prog, gold, step, trapped=trapped)))
            if step == 0:
                continue
            for s in sqs:
                out.append(('play %s step %d PossiblePull(%s)' % ('gold' if gold else 'silver', step, G.name(s)),
                            inputs.play_state(prog, gold, step, 'PossiblePull', s, 'Horse', trapped='sym')))
                out.append(('play %s step %d MustCompletePush(%s)' % ('gold' if gold else 'silver', step, G.name(s)),
                            inputs.play_state(prog, gold, step, 'MustCompletePush', s, 'Dog', trapped='sym')))
    return out


def c19_entries(prog):
    names = ['GameState::valid_actions', 'GameState::valid_actions_no_rep', 'GameState::is_terminal', 'GameState::can_pass',
             'GameState::has_move', 'GameState::transposition_hash', 'GameState::trapped_animal_for_action',
             'GameState::piece_board_for_step', 'GameState::take_action', 'GameState::piece_board', 'GameState::is_p1_turn_to_move',
             'GameState::move_number', 'GameState::is_play_phase', 'GameState::as_play_phase', 'PlayPhase::step',
             'PlayPhase::push_pull_state', 'PlayPhase::previous_piece_boards', 'PlayPhase::piece_trapped_this_turn',
             'PlayPhase::hash_history', 'PieceBoardState::bits_for_piece', 'PieceBoardState::player_piece_mask',
             'PieceBoardState::bits_by_piece_type', 'PieceBoardState::trapped_piece_bits', 'PieceBoardState::piece_type_at_square']
    out = {}
    for n in names:
        k = prog.one(n)
        out[n] = k
    out['Display'] = find_impl(prog, 'std::fmt::Display', 'engine::GameState', 'fmt')
    return out


def check_c19(ctx, prog, tier):
    ctx.rule('PANIC-SITE', 'every panic site (MIR Assert, diverging call, unwrap/expect/index) reachable from the listed public '
                           'operations is discharged by the abstract interpreter in every mode, is unreachable in every mode, or '
                           'is listed in the frozen invariant table with its reason')
    ent = c19_entries(prog)
    for n, k in ent.items():
        ctx.anchor('entry ' + n, k is not None)
    entries = [k for k in ent.values() if k]
    sites, reach = inventory(prog, entries)
    ctx.setcount('functions_reachable', len(reach))
    I = inputs.make_interp(prog, fuel=60000000)
    move_v = inputs.enum_variant(prog, 'action::Action', 'Move')
    pass_a = Enum('action::Action', inputs.enum_variant(prog, 'action::Action', 'Pass'))
    place_v = inputs.enum_variant(prog, 'action::Action', 'Place')
    modes = engine_modes(prog, tier)
    nrun = 0
    for desc, gsv in modes:
        setup = desc.startswith('setup')
        pending = 'MustCompletePush' in desc
        step = int(desc.split('step ')[1][0]) if 'step ' in desc else 0

        def gs_only(I_, st, gsv=gsv):
            return [inputs.ref_to(I_, st, 'gs', gsv)]
        for n in ('GameState::valid_actions', 'GameState::valid_actions_no_rep', 'GameState::is_terminal',
                  'GameState::transposition_hash', 'GameState::piece_board', 'GameState::is_p1_turn_to_move', 'GameState::move_number',
                  'GameState::is_play_phase', 'GameState::as_play_phase'):
            if ent.get(n):
                nrun += run_entry(ctx, I, ent[n], gs_only, '%s / %s' % (n, desc))
        for c in (TRUE, FALSE):
            nrun += run_entry(ctx, I, ent['GameState::can_pass'], lambda I_, st, c=c, gsv=gsv: [inputs.ref_to(I_, st, 'gs', gsv), c],
                              'can_pass / ' + desc)
        nrun += run_entry(ctx, I, ent['GameState::has_move'],
                          lambda I_, st, gsv=gsv: [inputs.ref_to(I_, st, 'gs', gsv), inputs.ref_to(I_, st, 'pb', inputs.board(prog))],
                          'has_move / ' + desc)
        if ent.get('Display') and (desc in ('setup gold', 'play silver step 0', 'play gold step 2') or
                                   (tier != 'quick' and 'Pull' not in desc and 'Push' not in desc and 'captured' not in desc)):
            # printers may fill their cells by looping over the set bits of a board: follow such loops bit by bit
            saved_ns = I.no_summary
            I.no_summary = set(I.no_summary) | {'action::map_bit_board_to_squares'}
            try:
                nrun += run_entry(ctx, I, ent['Display'],
                                  lambda I_, st, gsv=gsv: [inputs.ref_to(I_, st, 'gs', gsv),
                                                           Ref(inputs.ref_to(I_, st, 'f', Tok('fmt', 'std::fmt::Formatter')).cell, (), True)],
                                  'Display / ' + desc)
            finally:
                I.no_summary = saved_ns
        # offered actions
        acts = []
        if setup:
            acts = [Enum('action::Action', place_v, (inputs.piece(prog, p),)) for p in ('Rabbit', 'Elephant')]
        else:
            for (s, d) in ((G.sq('d', 5), 'Down'), (G.sq('b', 3), 'Right'), (G.sq('a', 8), 'Right')):
                acts.append(Enum('action::Action', move_v, (inputs.square(s), inputs.direction(prog, d))))
            if step >= 1 and not pending:
                acts.append(pass_a)
        gold_mode = ' gold' in desc
        for a in acts:
            # fixed actions that need not be offered: demanded of take_action's own panic sites only where they hold for any
            # action; the preview is demanded for offered actions only (below), as the property states
            for n in ('GameState::take_action', 'GameState::trapped_animal_for_action'):
                if n.endswith('trapped_animal_for_action') and not setup and a is not pass_a:
                    continue
                nrun += run_entry(ctx, I, ent[n],
                                  lambda I_, st, a=a, gsv=gsv: [inputs.ref_to(I_, st, 'gs', gsv), inputs.ref_to(I_, st, 'act', a)],
                                  '%s / %s' % (n, desc), tag=None if setup else (gold_mode, step, action_kind(prog, a)))
        # every offered action (the items of the abstract list, under their own guard) is applied and previewed
        if not setup:
            from .rules_c01 import run_valid_actions
            try:
                lst = run_valid_actions(I, prog, gsv, False)
            except Undecided:
                lst = None
            for it in (lst.items if lst is not None else ()):
                gate = C1
                cur = it
                while cur[0] in ('cond', 'filtered'):
                    gate = B.band(gate, cur[1])
                    cur = cur[2]
                act = cur[1] if cur[0] == 'elem' else cur[2]
                if cur[0] == 'bulk':
                    gate = B.band(gate, I.nonzero_bit(cur[1]))
                for n in ('GameState::take_action', 'GameState::trapped_animal_for_action'):
                    def build(I_, st, act=act, gsv=gsv, gate=gate):
                        st.pc = (gate,) if gate is not C1 else ()
                        return [inputs.ref_to(I_, st, 'gs', gsv), inputs.ref_to(I_, st, 'act', act)]
                    before = (dict(I.panics), dict(I.asserts_bad))
                    nrun += run_entry(ctx, I, ent[n], build, '%s(offered item) / %s' % (n, desc),
                                      tag=(gold_mode, step, action_kind(prog, act)))
                    fresh = (set(I.panics) | set(I.asserts_bad)) - set(before[0]) - set(before[1])
                    if fresh and cur[0] == 'bulk':
                        nrun += refine_bulk_item(ctx, I, prog, ent[n], n, desc, gsv, cur, gate, before, fresh,
                                                 (gold_mode, step, action_kind(prog, act)))
        for i in range(0, (step if not setup else 0) + 1):
            nrun += run_entry(ctx, I, ent['GameState::piece_board_for_step'],
                              lambda I_, st, i=i, gsv=gsv: [inputs.ref_to(I_, st, 'gs', gsv), BV.const(i, 64)],
                              'piece_board_for_step(%d) / %s' % (i, desc))
    # PieceBoardState / PlayPhase accessors
    for n, extra in (('PieceBoardState::bits_for_piece', [inputs.piece(prog, 'Cat'), TRUE]), ('PieceBoardState::player_piece_mask', [FALSE]),
                     ('PieceBoardState::bits_by_piece_type', [inputs.piece(prog, 'Dog')]), ('PieceBoardState::trapped_piece_bits', [])):
        if ent.get(n):
            nrun += run_entry(ctx, I, ent[n], lambda I_, st, extra=extra: [inputs.ref_to(I_, st, 'pb', inputs.board(prog))] + extra, n)
    for sq in (0, 63):
        nrun += run_entry(ctx, I, ent['PieceBoardState::piece_type_at_square'],
                          lambda I_, st, sq=sq: [inputs.ref_to(I_, st, 'pb', inputs.board(prog)), inputs.ref_to(I_, st, 'sq', inputs.square(sq))],
                          'piece_type_at_square')
    for n in ('PlayPhase::step', 'PlayPhase::push_pull_state', 'PlayPhase::previous_piece_boards', 'PlayPhase::piece_trapped_this_turn',
              'PlayPhase::hash_history'):
        if ent.get(n):
            pp = inputs.play_phase(prog, 2, inputs.push_pull_state(prog, 'None'), False)
            nrun += run_entry(ctx, I, ent[n], lambda I_, st, pp=pp: [inputs.ref_to(I_, st, 'pp', pp)], n)
    ctx.setcount('entry_runs', nrun)
    ctx.floor('C19 entry-point runs', nrun, 600)
    nd, nu, ni = classify(ctx, prog, I, sites, 'C19', 'engine')
    ctx.floor('C19 panic sites in the reachable engine code', len(sites), 40)
    ctx.floor('C19 panic sites discharged by evaluation', nd, 25)
    report_side_conditions(ctx, I, 'C19')
    # constructor typestate: the two Zobrist panics are unreachable for engine-built states
    ctx.rule('C19.3', 'PossiblePull is never constructed with Rabbit (C12 table); MustCompletePush(_, Elephant) needs a displaced enemy '
                      'elephant, which is never offered as a push (C01.3: elephants are never threatened)')
    return I


def check_parsers(ctx, prog, which, prop):
    ctx.rule('PANIC-SITE', 'every panic site reachable from the text parsers is discharged for an arbitrary (opaque) input string: '
                           'loops over the text are abstracted by havocking the state they modify; ranges come from dominating '
                           'comparisons; std / regex facts come from the contract table')
    I = inputs.make_interp(prog, fuel=10000000)
    I.strict_unknown = False      # unknown callees are findings here (report_side_conditions), not aborts
    entries = []
    for self_ty in which:
        k = find_impl(prog, 'std::str::FromStr', self_ty, 'from_str')
        if ctx.anchor('impl FromStr for ' + self_ty, k is not None):
            entries.append(k)
    sites, reach = inventory(prog, entries)
    ctx.setcount('functions_reachable', len(reach))
    for k in entries:
        run_entry(ctx, I, k, lambda I_, st: [inputs.ref_to(I_, st, 's', Tok('text', 'str'))], 'from_str(%s)' % k)
    nd, nu, ni = classify(ctx, prog, I, sites, prop, 'parser')
    report_side_conditions(ctx, I, prop)
    for (fn, at, text) in I.regex_patterns:
        from .summaries import regex_pattern_ok, mandatory_groups
        ok = text is not None and regex_pattern_ok(text)
        ctx.ob('regex pattern %r is a constant from the supported fragment; mandatory groups %s' % (text, sorted(mandatory_groups(text or ''))), ok, sample=True)
        if not ok:
            ctx.finding('PANIC-SITE', fn, 'Regex::new', 'regex pattern %r is not a constant the contract table can vouch for' % (text,), at=at)
    ctx.analysed['opaque_callees'] = sorted(I.opaque_calls)
    return I, sites
