"""UTIL: contracts of local functions that the interpreter replaces by a summary.

`action::map_bit_board_to_squares` is summarised as "one Square(i) per set bit i, ascending" (a symbolic bulk when the
board is not constant).  Every rule that runs through that summary relies on it, so the contract is decided here from
the function's own MIR, by induction over its loop:

  P  prologue: on entry the loop carries exactly (remaining = the argument, list = empty)
  S  step, for every i in 0..63 and every board whose lowest set bit is i (higher bits symbolic):
       one iteration appends exactly Square(i) to the list and clears exactly bit i of `remaining`
       (if the lowest-first family fails, the same is tried highest-first: no property depends on the order)
  E  exit: with remaining == 0 the loop is left and the list is returned unchanged

The loop is cut at its back edge in a patched copy of the body; nothing is matched by name or position.
"""
from . import bits as B
from .bits import C0, C1
from .values import BV, Struct, Enum, Ref, Seq, Term, Ite, Tok
from .mai import State, Undecided, Frame, EXIT, successors

FN = 'action::map_bit_board_to_squares'
SQ = 'square::Square'


def _defs_in(body, blocks):
    out = set()
    for b in blocks:
        blk = body['blocks'][b]
        for s in blk['st']:
            if 'dst' in s:
                out.add(s['dst']['l'])
        t = blk['term']
        if t['k'] == 'call' and t.get('dst'):
            out.add(t['dst']['l'])
    return out


def _mut_borrowed_in(body, blocks):
    out = set()
    for b in blocks:
        for s in body['blocks'][b]['st']:
            rv = s.get('rv') or {}
            if isinstance(rv, dict) and rv.get('k') == 'ref' and rv.get('mut'):
                out.add(rv['pl']['l'])
    return out


def _by_interpretation(prog, I0):
    from . import inputs
    from .values import SIGMA
    I = inputs.make_interp(prog, fuel=5000000)
    I.no_summary = set(I.no_summary) | {FN}
    x = BV.var('u', 64)
    try:
        r, st2 = I.call_fn(FN, [x], State({}))
        if st2 is None:
            return 'the function does not return'
        if I.asserts_bad or I.panics:
            return 'a panic site inside can fail: %s' % (list(I.asserts_bad) + list(I.panics))[:2]
        if isinstance(r, Seq) and len(r.items) == 1 and r.items[0][0] == 'bulk' and all(p is q for p, q in zip(r.items[0][1].bits, x.bits)) \
                and r.items[0][2] == Struct(SQ, (SIGMA,)):
            ok_sym = True
        elif isinstance(r, Seq) and len(r.items) == 64:
            order = list(range(64))
            def item_ok(it, i):
                return it[0] == 'cond' and it[1] is x.bits[i] and it[2] == ('elem', Struct(SQ, (BV.const(i, 8),)))
            ok_sym = all(item_ok(it, i) for it, i in zip(r.items, order)) or all(item_ok(it, i) for it, i in zip(r.items, reversed(order)))
        else:
            ok_sym = False
        if not ok_sym:
            return 'on a symbolic board the result is %r' % (r,)
        for c in (0, 1, 1 << 63, 0x8000000000000001, 0x00FF00000000FF00, (1 << 64) - 1):
            r, _ = I.call_fn(FN, [BV.const(c, 64)], State({}))
            want = [i for i in range(64) if (c >> i) & 1]
            got = [it[1].fields[0].uval() for it in r.items] if isinstance(r, Seq) and all(it[0] == 'elem' for it in r.items) else None
            if got is None or sorted(got) != want or len(set(got)) != len(got):
                return 'on the constant %#x the result is %r' % (c, r)
        return None
    except Undecided as e:
        return 'cannot follow the body: %s' % e


def check_squares_of_bits(ctx, prog, I, prop):
    R = prop + '.U'
    ctx.rule(R, 'map_bit_board_to_squares(b) lists the square of every set bit of b exactly once (extreme bit first) (the contract the interpreter '
                'uses in place of the function): loop induction P / S(i = 0..63) / E over its MIR')
    if FN not in prog.fns:
        ctx.finding('ANCHOR-LOST', FN, 'missing', 'function not found')
        return
    body = prog.fns[FN]
    inner, loops = I.loopinfo(body)
    if len(loops) != 1:
        # not a single loop of its own (e.g. `vec.extend(SetSquares(board))` with a hand-written iterator type): the function is
        # interpreted without its summary; the contract holds when the result is exactly "one Square(i) per set bit of the argument"
        # (the bit-iterator contract of such a type is itself a 64-case induction over its `next`, see summaries.bit_iterator_contract)
        why = _by_interpretation(prog, I)
        ctx.ob('map_bit_board_to_squares (no loop of its own) evaluates to the squares of the set bits of its argument', why is None, sample=True)
        if why is not None:
            ctx.finding(R, FN, 'shape', 'expected exactly one loop, found %d, and interpreting the body does not give the contract: %s'
                        % (len(loops), why))
        return
    h = next(iter(loops))
    lb = loops[h]
    latches = [u for u in lb if h in successors(body['blocks'][u]['term'])]
    # patched copy: back edges go to a fresh returning block
    N = len(body['blocks'])
    blocks2 = list(body['blocks'])
    for u in latches:
        blk = dict(blocks2[u])
        t = dict(blk['term'])
        if t['k'] != 'goto':
            ctx.finding(R, FN, 'shape', 'loop latch is not a plain goto')
            return
        t['t'] = N
        blk['term'] = t
        blocks2[u] = blk
    blocks2.append({'st': [], 'term': {'k': 'return'}})
    body2 = dict(body)
    body2['blocks'] = blocks2
    n_ob = 0
    try:
        # ---- P: prologue
        bvars = BV([B.lit(('in', 'b%d' % j)) for j in range(64)])
        st = State({})
        fr = Frame(next(I.frame_counter), FN, body, False)
        st.store[(fr.id, 1)] = bvars
        st = I.exec_region(st, fr, 0, h)
        if st is None or getattr(st, 'exited', False):
            ctx.finding(R, FN, 'prologue', 'the loop is not reached from the entry')
            return
        carried = sorted(l for l in (_defs_in(body, lb) | _mut_borrowed_in(body, lb)) if (fr.id, l) in st.store)
        rem = [l for l in carried if isinstance(st.store[(fr.id, l)], BV) and st.store[(fr.id, l)].w == 64]
        lst = [l for l in carried if isinstance(st.store[(fr.id, l)], Seq)]
        other = [l for l in carried if l not in rem and l not in lst]
        ok = len(rem) == 1 and len(lst) == 1 and not other
        ok = ok and all(x is y for x, y in zip(st.store[(fr.id, rem[0])].bits, bvars.bits)) and not st.store[(fr.id, lst[0])].items
        ctx.ob('P: the loop starts with (remaining = argument, list = empty)', ok)
        n_ob += 1
        if not ok:
            ctx.finding(R, FN, 'prologue', 'loop-carried state at loop entry is %r'
                        % ({('_%d' % l): st.store[(fr.id, l)] for l in carried},))
            return
        rl, ll = rem[0], lst[0]
        base = dict(st.store)
        mark = Struct(SQ, (BV.const(200, 8),))
        # ---- S: one iteration for every extreme set bit (lowest-first; if that fails, highest-first)
        def family(low):
            bad = []
            for i in range(64):
                if low:
                    bits = [C0] * i + [C1] + [B.lit(('in', 'h%d' % j)) for j in range(i + 1, 64)]
                else:
                    bits = [B.lit(('in', 'h%d' % j)) for j in range(i)] + [C1] + [C0] * (63 - i)
                bi = BV(bits)
                s = State(dict(base))
                fr2 = Frame(next(I.frame_counter), FN, body2, False)
                for (f_, l), v in base.items():
                    if f_ == fr.id:
                        s.store[(fr2.id, l)] = v
                s.store[(fr2.id, rl)] = bi
                s.store[(fr2.id, ll)] = Seq([('elem', mark)])
                why = None
                try:
                    out = I.exec_region(s, fr2, h, EXIT)
                except Undecided as e:
                    out = None
                    why = 'cannot decide the iteration: %s' % e
                if why:
                    pass
                elif out is None:
                    why = 'the iteration diverges'
                else:
                    r2 = out.store.get((fr2.id, rl))
                    l2 = out.store.get((fr2.id, ll))
                    want_bits = list(bits)
                    want_bits[i] = C0
                    if not (isinstance(r2, BV) and r2.w == 64 and all(x is y for x, y in zip(r2.bits, want_bits))):
                        why = 'remaining board becomes %r (expected: bit %d cleared, nothing else changed)' % (r2, i)
                    elif not (isinstance(l2, Seq) and len(l2.items) == 2 and tuple(l2.items[0]) == ('elem', mark)
                              and l2.items[1][0] == 'elem' and l2.items[1][1] == Struct(SQ, (BV.const(i, 8),))):
                        why = 'list becomes %r (expected: Square(%d) appended)' % (l2, i)
                    elif (fr2.id, 0) in out.store:
                        why = 'the function returns although the board is not exhausted'
                if why:
                    bad.append((i, why))
            return bad
        bad = family(True)
        order = 'lowest bit first'
        if bad:
            bad_hi = family(False)
            if not bad_hi:
                bad = []
                order = 'highest bit first'
        for i in range(64):
            ctx.ob('S(%d): one iteration removes the %s set bit %d and appends Square(%d)' % (i, order.split()[0], i, i),
                   not any(b[0] == i for b in bad), sample=(i in (0, 63)))
            n_ob += 1
        ctx.analysed['squares_of_bits_order'] = order
        for i, why in bad[:6]:
            ctx.finding(R, FN, 'step:%d' % i, 'board with lowest set bit %d: %s' % (i, why))
        if len(bad) > 6:
            ctx.finding(R, FN, 'step:more', '%d further lowest-bit positions fail: %s' % (len(bad) - 6, [b[0] for b in bad[6:]]))
        # ---- E: exit
        s = State(dict(base))
        fr3 = Frame(next(I.frame_counter), FN, body2, False)
        for (f_, l), v in base.items():
            if f_ == fr.id:
                s.store[(fr3.id, l)] = v
        s.store[(fr3.id, rl)] = BV.const(0, 64)
        s.store[(fr3.id, ll)] = Seq([('elem', mark)])
        out = I.exec_region(s, fr3, h, EXIT)
        ret = out.store.get((fr3.id, 0)) if out is not None else None
        ok = isinstance(ret, Seq) and [tuple(x) for x in ret.items] == [('elem', mark)]
        ctx.ob('E: with an exhausted board the list is returned unchanged', ok)
        n_ob += 1
        if not ok:
            ctx.finding(R, FN, 'exit', 'with remaining == 0 the function returns %r' % (ret,))
    except Undecided as e:
        ctx.ob('contract of map_bit_board_to_squares decidable', False)
        ctx.finding(R, FN, 'undecided', 'cannot decide the loop of map_bit_board_to_squares: %s' % e)
    ctx.analysed['util_obligations'] = n_ob


CONTRACTS = {FN: check_squares_of_bits}


def discharge_local_summaries(ctx, prog, prop):
    """Verify the contract of every local function whose summary was used by this check."""
    from . import summaries, inputs
    used = sorted(summaries.LOCAL_USED)
    for name in used:
        fn = CONTRACTS.get(name)
        if fn is None:
            ctx.finding('UNDECIDED', name, 'local-summary', 'local function %s is summarised but has no contract rule' % name)
            continue
        I = inputs.make_interp(prog)
        I.no_summary = set(I.no_summary) | {name}
        fn(ctx, prog, I, prop)
    ctx.analysed['local_summaries_used'] = used
