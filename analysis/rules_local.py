"""LT: exact local decision tables (C01 freezing / threat / push start, C02 capture).

Piece types, colours and geometry are enumerated as modes; the *presence* of each neighbouring piece is a Boolean
variable (at most four per table). Every intermediate bit then stays inside the exact Small domain (truth table over
<= 4 variables), so the Boolean operators that combine the (separately checked) ingredients are decided exactly for
these local configurations: `a ^ b` instead of `a | b`, a flipped polarity or a dropped conjunct show up as a
different truth table."""
from . import bits as B
from .bits import C0, C1
from .values import BV, Struct, Enum, Ref, Seq, TRUE, FALSE
from .mai import State, Undecided
from . import inputs
from .rules_c01 import TYPE_VAR, stronger, with_board
from spec import geometry as G


def local_board(prog, contents):
    """contents: {square: (gold?, type name, presence Bit)} -> PieceBoardState value"""
    order = inputs.pbs_field_order(prog)
    fields = {}
    for n in order:
        fields[inputs.SHORT[n]] = [C0] * 64
    for sq, (gold, tname, pres) in contents.items():
        fields['all'][sq] = pres
        fields['p1'][sq] = pres if gold else C0
        fields[TYPE_VAR[tname]][sq] = pres
    return Struct('engine::PieceBoardState', [BV(fields[inputs.SHORT[n]]) for n in order])


def tt(bit, vars_):
    """truth table of a Small/const bit over the ordered variable list (tuple of 0/1), or None"""
    if bit.kind == 'c':
        return tuple([bit.tt] * (1 << len(vars_)))
    if bit.kind != 's' or not set(bit.sup) <= set(vars_):
        return None
    out = []
    for m in range(1 << len(vars_)):
        asg = {v: (m >> j) & 1 for j, v in enumerate(vars_)}
        i = 0
        for j, v in enumerate(bit.sup):
            i |= asg[v] << j
        out.append(bit.tt[i])
    return tuple(out)


def table_of(f, nvars):
    return tuple(1 if f(*[(m >> j) & 1 for j in range(nvars)]) else 0 for m in range(1 << nvars))


def fmt_tt(t):
    return ''.join(map(str, t)) if t is not None else 'not a function of the presence variables alone'


def check_freeze_tables(ctx, prog, I, quick=True):
    ctx.rule('LT.freeze', 'exact table: a piece of type v is unfrozen iff no adjacent enemy is stronger or a friend is adjacent - '
                          'for every v, every pair of neighbour contents (enemy type w / friend), both colours')
    fn = prog.one('GameState::curr_player_non_frozen_pieces')
    if not ctx.anchor('fn curr_player_non_frozen_pieces', fn is not None):
        return
    a = B.lit(('pres', 1))
    b = B.lit(('pres', 2))
    vars_ = [('pres', 1), ('pres', 2)]
    centres = [G.sq('d', 4)] if quick else [G.sq('d', 4), G.sq('a', 1), G.sq('h', 8), G.sq('e', 6)]
    n = 0
    for i in centres:
        nbs = G.neighbours(i)
        pairs = [(nbs[0], nbs[1])] + ([(nbs[-1], nbs[0])] if len(nbs) > 2 else [])
        for (n1, n2) in pairs:
            for gold in (True, False):
                for v in G.STRENGTH:
                    for w1 in G.STRENGTH:
                        # neighbour 1: enemy of type w1 ; neighbour 2: enemy of type w2 or a friend
                        for second in list(G.STRENGTH) + ['friend']:
                            contents = {i: (gold, v, C1), n1: (not gold, w1, a)}
                            if second == 'friend':
                                contents[n2] = (gold, 'Rabbit', b)
                            else:
                                contents[n2] = (not gold, second, b)
                            board = local_board(prog, contents)
                            st = State({})
                            gs = inputs.ref_to(I, st, 'gs', with_board(prog, inputs.play_state(prog, gold, 0), board))
                            pb = inputs.ref_to(I, st, 'pb', board)
                            r, _ = I.call_fn(fn, [gs, pb], st)
                            got = tt(r.bits[i], vars_)
                            s1 = stronger(w1, v)
                            if second == 'friend':
                                want = table_of(lambda x, y: (not (x and s1)) or y, 2)
                            else:
                                s2 = stronger(second, v)
                                want = table_of(lambda x, y: not ((x and s1) or (y and s2)), 2)
                            ok = got == want
                            n += 1
                            ctx.ob('%s %s on %s, %s on %s?, %s on %s?: unfrozen table %s' % (
                                'gold' if gold else 'silver', v, G.name(i), w1, G.name(n1), second, G.name(n2), fmt_tt(want)), ok,
                                sample=(v == 'Dog' and w1 == 'Horse' and second in ('friend', 'Camel') and gold and i == centres[0] and n1 == nbs[0]))
                            if not ok:
                                ctx.finding('LT.freeze', fn, '%s:%s:%s' % (v, w1, second),
                                            '%s %s on %s with enemy %s possibly on %s and %s possibly on %s: unfrozen exactly for presence '
                                            'combinations %s in the code, %s by the rules (columns: none, first, second, both)'
                                            % ('gold' if gold else 'silver', v, G.name(i), w1, G.name(n1),
                                               'a friend' if second == 'friend' else 'enemy ' + second, G.name(n2), fmt_tt(got), fmt_tt(want)))
    ctx.count('local_tables', n)


def check_threat_tables(ctx, prog, I, quick=True):
    ctx.rule('LT.threat', 'exact table: prey of type v is threatened iff at least one of the adjacent predators is stronger (any two '
                          'predator types on any two neighbours)')
    fn = prog.one('GameState::threatened_pieces')
    if not ctx.anchor('fn threatened_pieces', fn is not None):
        return
    a = B.lit(('pres', 1))
    b = B.lit(('pres', 2))
    vars_ = [('pres', 1), ('pres', 2)]
    i = G.sq('e', 5)
    nbs = G.neighbours(i)
    n = 0
    for (n1, n2) in ([(nbs[0], nbs[1])] if quick else [(nbs[0], nbs[1]), (nbs[2], nbs[3]), (nbs[1], nbs[2])]):
        for v in G.STRENGTH:
            for w1 in G.STRENGTH:
                for w2 in G.STRENGTH:
                    contents = {i: (False, v, C1), n1: (True, w1, a), n2: (True, w2, b)}
                    board = local_board(prog, contents)
                    pred = BV([a if k == n1 else (b if k == n2 else C0) for k in range(64)])
                    prey = BV([C1 if k == i else C0 for k in range(64)])
                    st = State({})
                    gs = inputs.ref_to(I, st, 'gs', inputs.play_state(prog, True, 0))
                    pb = inputs.ref_to(I, st, 'pb', board)
                    r, _ = I.call_fn(fn, [gs, pred, prey, pb], st)
                    got = tt(r.bits[i], vars_)
                    s1, s2 = stronger(w1, v), stronger(w2, v)
                    want = table_of(lambda x, y: (x and s1) or (y and s2), 2)
                    ok = got == want
                    n += 1
                    ctx.ob('%s next to %s? and %s?: threatened table %s' % (v, w1, w2, fmt_tt(want)), ok,
                           sample=(v == 'Horse' and w1 == 'Elephant' and w2 == 'Camel'))
                    if not ok:
                        ctx.finding('LT.threat', fn, '%s:%s:%s' % (v, w1, w2),
                                    'a %s with enemy %s possibly on %s and enemy %s possibly on %s is threatened for presence combinations %s '
                                    'in the code, %s by the rules (columns: none, first, second, both)'
                                    % (v, w1, G.name(n1), w2, G.name(n2), fmt_tt(got), fmt_tt(want)))
    ctx.count('local_tables', n)


def check_capture_tables(ctx, prog, I):
    ctx.rule('LT.capture', 'exact table: a piece on a trap is removed iff none of its four neighbours holds a piece of its own colour '
                           '(neighbour colours enumerated, presences as variables), all four traps, both colours')
    fn = prog.one('PieceBoardState::trapped_piece_bits')
    if not ctx.anchor('fn trapped_piece_bits', fn is not None):
        return
    n = 0
    for t in G.TRAPS:
        nbs = G.neighbours(t)
        vars_ = [('pres', k) for k in range(4)]
        pres = [B.lit(v) for v in vars_]
        for gold in (True, False):
            for colours in range(16):
                contents = {t: (gold, 'Dog', C1)}
                friend = []
                for k, nb in enumerate(nbs):
                    ngold = bool((colours >> k) & 1)
                    contents[nb] = (ngold, 'Cat', pres[k])
                    friend.append(ngold == gold)
                board = local_board(prog, contents)
                st = State({})
                pb = inputs.ref_to(I, st, 'pb', board)
                r, _ = I.call_fn(fn, [pb], st)
                got = tt(r.bits[t], vars_)
                want = table_of(lambda *xs: not any(x and f for x, f in zip(xs, friend)), 4)
                ok = got == want
                n += 1
                ctx.ob('%s piece on %s, neighbour colours %s: removed iff no friendly neighbour present' % (
                    'gold' if gold else 'silver', G.name(t), format(colours, '04b')), ok, sample=(colours == 5 and gold and t == G.TRAPS[0]))
                if not ok:
                    ctx.finding('LT.capture', fn, '%s:%s:%s' % (G.name(t), 'gold' if gold else 'silver', format(colours, '04b')),
                                '%s piece on trap %s with neighbours (%s) of colours %s: removed for presence combinations %s in the code, '
                                '%s by the rules' % ('gold' if gold else 'silver', G.name(t), ', '.join(G.name(x) for x in nbs),
                                                      ['gold' if (colours >> k) & 1 else 'silver' for k in range(4)], fmt_tt(got), fmt_tt(want)))
                # nothing else is reported on this board
                others = [k for k in range(64) if k != t and r.bits[k] is not C0]
                if others:
                    ctx.finding('LT.capture', fn, 'extra:%s' % G.name(t), 'pieces on %s are reported as trapped' % [G.name(k) for k in others])
    ctx.count('local_tables', n)


def check_push_tables(ctx, prog, I):
    ctx.rule('LT.push', 'exact table: an enemy piece of type v next to an empty square can be pushed iff an unfrozen friendly piece of a '
                        'strictly stronger type is adjacent (pusher presence as variable; pusher frozen by a second enemy as variable)')
    fn = prog.one('GameState::valid_actions_')
    i = G.sq('d', 4)
    n1 = G.step(i, 'Left')      # pusher c4
    n2 = G.step(n1, 'Left')     # b4: possible stronger enemy freezing the pusher
    a = B.lit(('pres', 1))
    b = B.lit(('pres', 2))
    vars_ = [('pres', 1), ('pres', 2)]
    from .rules_c01 import run_valid_actions, classify_items
    n = 0
    for gold in (True, False):
        for v in G.STRENGTH:
            for w in G.STRENGTH:
                for z in ('Elephant', 'Rabbit'):
                    contents = {i: (not gold, v, C1), n1: (gold, w, a), n2: (not gold, z, b)}
                    board = local_board(prog, contents)
                    gsv = with_board(prog, inputs.play_state(prog, gold, 0), board)
                    r = run_valid_actions(I, prog, gsv, False)
                    got_bit = C0
                    for x in classify_items(prog, r):
                        if x[0] == 'bulk' and x[2][0] == 'Move' and x[2][2] == 'Up':
                            bit = x[3].bits[i]
                            got_bit = B.bor(got_bit, B.band(x[1], bit))
                    got = tt(got_bit, vars_)
                    sw = stronger(w, v)
                    frozen_by_z = stronger(z, w)
                    # pusher c4 is adjacent to the victim d4 (enemy): frozen iff (victim stronger than pusher) or (z present and stronger);
                    # it has no friend next to it on this board
                    vs = stronger(v, w)
                    want = table_of(lambda x, y: x and sw and not vs and not (y and frozen_by_z), 2)
                    ok = got == want
                    n += 1
                    ctx.ob('%s: push %s (d4) upwards by %s on c4?, enemy %s on b4?: table %s' % ('gold' if gold else 'silver', v, w, z, fmt_tt(want)), ok,
                           sample=(v == 'Cat' and w == 'Dog' and gold))
                    if not ok:
                        ctx.finding('LT.push', fn, '%s:%s:%s:%s' % ('G' if gold else 'S', v, w, z),
                                    '%s to move, enemy %s on d4, own %s possibly on c4, enemy %s possibly on b4: push d4-up offered for presence '
                                    'combinations %s in the code, %s by the rules' % ('gold' if gold else 'silver', v, w, z, fmt_tt(got), fmt_tt(want)))
    ctx.count('local_tables', n)


def check_complete_tables(ctx, prog, I):
    ctx.rule('LT.complete', 'exact table: while a push of a piece of type v is pending, the step of the friendly piece of type w into the '
                            'vacated square is offered iff it is present, w > v, and it is not frozen (a stronger enemy next to it and no '
                            'friend next to it)')
    fn = prog.one('GameState::valid_actions_')
    from .rules_c01 import run_valid_actions, classify_items
    sq = G.sq('d', 4)                 # vacated square
    n1 = G.step(sq, 'Left')           # c4: candidate pusher, completes with c4 -> Right
    n2 = G.step(n1, 'Up')             # c5: enemy next to the pusher
    n3 = G.step(n1, 'Left')           # b4: friend next to the pusher
    a, b, c = (B.lit(('pres', k)) for k in (1, 2, 3))
    vars_ = [('pres', 1), ('pres', 2), ('pres', 3)]
    n = 0
    for gold in (True, False):
        for v in ('Rabbit', 'Cat', 'Dog', 'Horse', 'Camel'):
            for w in G.STRENGTH:
                for z in ('Elephant', 'Rabbit', 'Horse'):
                    contents = {n1: (gold, w, a), n2: (not gold, z, b), n3: (gold, 'Rabbit', c)}
                    board = local_board(prog, contents)
                    gsv = with_board(prog, inputs.play_state(prog, gold, 1, 'MustCompletePush', sq, v), board)
                    r = run_valid_actions(I, prog, gsv, False)
                    got_bit = C0
                    extra = False
                    for x in classify_items(prog, r):
                        if x[0] == 'elem' and x[2][0] == 'Move' and x[2][2] == 'Right' and isinstance(x[2][1], BV) and x[2][1].known() \
                                and x[2][1].uval() == n1:
                            got_bit = B.bor(got_bit, x[1])
                        elif x[1] is not C0 and not (x[0] == 'elem' and x[2][0] == 'Move'):
                            extra = True
                    got = tt(got_bit, vars_)
                    sw, fz = stronger(w, v), stronger(z, w)
                    want = table_of(lambda x, y, f: x and sw and ((not (y and fz)) or f), 3)
                    ok = got == want and not extra
                    n += 1
                    ctx.ob('%s: pending push of %s; %s on c4?, enemy %s on c5?, friend on b4?: completing step table %s' % (
                        'gold' if gold else 'silver', v, w, z, fmt_tt(want)), ok, sample=(v == 'Cat' and w == 'Dog' and z == 'Horse' and gold))
                    if not ok:
                        ctx.finding('LT.complete', fn, '%s:%s:%s:%s' % ('G' if gold else 'S', v, w, z),
                                    '%s to move, push of a %s out of d4 pending; own %s possibly on c4, enemy %s possibly on c5, friend possibly on b4: '
                                    'completing step c4-right offered for presence combinations %s in the code, %s by the rules%s'
                                    % ('gold' if gold else 'silver', v, w, z, fmt_tt(got), fmt_tt(want), '; other items are offered too' if extra else ''))
    ctx.count('local_tables', n)


def check_preview_tables(ctx, prog, I):
    ctx.rule('LT.preview', 'exact table: when a piece on trap t1 loses its last supporter, the preview names t1 and the owner of that piece, '
                           'whatever stands (supported) on another trap t2 - also a piece of the same type and the other colour')
    fn = prog.one('GameState::trapped_animal_for_action')
    if not ctx.anchor('fn trapped_animal_for_action', fn is not None):
        return
    a = B.lit(('pres', 1))
    n = 0
    mv = inputs.enum_variant(prog, 'action::Action', 'Move')
    for t1 in G.TRAPS:
        for t2 in G.TRAPS:
            if t1 == t2:
                continue
            for victim_gold in (True, False):
                for same_type in (True, False):
                    sup = G.neighbours(t1)[0]                      # last supporter of the victim, steps away from t1
                    away = next(d for d in inputs.DIRS if G.step(sup, d) is not None and G.step(sup, d) != t1
                                and G.step(sup, d) not in G.neighbours(t1) and G.step(sup, d) not in G.TRAPS)
                    other_sup = G.neighbours(t2)[-1]
                    if other_sup in (sup, G.step(sup, away)) or t2 in (sup, G.step(sup, away)):
                        continue
                    contents = {t1: (victim_gold, 'Dog', C1), sup: (victim_gold, 'Cat', C1),
                                t2: (not victim_gold, 'Dog' if same_type else 'Horse', a), other_sup: (not victim_gold, 'Cat', C1)}
                    board = local_board(prog, contents)
                    gsv = with_board(prog, inputs.play_state(prog, victim_gold, 1), board)
                    st = State({})
                    gs = inputs.ref_to(I, st, 'gs', gsv)
                    act = inputs.ref_to(I, st, 'act', Enum('action::Action', mv, (inputs.square(sup), inputs.direction(prog, away))))
                    r, _ = I.call_fn(fn, [gs, act], st)
                    n += 1
                    ok = False
                    detail = repr(r)[:160]
                    if isinstance(r, Enum) and r.var == 1:
                        sqv, pcv, owner = r.fields[0].fields
                        idx = sqv.fields[0]
                        ok_sq = isinstance(idx, BV) and idx.known() and idx.uval() == t1
                        ok_owner = isinstance(owner, BV) and owner.bits[0] is (C1 if victim_gold else C0)
                        ok_type = isinstance(pcv, Enum) and prog.types['piece::Piece']['variants'][pcv.var]['name'] == 'Dog'
                        ok = ok_sq and ok_owner and ok_type
                        detail = 'square %s, type %s, owner flag %r' % (G.name(idx.uval()) if isinstance(idx, BV) and idx.known() else idx,
                                                                        pcv, owner.bits[0] if isinstance(owner, BV) else owner)
                    ctx.ob('%s dog on %s loses its supporter, %s %s possibly on %s: preview = (%s, Dog, %s)' % (
                        'gold' if victim_gold else 'silver', G.name(t1), 'silver' if victim_gold else 'gold', 'dog' if same_type else 'horse',
                        G.name(t2), G.name(t1), victim_gold), ok, sample=(t1 == G.TRAPS[0] and t2 == G.TRAPS[1] and same_type))
                    if not ok:
                        ctx.finding('LT.preview', fn, '%s:%s:%s' % ('gold' if victim_gold else 'silver', 'same' if same_type else 'other', G.name(t1)),
                                    '%s dog on %s loses its last supporter while a %s %s may stand supported on %s: the preview reports %s; '
                                    'expected (%s, Dog, owner gold=%s) regardless of the other trap'
                                    % ('gold' if victim_gold else 'silver', G.name(t1), 'silver' if victim_gold else 'gold',
                                       'dog' if same_type else 'horse', G.name(t2), detail, G.name(t1), victim_gold))
    ctx.count('local_tables', n)


def check_hasmove_tables(ctx, prog, quick=True):
    """LT.hasmove: has_move() reports "no move" exactly when the offered list is empty - decided as equality of two exact
    truth tables over the presence of up to four pieces (and the opaque repetition tests), for every mover type, every
    neighbour content and steps 0..2.  Independent of how has_move is written (generators, bitboards, ...)."""
    ctx.rule('LT.hasmove', 'exact table: has_move() is None iff valid_actions() is non-empty, for local configurations (mover piece '
                           'v, an adjacent enemy w, an adjacent friend or second enemy, a far friendly rabbit), both colours, steps 0..2')
    from .rules_rep import run_valid_actions, present_bit, option_is_none_bit
    fh = prog.one('GameState::has_move')
    if not ctx.anchor('fn has_move', fh is not None):
        return
    saveK = B.K
    B.K = 10
    n = 0
    bad = []
    try:
        I = inputs.make_interp(prog, fuel=40000000)
        p = [B.lit(('pres', k)) for k in range(4)]
        centres = [G.sq('d', 4), G.sq('a', 1), G.sq('h', 8)] if quick else [G.sq('d', 4), G.sq('a', 1), G.sq('h', 8), G.sq('e', 6), G.sq('c', 3), G.sq('a', 8), G.sq('h', 1)]
        types_v = ['Rabbit', 'Cat', 'Elephant'] if quick else list(G.STRENGTH)
        types_w = ['Rabbit', 'Dog', 'Elephant'] if quick else list(G.STRENGTH)
        for i in centres:
            nbs = G.neighbours(i)
            n1, n2 = nbs[0], nbs[1]
            far = next(q for q in (G.sq('h', 5), G.sq('g', 2), G.sq('b', 7)) if q not in (i, n1, n2) and q not in G.neighbours(n1) + G.neighbours(n2))
            for gold in (True, False):
                for step in ((0, 2) if quick else (0, 1, 2)):
                    for v in types_v:
                        for w in types_w:
                            for second in ('friend', 'enemy-Camel', 'enemy-Rabbit', 'none'):
                                contents = {i: (gold, v, p[0]), n1: (not gold, w, p[1]), far: (gold, 'Rabbit', p[3])}
                                if second == 'friend':
                                    contents[n2] = (gold, 'Rabbit', p[2])
                                elif second != 'none':
                                    contents[n2] = (not gold, second.split('-')[1], p[2])
                                board = local_board(prog, contents)
                                gsv = with_board(prog, inputs.play_state(prog, gold, step), board)
                                mode = '%s step %d %s@%s enemy %s@%s %s@%s' % ('gold' if gold else 'silver', step, v, G.name(i), w, G.name(n1),
                                                                              second, G.name(n2))
                                try:
                                    st = State({})
                                    gs = inputs.ref_to(I, st, 'gs', gsv)
                                    pb = inputs.ref_to(I, st, 'pb', board)
                                    I.memo.clear()
                                    r, _ = I.call_fn(fh, [gs, pb], st)
                                    h_none = option_is_none_bit(r)
                                    lst = run_valid_actions(I, prog, gsv, True)
                                    ne = C0
                                    for it in lst.items:
                                        ne = B.bor(ne, present_bit(I, it))
                                except Undecided as e:
                                    bad.append((mode, 'undecided: %s' % str(e)[:120]))
                                    continue
                                n += 1
                                same = h_none is ne
                                if not same:
                                    vs = sorted(set(B.rawvars(h_none)) | set(B.rawvars(ne)), key=repr)
                                    ta, tb = (tt(h_none, vs), tt(ne, vs)) if len(vs) <= 12 else (None, None)
                                    same = ta is not None and ta == tb
                                if not same:
                                    bad.append((mode, 'has_move() says "a move exists" on a different set of boards than valid_actions() is non-empty'))
    finally:
        B.K = saveK
    ctx.analysed['lt_hasmove_tables'] = n
    ctx.ob('LT.hasmove: %d local tables agree' % n, not bad, sample=True)
    ctx.floor('LT.hasmove tables', n, 100)
    for mode, why in bad[:4]:
        ctx.finding('LT.hasmove', fh, mode.replace(' ', '_')[:60], 'mode [%s]: %s' % (mode, why))
    return not bad
