"""Summaries of the external (std) callees the crate uses, keyed by resolved def path,
and checked summaries of two local helpers (DESIGN 3.C "Calls")."""
from . import bits as B
from .bits import C0, C1
from .values import (BV, Term, HF, HF0, Struct, Enum, Ite, Ref, Seq, Tok, Top, FnItem, BOTTOM, UNIT,
                     TRUE, FALSE, boolv, SIGMA, V)

TABLE = {}
PREFIX = []
LOCAL = {}

OPT = 'std::option::Option'


def summary(*names):
    def deco(f):
        for n in names:
            TABLE[n] = f
        return f
    return deco


def local_summary(*names):
    def deco(f):
        for n in names:
            LOCAL[n] = f
        return f
    return deco


def none(ty=OPT):
    return Enum(ty, 0)


def some(v, ty=OPT):
    return Enum(ty, 1, (v,))


def ret_ty(I, fr, t):
    if fr is None or t.get('dst') is None:
        return None
    d = t['dst']
    return fr.fn['locals'][d['l']] if not d['p'] else None


def from_undecided():
    from .mai import Undecided
    return Undecided


# ------------------------------------------------------------------ Option
def opt_split(I, st, v, on_some, on_none):
    """Generic case split on an abstract Option; handlers return (value, state)."""
    from .mai import State, Undecided
    if isinstance(v, Enum):
        if v.var == 1:
            return on_some(st, v.fields[0])
        return on_none(st)
    if isinstance(v, Ite):
        d = I.decide(v.c, st.pc)
        if d is True:
            return opt_split(I, st, v.a, on_some, on_none)
        if d is False:
            return opt_split(I, st, v.b, on_some, on_none)
        s1 = State(dict(st.store), st.pc + (v.c,))
        s2 = State(dict(st.store), st.pc + (B.bnot(v.c),))
        r1, o1 = opt_split(I, s1, v.a, on_some, on_none)
        r2, o2 = opt_split(I, s2, v.b, on_some, on_none)
        if o1 is None or r1 is BOTTOM:
            return r2, (None if o2 is None else _pc(o2, st.pc + (B.bnot(v.c),)))
        if o2 is None or r2 is BOTTOM:
            return r1, _pc(o1, st.pc + (v.c,))
        return I.merge(v.c, r1, r2), I.merge_states(v.c, o1, o2, st.pc)
    if isinstance(v, Tok):
        a = B.atom('variant', (v.name, 1), payload=(v, 1))
        payload = I.tok_field(v, 0, 1)
        return opt_split(I, st, Ite(B.atom_bit(a), Enum(v.ty or OPT, 1, (payload,)), Enum(v.ty or OPT, 0)),
                         on_some, on_none)
    if isinstance(v, Top):
        return Top('option of ' + v.why), st
    raise Undecided('option split on %r' % (v,))


def _pc(st, pc):
    st.pc = pc
    return st


def is_some_bit(I, v):
    d = I.discr(v)
    if isinstance(d, BV):
        return d.bits[0]
    raise from_undecided()('is_some of %r' % (v,))


@summary('std::option::Option::<T>::as_ref', 'std::option::Option::<T>::as_mut')
def opt_as_ref(I, st, fr, t, a):
    r = a[0]
    if not isinstance(r, Ref):
        raise from_undecided()('as_ref on non-ref %r' % (r,))
    v = I.read_at(st, r.cell, r.path)
    inner = Ref(r.cell, r.path + (('dc', 1), ('f', 0)), r.mut)
    ty = ret_ty(I, fr, t) or OPT
    if isinstance(v, Enum):
        return (some(inner, ty) if v.var == 1 else none(ty)), st
    bit = is_some_bit(I, v)
    return I.merge(bit, some(inner, ty), none(ty)), st


@summary('std::option::Option::<T>::as_deref')
def opt_as_deref(I, st, fr, t, a):
    # Option<Arc<T>> -> Option<&T> ; Arc is modelled as a one-field struct
    r = a[0]
    v = I.read_at(st, r.cell, r.path)
    inner = Ref(r.cell, r.path + (('dc', 1), ('f', 0), ('f', 0)), False)
    ty = ret_ty(I, fr, t) or OPT
    if isinstance(v, Enum):
        return (some(inner, ty) if v.var == 1 else none(ty)), st
    bit = is_some_bit(I, v)
    return I.merge(bit, some(inner, ty), none(ty)), st


def _as_ref_origin(I, st, v):
    """the Option value `o` when v is what `o.as_ref()` returns (Some(&payload of o) exactly when o is Some), else None"""
    leaf = None
    if isinstance(v, Ite) and isinstance(v.a, Enum) and v.a.var == 1 and isinstance(v.b, Enum) and v.b.var == 0:
        leaf = v.a.fields[0]
    elif isinstance(v, Enum) and v.var == 1:
        leaf = v.fields[0]
    if isinstance(leaf, Ref) and leaf.path[-2:] == (('dc', 1), ('f', 0)):
        try:
            o = I.read_at(st, leaf.cell, leaf.path[:-2])
        except Exception:
            return None
        if isinstance(v, Ite) and is_some_bit(I, o) is not v.c:
            return None
        return o
    return None


@summary('std::option::Option::<T>::map')
def opt_map(I, st, fr, t, a):
    ty = ret_ty(I, fr, t) or OPT
    if isinstance(a[1], FnItem) and a[1].path.endswith('::clone') and ('Arc' in a[1].path or 'Rc' in a[1].path or
                                                                       a[1].path.endswith('Clone::clone')):
        # `o.as_ref().map(Arc::clone)` is `o.clone()`: the same abstract value (a shared handle is its target)
        o = _as_ref_origin(I, st, a[0])
        if o is not None:
            return o, st

    def on_some(s, x):
        r, s2 = I.call_closure(s, a[1], [x])
        return some(r, ty), s2
    return opt_split(I, st, a[0], on_some, lambda s: (none(ty), s))


@summary('std::option::Option::<T>::and_then')
def opt_and_then(I, st, fr, t, a):
    ty = ret_ty(I, fr, t) or OPT
    return opt_split(I, st, a[0], lambda s, x: I.call_closure(s, a[1], [x]), lambda s: (none(ty), s))


@summary('std::option::Option::<T>::or_else')
def opt_or_else(I, st, fr, t, a):
    ty = ret_ty(I, fr, t) or OPT
    return opt_split(I, st, a[0], lambda s, x: (some(x, ty), s), lambda s: I.call_closure(s, a[1], []))


@summary('std::option::Option::<T>::map_or')
def opt_map_or(I, st, fr, t, a):
    return opt_split(I, st, a[0], lambda s, x: I.call_closure(s, a[2], [x]), lambda s: (a[1], s))


@summary('std::option::Option::<T>::unwrap', 'std::option::Option::<T>::expect')
def opt_unwrap(I, st, fr, t, a):
    def on_none(s):
        I.panics.setdefault((fr.fname, t['at'], t['res']['path']), s.pc)
        return BOTTOM, None
    return opt_split(I, st, a[0], lambda s, x: (x, s), on_none)


@summary('std::result::Result::<T, E>::unwrap', 'std::result::Result::<T, E>::expect')
def res_unwrap(I, st, fr, t, a):
    v = a[0]
    if isinstance(v, Enum):
        if v.var == 0:
            return v.fields[0], st
        I.panics.setdefault((fr.fname, t['at'], t['res']['path']), st.pc)
        return BOTTOM, None
    I.panics.setdefault((fr.fname, t['at'], t['res']['path']), st.pc)
    return Top('unwrap of unknown Result'), st


@summary('std::option::Option::<T>::take')
def opt_take(I, st, fr, t, a):
    r = a[0]
    v = I.read_at(st, r.cell, r.path)
    old = st.store[r.cell]
    st.store[r.cell] = I.update(old, r.path, none(getattr(v, 'ty', OPT)))
    return v, st


@summary('std::option::Option::<&T>::cloned', 'std::option::Option::<&T>::copied')
def opt_cloned(I, st, fr, t, a):
    ty = ret_ty(I, fr, t) or OPT
    return opt_split(I, st, a[0], lambda s, x: (some(I.deref(s, x), ty), s), lambda s: (none(ty), s))


@summary('std::option::Option::<T>::is_some')
def opt_is_some(I, st, fr, t, a):
    v = I.deref(st, a[0])
    return boolv(is_some_bit(I, v)), st


@summary('std::option::Option::<T>::is_none')
def opt_is_none(I, st, fr, t, a):
    v = I.deref(st, a[0])
    return boolv(B.bnot(is_some_bit(I, v))), st


@summary('<std::option::Option<T> as std::default::Default>::default')
def opt_default(I, st, fr, t, a):
    return none(ret_ty(I, fr, t) or OPT), st


# ------------------------------------------------------------------ clone / deref / identity
@summary('<std::option::Option<T> as std::clone::Clone>::clone',
         '<std::vec::Vec<T, A> as std::clone::Clone>::clone',
         'std::clone::impls::<impl std::clone::Clone for bool>::clone',
         'std::clone::impls::<impl std::clone::Clone for u64>::clone',
         'std::clone::impls::<impl std::clone::Clone for usize>::clone',
         'std::clone::impls::<impl std::clone::Clone for u8>::clone',
         '<std::sync::Arc<T, A> as std::clone::Clone>::clone',
         'std::clone::Clone::clone')
def clone_deref(I, st, fr, t, a):
    v = a[0]
    if isinstance(v, Ref):
        return I.read_at(st, v.cell, v.path), st
    return v, st


@summary('<I as std::iter::IntoIterator>::into_iter', 'std::hint::must_use', 'std::convert::identity',
         '<T as std::convert::From<T>>::from')
def identity(I, st, fr, t, a):
    return a[0], st


@summary('<T as std::convert::Into<U>>::into')
def into_conv(I, st, fr, t, a):
    # the blanket impl calls <U as From<T>>::from: the identity only when T == U, otherwise the local conversion
    args = ((t.get('res') or {}).get('args') or '').strip('[]')
    parts = [x.strip() for x in _split_top(args)]
    if len(parts) == 2 and parts[0] == parts[1]:
        return a[0], st
    if len(parts) == 2:
        k = '<%s as std::convert::From<%s>>::from' % (parts[1], parts[0])
        if k in I.fns:
            return I.call_local(k, [a[0]], st)
    raise from_undecided()('Into::into between %s: conversion not modelled' % (args,))


def _split_top(s):
    out, depth, cur = [], 0, ''
    for ch in s:
        if ch in '<([':
            depth += 1
        elif ch in '>)]':
            depth -= 1
        if ch == ',' and depth == 0:
            out.append(cur)
            cur = ''
        else:
            cur += ch
    if cur.strip():
        out.append(cur)
    return out


@summary('<std::vec::Vec<T, A> as std::ops::Deref>::deref', '<std::vec::Vec<T, A> as std::ops::DerefMut>::deref_mut',
         'std::vec::Vec::<T, A>::as_slice')
def vec_deref(I, st, fr, t, a):
    return a[0], st


@summary('<std::sync::Arc<T, A> as std::ops::Deref>::deref')
def arc_deref(I, st, fr, t, a):
    r = a[0]
    return Ref(r.cell, r.path + (('f', 0),), False), st


@summary('std::sync::Arc::<T>::new')
def arc_new(I, st, fr, t, a):
    return Struct('$Arc', (a[0],)), st


@summary('std::sync::Arc::<T, A>::into_inner')
def arc_into_inner(I, st, fr, t, a):
    v = a[0]
    ty = ret_ty(I, fr, t) or OPT
    uniq = B.atom_bit(B.atom('arc-unique', repr(v)))
    inner = v.fields[0] if isinstance(v, Struct) and v.ty == '$Arc' else Top('arc payload')
    return I.merge(uniq, some(inner, ty), none(ty)), st


@summary('<usize as std::default::Default>::default')
def usize_default(I, st, fr, t, a):
    return BV.const(0, 64), st


# ------------------------------------------------------------------ integers
@summary('core::num::<impl u64>::trailing_zeros', 'core::num::<impl u128>::trailing_zeros',
         'core::num::<impl u32>::trailing_zeros', 'core::num::<impl usize>::trailing_zeros')
def trailing_zeros(I, st, fr, t, a):
    v = a[0]
    if isinstance(v, BV):
        if v.known():
            x = v.uval()
            n = v.w if x == 0 else (x & -x).bit_length() - 1
            return BV.const(n, 32), st
        if all(b.kind == 's' and len(b.sup) == 1 and b.sup[0][0].startswith('sig') and b.sup[0][1] == i and b.tt == (0, 1)
               for i, b in enumerate(v.bits[:64])) and all(b is C0 for b in v.bits[64:]):
            from .values import sigma
            sg = sigma(int(v.bits[0].sup[0][0][3:]))
            return Term('sigma', sg.args, 32, 0, 63), st
        cands = [i for i, b in enumerate(v.bits) if b is not C0]
        first_one = next((i for i, b in enumerate(v.bits) if b is C1), None)
        nz = I.decide(I.nonzero_bit(v), st.pc)
        if len(cands) == 1 and (nz is True or first_one is not None):
            return BV.const(cands[0], 32), st
        lo = cands[0] if cands else v.w
        if first_one is not None and first_one == lo:
            # the lowest possibly-set bit is certainly set
            return BV.const(lo, 32), st
        if first_one is not None:
            hi = first_one
        elif nz is True:
            hi = cands[-1]
        else:
            hi = v.w
        # strip zero-extension (u64 as u128) so that the payload identifies the board
        core = v
        if v.w == 128 and all(b is C0 for b in v.bits[64:]):
            core = BV(v.bits[:64])
            if hi == 128:
                hi = 128
        return Term('tz', (core,), 32, lo, hi), st
    if isinstance(v, Term) and v.kind == 'onehot':
        s = v.args[0]
        return Term(s.kind, s.args, 32, s.lo, s.hi), st
    return Term('tz', (v,), 32, 0, 128), st


@summary('core::num::<impl u64>::count_ones', 'core::num::<impl u32>::count_ones', 'core::num::<impl u16>::count_ones',
         'core::num::<impl u8>::count_ones', 'core::num::<impl usize>::count_ones', 'core::num::<impl u128>::count_ones')
def count_ones(I, st, fr, t, a):
    v = a[0]
    if isinstance(v, BV):
        if v.known():
            return BV.const(bin(v.uval()).count('1'), 32), st
        lo = sum(1 for b in v.bits if b is C1)
        hi = sum(1 for b in v.bits if b is not C0)
        return Term('popcount', (v,), 32, lo, hi), st
    return Term('popcount', (v,), 32, 0, 64), st


# ------------------------------------------------------------------ comparisons on local types
def _manual_impl(I, v, trait, method):
    """local hand-written impl of `trait::method` for the type of value v (None when derived or absent)"""
    ty = getattr(v, 'ty', None)
    if not isinstance(v, (Enum, Struct)) or not ty or ty.startswith(('$', 'std::', 'tuple', 'closure:')):
        return None
    base = ty.split('<')[0]
    for cand in (ty, base):
        k = '<%s as %s>::%s' % (cand, trait, method)
        f = I.fns.get(k)
        if f is not None:
            return None if f.get('derived') else k
    return None


_ORD_OK = {'gt': (2,), 'ge': (1, 2), 'lt': (0,), 'le': (0, 1)}     # Ordering: 0 Less, 1 Equal, 2 Greater


def _ordering_to_bool(I, op, v):
    if isinstance(v, Ite):
        return I.merge(v.c, _ordering_to_bool(I, op, v.a), _ordering_to_bool(I, op, v.b))
    if isinstance(v, Enum) and v.ty.startswith('std::option::Option'):
        if v.var == 0:
            return FALSE
        return _ordering_to_bool(I, op, v.fields[0])
    if isinstance(v, Enum) and v.ty.startswith('std::cmp::Ordering'):
        return TRUE if v.var in _ORD_OK[op] else FALSE
    raise from_undecided()('result of a hand-written partial_cmp is not a decidable Ordering: %r' % (v,))


def _cmp_values(I, st, op, x, y):
    x, y = I.deref(st, x), I.deref(st, y)
    return _cmp_core(I, op, x, y, st)


def _cmp_core(I, op, x, y, st=None):
    if isinstance(x, Ite):
        return I.merge(x.c, _cmp_core(I, op, x.a, y, st), _cmp_core(I, op, x.b, y, st))
    if isinstance(y, Ite):
        return I.merge(y.c, _cmp_core(I, op, x, y.a, st), _cmp_core(I, op, x, y.b, st))
    # a hand-written PartialEq / PartialOrd decides the comparison, not the structure of the value
    if op in ('eq', 'ne'):
        k = _manual_impl(I, x, 'std::cmp::PartialEq', 'eq')
    else:
        k = _manual_impl(I, x, 'std::cmp::PartialOrd', 'partial_cmp')
    if k is not None:
        if st is None:
            raise from_undecided()('comparison through the hand-written %s outside a state' % k)
        cx = ('static', 'cmpx:%d' % next(I.frame_counter))
        cy = ('static', 'cmpy:%d' % next(I.frame_counter))
        st.store[cx], st.store[cy] = x, y
        r, st2 = I.call_local(k, [Ref(cx), Ref(cy)], st)
        if st2 is None:
            raise from_undecided()('hand-written %s diverges' % k)
        I.ev('manual-cmp', k, None, op)
        if op == 'eq':
            return r
        if op == 'ne':
            return boolv(B.bnot(r.bits[0]))
        return _ordering_to_bool(I, op, r)
    if op in ('eq', 'ne'):
        bit = I.eq_bit(x, y)
        if bit is None:
            raise from_undecided()('eq of %r %r' % (x, y))
        return boolv(bit if op == 'eq' else B.bnot(bit))
    # ordering: fieldless enums by discriminant (derived impls), ints by value
    if isinstance(x, Enum) and isinstance(y, Enum) and not x.fields and not y.fields:
        dx, dy = I.discr_val(x.ty, x.var), I.discr_val(y.ty, y.var)
        r = {'gt': dx > dy, 'ge': dx >= dy, 'lt': dx < dy, 'le': dx <= dy}[op]
        return TRUE if r else FALSE
    if isinstance(x, (BV, Term)) and isinstance(y, (BV, Term)):
        return I.binop({'gt': 'Gt', 'ge': 'Ge', 'lt': 'Lt', 'le': 'Le'}[op], x, y)
    at = B.atom('ord', (op, x, y), payload=(op, x, y), deps=I.deps_of(x) | I.deps_of(y))
    return boolv(B.atom_bit(at))


def _mk_cmp(op):
    def h(I, st, fr, t, a):
        # the comparison operator actually used is recorded for the strictness rule (C01.4)
        if fr is not None:
            I.ev('cmp-op', fr.fname, t.get('at'), op)
        return _cmp_values(I, st, op, a[0], a[1]), st
    return h


for _op in ('eq', 'ne', 'gt', 'ge', 'lt', 'le'):
    _h = _mk_cmp(_op)
    TABLE['std::cmp::PartialEq::%s' % _op] = _h
    TABLE['std::cmp::PartialOrd::%s' % _op] = _h
    TABLE['std::cmp::impls::<impl std::cmp::PartialEq<&B> for &A>::%s' % _op] = _h
    TABLE['std::cmp::impls::<impl std::cmp::PartialOrd<&B> for &A>::%s' % _op] = _h


# ------------------------------------------------------------------ Vec / slices / iterators
@summary('std::vec::Vec::<T>::new', 'std::vec::Vec::<T>::with_capacity', 'std::vec::Vec::<T, A>::with_capacity_in')
def vec_new(I, st, fr, t, a):
    return Seq(()), st


@summary('std::vec::Vec::<T, A>::push')
def vec_push(I, st, fr, t, a):
    r = a[0]
    v = I.read_at(st, r.cell, r.path)
    if not isinstance(v, Seq):
        raise from_undecided()('push on %r' % (v,))
    new = Seq(v.items + (('elem', a[1]),))
    st.store[r.cell] = I.update(st.store[r.cell], r.path, new)
    return UNIT, st


@summary('std::vec::Vec::<T, A>::len', 'core::slice::<impl [T]>::len')
def vec_len(I, st, fr, t, a):
    v = I.deref(st, a[0])
    if isinstance(v, Seq):
        if v.concrete():
            return BV.const(len(v.items), 64), st
        lo = sum(1 for it in v.items if it[0] == 'elem')
        return Term('len', (v,), 64, lo, lo + 64 * sum(1 for it in v.items if it[0] != 'elem')), st
    return Term('len', (v,), 64), st


@summary('std::vec::Vec::<T, A>::is_empty', 'core::slice::<impl [T]>::is_empty')
def vec_is_empty(I, st, fr, t, a):
    v = I.deref(st, a[0])
    if isinstance(v, Seq):
        return boolv(B.bnot(seq_nonempty_bit(I, v))), st
    raise from_undecided()('is_empty of %r' % (v,))


def item_present_bit(I, it):
    if it[0] == 'elem':
        return C1
    if it[0] == 'bulk':
        return I.nonzero_bit(it[1])
    if it[0] == 'cond':
        return B.band(it[1], item_present_bit(I, it[2]))
    return C1


def seq_nonempty_bit(I, v):
    r = C0
    for it in v.items:
        r = B.bor(r, item_present_bit(I, it))
    return r


@summary('<std::vec::Vec<T, A> as std::ops::Index<I>>::index')
def vec_index(I, st, fr, t, a):
    r = a[0]
    v = I.deref(st, r)
    idx = a[1]
    ok = False
    if isinstance(v, Seq) and v.concrete() and isinstance(idx, BV) and idx.known():
        ok = idx.uval() < len(v.items)
    key = (fr.fname, t['at'], t['res']['path'])
    if ok:
        I.asserts_ok[key] = I.asserts_ok.get(key, 0) + 1
        return Ref(r.cell, r.path + (('idx', idx),), False), st
    I.asserts_bad.setdefault(key, 'index %r of %r' % (idx, v))
    if isinstance(v, Seq) and v.concrete() and isinstance(idx, BV) and idx.known():
        return BOTTOM, None
    return Top('vec index'), st


@summary('core::slice::<impl [T]>::iter')
def slice_iter(I, st, fr, t, a):
    return Struct('$SliceIter', (a[0], 0, None)), st


@summary('<std::vec::Vec<T, A> as std::iter::IntoIterator>::into_iter')
def vec_into_iter(I, st, fr, t, a):
    v = a[0]
    cell = ('static', 'intoiter:%d' % next(I.frame_counter))
    st.store[cell] = v
    return Struct('$SliceIter', (Ref(cell), 0, 'owned')), st


def _iter_items(I, st, it):
    cont = it.fields[0]
    v = I.deref(st, cont)
    if not isinstance(v, Seq):
        raise from_undecided()('iteration over %r' % (v,))
    return v


@summary("<std::slice::Iter<'a, T> as std::iter::Iterator>::next", '<std::vec::IntoIter<T, A> as std::iter::Iterator>::next')
def slice_next(I, st, fr, t, a):
    r = a[0]
    it = I.read_at(st, r.cell, r.path)
    if not (isinstance(it, Struct) and it.ty == '$SliceIter'):
        raise from_undecided()('next on %r' % (it,))
    cont, pos, mode = it.fields
    owned = mode == 'owned' or (isinstance(mode, tuple) and mode[0] == 'owned')
    inbulk = mode[1] if isinstance(mode, tuple) else None
    seq = _iter_items(I, st, it)
    ty = ret_ty(I, fr, t) or OPT
    if inbulk is not None:
        st = finalize_bulk(I, st, inbulk, seq.items[pos], fr)
        pos += 1
    if pos >= len(seq.items):
        st.store[r.cell] = I.update(st.store[r.cell], r.path, Struct('$SliceIter', (cont, pos, 'owned' if owned else None)))
        return none(ty), st
    item = seq.items[pos]
    if item[0] == 'elem':
        st.store[r.cell] = I.update(st.store[r.cell], r.path,
                                    Struct('$SliceIter', (cont, pos + 1, 'owned' if owned else None)))
        if owned:
            return some(item[1], ty), st
        return some(Ref(cont.cell, cont.path + (('idx', BV.const(pos, 64)),), False), ty), st
    if item[0] == 'bulk' and not owned and inbulk is None and I.bulk_by_ref_as_exists:
        # `for x in list.iter() { if p(x) { return .. } }` over a symbolic bulk: one symbolic element, present iff B != 0
        from .mai import ForkReq, State
        g = I.nonzero_bit(item[1])
        s_yes = State(dict(st.store), st.pc)
        s_no = State(dict(st.store), st.pc)
        adv = Struct('$SliceIter', (cont, pos + 1, None))
        for s_ in (s_yes, s_no):
            s_.store[r.cell] = I.update(s_.store[r.cell], r.path, adv)
        cell = ('static', 'bulkexelem:%d' % next(I.frame_counter))
        s_yes.store[cell] = item[2]
        I.ev('bulk-exists', fr.fname, t.get('at'), None)
        return ForkReq(g, s_yes, some(Ref(cell), ty), s_no), st
    if item[0] == 'bulk':
        snap = next(I.snap_counter)
        I.snapshots[snap] = dict(st.store)
        st.store[r.cell] = I.update(st.store[r.cell], r.path,
                                    Struct('$SliceIter', (cont, pos, ('owned' if owned else 'ref', snap))))
        elem = item[2]
        if not owned:
            cell = ('static', 'bulkelem:%d' % snap)
            st.store[cell] = elem
            elem = Ref(cell)
        return some(elem, ty), st
    if item[0] == 'cond':
        # the element is present only under its gate: split the execution here
        from .mai import ForkReq, State
        inner = item[2]
        g = item[1]
        while inner[0] == 'cond':
            g = B.band(g, inner[1])
            inner = inner[2]
        if inner[0] != 'elem':
            raise from_undecided()('iteration over conditional bulk item')
        s_yes = State(dict(st.store), st.pc)
        s_no = State(dict(st.store), st.pc)
        adv = Struct('$SliceIter', (cont, pos + 1, 'owned' if owned else None))
        for s_ in (s_yes, s_no):
            s_.store[r.cell] = I.update(s_.store[r.cell], r.path, adv)
        if owned:
            elem = inner[1]
        else:
            cell = ('static', 'condelem:%d' % next(I.frame_counter))
            s_yes.store[cell] = inner[1]
            elem = Ref(cell)
        return ForkReq(g, s_yes, some(elem, ty), s_no), st
    raise from_undecided()('iteration over item %r' % (item,))


def finalize_bulk(I, st, snap, item, fr):
    """After one symbolic iteration of a loop over Bulk(B, f): turn XOR-accumulated hash terms that mention the
    bulk index into bulk terms; any other loop-carried change is not representable."""
    old = I.snapshots.pop(snap)
    bv = item[1]
    for cell, new in list(st.store.items()):
        prev = old.get(cell)
        if prev is None or prev is new:
            continue
        try:
            same = (prev == new)
        except Exception:
            same = False
        if same:
            continue
        hp, hn = I.as_hf(prev), I.as_hf(new)
        if hp is not None and hn is not None and isinstance(new, HF):
            delta = hn.xor(hp)
            out = []
            okk = True
            for sym, g in delta.terms:
                if sym[0] in ('SQ', 'PUSH', 'PULL') and isinstance(sym[2], Term) and sym[2].kind == 'sigma':
                    gated = bv if g is C1 else BV([B.band(g, x) for x in bv.bits])
                    out.append(((sym[0] + 'B', sym[1], gated), C1))
                else:
                    okk = False
            if okk:
                st.store[cell] = hp.xor(HF(out))
                continue
            st.store[cell] = Top('loop-carried hash change not linear in the bulk index')
            continue
        if isinstance(prev, Struct) and prev.ty == '$SliceIter':
            continue
        if cell[0] == fr.id and isinstance(prev, (BV, Term, Enum, Struct, Ref, Ite, Tok, Top)):
            # a temporary of the loop body (re-assigned before use in every iteration) or a loop-carried
            # scalar: poison it so that a later read is reported instead of silently using one iteration
            st.store[cell] = Top('value written inside a loop over a symbolic bulk of squares')
            continue
        st.store[cell] = Top('loop-carried change across a symbolic bulk loop')
    return st


@summary('std::iter::Iterator::map')
def iter_map(I, st, fr, t, a):
    return Struct('$Map', (a[0], a[1])), st


@summary('std::iter::Iterator::filter')
def iter_filter(I, st, fr, t, a):
    return Struct('$Filter', (a[0], a[1])), st


@summary('std::iter::Iterator::cloned', 'std::iter::Iterator::copied')
def iter_cloned(I, st, fr, t, a):
    return Struct('$Cloned', (a[0],)), st


@summary('std::iter::Iterator::enumerate')
def iter_enumerate(I, st, fr, t, a):
    return Struct('$Enumerate', (a[0],)), st


def drain(I, st, it):
    """Abstract items produced by an iterator value -> (list of Seq items, state)."""
    if isinstance(it, Struct) and it.ty == '$SliceIter':
        cont, pos, mode = it.fields
        seq = _iter_items(I, st, it)
        out = []
        for k in range(pos, len(seq.items)):
            item = seq.items[k]
            if mode == 'owned' or item[0] != 'elem':
                out.append(item)
            else:
                out.append(('elem', Ref(cont.cell, cont.path + (('idx', BV.const(k, 64)),), False)))
        return out, st
    if isinstance(it, Struct) and it.ty == '$Cloned':
        items, st = drain(I, st, it.fields[0])
        return [map_item(I, st, x, lambda s, v: (I.deref(s, v), s))[0] for x in items], st
    if isinstance(it, Struct) and it.ty == '$Map':
        items, st = drain(I, st, it.fields[0])
        out = []
        for x in items:
            y, st = map_item(I, st, x, lambda s, v: I.call_closure(s, it.fields[1], [v]))
            out.append(y)
        return out, st
    if isinstance(it, Struct) and it.ty == '$Filter':
        items, st = drain(I, st, it.fields[0])
        out = []
        for x in items:
            gate = C1
            base = x
            while base[0] == 'cond':
                gate = B.band(gate, base[1])
                base = base[2]
            if base[0] != 'elem':
                raise from_undecided()('filter over symbolic item')
            cell = ('static', 'filt:%d' % next(I.frame_counter))
            st.store[cell] = base[1]
            r, st = I.call_closure(st, it.fields[1], [Ref(cell)])
            bit = B.band(gate, r.bits[0])
            y = I.cond_item(bit, base)
            if y is not None:
                out.append(y)
        return out, st
    raise from_undecided()('drain of %r' % (it,))


def map_item(I, st, item, f):
    if item[0] == 'elem':
        v, st = f(st, item[1])
        return ('elem', v), st
    if item[0] == 'bulk':
        v, st = f(st, item[2])
        return ('bulk', item[1], v), st
    if item[0] == 'cond':
        # the mapped function runs only for items that passed the gate: it is evaluated under the gate as path condition
        # (`.filter(|b| *b != 0 ..).map(|b| square_of(b))` knows b != 0 inside the map), panics met there are conditional too
        saved = st.pc
        st.pc = saved + (item[1],) if item[1] is not C1 else saved
        try:
            y, st2 = map_item(I, st, item[2], f)
        finally:
            st.pc = saved
        if st2 is not st and st2 is not None:
            st2.pc = saved
        return ('cond', item[1], y), st2
    raise from_undecided()('map over %r' % (item,))


@summary('<std::vec::Vec<T, A> as std::iter::Extend<T>>::extend')
def vec_extend(I, st, fr, t, a):
    r = a[0]
    items, st = drain(I, st, a[1])
    v = I.read_at(st, r.cell, r.path)
    if not isinstance(v, Seq):
        raise from_undecided()('extend on %r' % (v,))
    st.store[r.cell] = I.update(st.store[r.cell], r.path, Seq(v.items + tuple(items)))
    return UNIT, st


@summary('std::iter::Iterator::collect')
def iter_collect(I, st, fr, t, a):
    ty = ret_ty(I, fr, t) or ''
    if ty.startswith('std::vec::Vec'):
        items, st = drain(I, st, a[0])
        return Seq(items), st
    return Top('collect into ' + ty), st


def item_eq_bit(I, st, item, x):
    """Bit: does this Seq item contain value x (already dereferenced)?"""
    if item[0] == 'elem':
        if _manual_impl(I, x, 'std::cmp::PartialEq', 'eq') is not None:
            return _cmp_core(I, 'eq', I.deref(st, item[1]), x, st).bits[0]
        e = I.eq_bit(I.deref(st, item[1]), x)
        if e is None:
            raise from_undecided()('eq in contains')
        return e
    if item[0] == 'cond':
        return B.band(item[1], item_eq_bit(I, st, item[2], x))
    if item[0] == 'bulk':
        # exists sigma in B: f(sigma) == x  -> solve for sigma structurally
        sol = solve_sigma(I, item[2], x)
        if sol is False:
            return C0
        if sol is None:
            raise from_undecided()('contains over bulk: cannot solve %r == %r' % (item[2], x))
        k = sol
        return item[1].bits[k] if k < item[1].w else C0
    raise from_undecided()('contains item')


def solve_sigma(I, f, x):
    """Unify pattern f (containing SIGMA) with concrete x. Returns index, False (no match), None (unknown),
    or True (match independent of sigma)."""
    if isinstance(f, Term) and f.kind == 'sigma':
        if isinstance(x, BV) and x.known():
            return x.uval()
        return None
    if isinstance(f, (Struct, Enum)) and type(f) is type(x):
        if isinstance(f, Enum) and f.var != x.var:
            return False
        if len(f.fields) != len(x.fields):
            return False
        res = True
        for a_, b_ in zip(f.fields, x.fields):
            s = solve_sigma(I, a_, b_)
            if s is False:
                return False
            if s is None:
                return None
            if s is not True:
                if res is not True and res != s:
                    return False
                res = s
        return res
    e = I.eq_bit(f, x)
    if e is C1:
        return True
    if e is C0:
        return False
    return None


@summary('core::slice::<impl [T]>::contains')
def slice_contains(I, st, fr, t, a):
    v = I.deref(st, a[0])
    x = I.deref(st, a[1])
    if not isinstance(v, Seq):
        raise from_undecided()('contains on %r' % (v,))
    r = C0
    for it in v.items:
        r = B.bor(r, item_eq_bit(I, st, it, x))
    return boolv(r), st


@summary('std::vec::Vec::<T, A>::retain')
def vec_retain(I, st, fr, t, a):
    r = a[0]
    v = I.read_at(st, r.cell, r.path)
    if not isinstance(v, Seq):
        raise from_undecided()('retain on %r' % (v,))
    out = []
    for item in v.items:
        y, st = retain_item(I, st, item, a[1])
        if y is not None:
            out.append(y)
    st.store[r.cell] = I.update(st.store[r.cell], r.path, Seq(out))
    return UNIT, st


def retain_item(I, st, item, clo):
    if item[0] == 'elem':
        cell = ('static', 'ret:%d' % next(I.frame_counter))
        st.store[cell] = item[1]
        keep, st2 = I.call_closure(st, clo, [Ref(cell)])
        if st2 is None or keep is BOTTOM:
            # evaluating the predicate on this element diverges (recorded as a panic site): nothing is retained
            return None, st
        return I.cond_item(keep.bits[0], item), st2
    if item[0] == 'cond':
        y, st = retain_item(I, st, item[2], clo)
        if y is None:
            return None, st
        return I.cond_item(item[1], y), st
    if item[0] == 'bulk':
        cell = ('static', 'ret:%d' % next(I.frame_counter))
        st.store[cell] = item[2]
        keep, st2 = I.call_closure(st, clo, [Ref(cell)])
        if st2 is None or keep is BOTTOM:
            return None, st
        return ('filtered', keep.bits[0], item), st2
    raise from_undecided()('retain item')


@summary('<std::iter::Filter<I, P> as std::iter::Iterator>::count')
def filter_count(I, st, fr, t, a):
    it = a[0]
    if not (isinstance(it, Struct) and it.ty == '$Filter'):
        raise from_undecided()('count on %r' % (it,))
    src, clo = it.fields
    if isinstance(src, Struct) and src.ty.startswith('linked_list::Iter'):
        # count over the history list: evaluate the predicate once on a symbolic element
        lst = src
        elem_cell = ('static', 'histelem')
        st.store[elem_cell] = I.fresh('hist.elem', _elem_ty(I, src))
        rcell = ('static', 'histelemref')
        st.store[rcell] = Ref(elem_cell)
        pred, st = I.call_closure(st, clo, [Ref(rcell)])
        return Term('count', (I.snapshot(st, lst), pred), 64), st
    items, st = drain(I, st, it)
    if all(x[0] == 'elem' for x in items):
        return BV.const(len(items), 64), st
    return Term('count', (Seq(items),), 64, 0, len(items)), st


def _elem_ty(I, itv):
    ti = I.tyinfo(itv.ty)
    if ti and ti.get('targs'):
        return ti['targs'][-1]
    return None


# ------------------------------------------------------------------ diverging / opaque
@summary('std::rt::panic_fmt', 'core::panicking::panic_fmt', 'core::panicking::panic', 'std::rt::begin_panic',
         'core::panicking::panic_explicit', 'core::option::unwrap_failed', 'core::result::unwrap_failed',
         'core::option::expect_failed')
def diverge(I, st, fr, t, a):
    I.panics.setdefault((fr.fname, t['at'], t['res']['path']), st.pc)
    return BOTTOM, None


def opaque(I, st, fr, t, a):
    ty = ret_ty(I, fr, t)
    if ty == '()':
        return UNIT, st
    return Top('opaque ' + (t.get('res') or {}).get('path', '?')), st


for _n in ('std::fmt::Arguments::<\'a>::new', 'std::fmt::Arguments::<\'a>::from_str',
           'core::fmt::rt::Argument::<\'_>::new_display', 'std::fmt::Formatter::<\'a>::write_fmt',
           'std::fmt::Formatter::<\'a>::write_str', 'std::fmt::format', '<T as std::string::ToString>::to_string',
           'std::hash::Hasher::finish', 'std::hash::Hasher::write_u64'):
    TABLE[_n] = opaque
PREFIX.append(('std::fmt::', opaque))
PREFIX.append(('core::fmt::', opaque))
PREFIX.append(('anyhow::', opaque))
PREFIX.append(('regex::', opaque))
PREFIX.append(('core::str::', opaque))
PREFIX.append(('std::str::', opaque))
PREFIX.append(('core::hash::', opaque))
PREFIX.append(('std::char::', opaque))


# ------------------------------------------------------------------ checked summaries of local helpers
LOCAL_USED = set()


@local_summary('action::map_bit_board_to_squares')
def map_bit_board_to_squares(I, st, fr, t, a):
    LOCAL_USED.add('action::map_bit_board_to_squares')
    bv = a[0]
    if not isinstance(bv, BV):
        raise from_undecided()('map_bit_board_to_squares of %r' % (bv,))
    sq_ty = 'square::Square'
    if bv.known():
        x = bv.uval()
        items = []
        i = 0
        while x:
            if x & 1:
                items.append(('elem', Struct(sq_ty, (BV.const(i, 8),))))
            x >>= 1
            i += 1
        return Seq(items), st
    return Seq([('bulk', bv, Struct(sq_ty, (SIGMA,)))]), st


# ====================================================================================================================
# Extensions for the panic analysis of the text parsers and of Display (opaque strings, loops of unknown length)
# ====================================================================================================================
def visit(I, fr, t, ok, detail=None):
    key = (fr.fname if fr else '?', t.get('at'), (t.get('res') or {}).get('path'))
    if ok:
        I.asserts_ok[key] = I.asserts_ok.get(key, 0) + 1
    else:
        I.asserts_bad.setdefault(key, detail or 'not discharged')


def typed_opaque(I, st, fr, t, a, why=None):
    path = (t.get('res') or {}).get('path', '?')
    I.opaque_calls[path] = I.opaque_calls.get(path, 0) + 1
    ty = ret_ty(I, fr, t)
    if ty == '()':
        return UNIT, st
    return I.fresh_value('op%d' % next(I.frame_counter), ty), st


for _n in list(TABLE):
    if TABLE[_n] is opaque:
        TABLE[_n] = typed_opaque
PREFIX[:] = [(p, typed_opaque) for (p, h) in PREFIX]
for _p in ('<T as std::string::ToString>::to_string', '<std::string::String as std::ops::Deref>::deref',
           'std::iter::Iterator::find', 'std::str::<impl str>::to_lowercase', 'std::string::String::', '<std::string::String as',
           'std::char::methods::', 'core::char::methods::', '<&usize as std::ops::Rem<usize>>::rem'):
    PREFIX.append((_p, typed_opaque))


# ---- opaque iterators: loop with unknown trip count, "havoc the modified state" abstraction
class LoopState(object):
    __slots__ = ('phase', 'snap', 'events', 'written')


def opaque_next(I, st, fr, t, a):
    """next() on an iterator we do not model. Protocol per loop (keyed by the iterator's storage cell):
       call 1: snapshot, return Some(fresh element)           [discovery pass]
       call 2: restore the snapshot with every cell written during the pass havocked, return Some(fresh element)
       call 3: havoc the written cells again, return None      [loop exit]"""
    r = a[0]
    ty = ret_ty(I, fr, t)
    if fr is not None and isinstance(r, Ref) and not _site_in_loop(I, fr, t):
        return straight_next(I, st, fr, t, a)
    key = ('loop', fr.id, t.get('at'), r.cell if isinstance(r, Ref) else None)
    ls = I.loops.get(key)
    elem_ty = None
    ti = I.tyinfo(ty) if ty else None
    if ti and ti['k'] == 'adt' and len(ti['variants']) == 2 and ti['variants'][1]['fields']:
        elem_ty = ti['variants'][1]['fields'][0]
    name = 'it%d' % next(I.frame_counter)

    def elem():
        return some(I.fresh_value(name, elem_ty), ty or OPT)
    if ls is None:
        ls = LoopState()
        ls.phase = 1
        ls.snap = dict(st.store)
        ls.events = (dict(I.asserts_ok), dict(I.asserts_bad), dict(I.panics))
        I.loops[key] = ls
        return elem(), st
    if ls.phase == 1:
        written = [c for c, v in st.store.items() if c in ls.snap and ls.snap[c] is not v and not _same(ls.snap[c], v)]
        ls.written = written
        store = dict(ls.snap)
        for c in written:
            store[c] = I.havoc(ls.snap[c], 'loop')
        st.store.clear()
        st.store.update(store)
        I.asserts_ok.clear(); I.asserts_ok.update(ls.events[0])
        I.asserts_bad.clear(); I.asserts_bad.update(ls.events[1])
        I.panics.clear(); I.panics.update(ls.events[2])
        ls.phase = 2
        return elem(), st
    # phase 2 -> exit
    for c in ls.written:
        if c in st.store:
            st.store[c] = I.havoc(st.store[c], 'loop-exit')
    del I.loops[key]
    return none(ty or OPT), st


def _same(a, b):
    try:
        return a == b
    except Exception:
        return False


def next_dispatch(I, st, fr, t, a):
    r = a[0]
    it = I.read_at(st, r.cell, r.path) if isinstance(r, Ref) else r
    if isinstance(it, Struct) and it.ty == '$SliceIter':
        return slice_next(I, st, fr, t, a)
    if isinstance(it, Struct) and it.ty == '$Range':
        return range_next(I, st, fr, t, a)
    return opaque_next(I, st, fr, t, a)


PREFIX.append(('<std::iter::Enumerate<I> as std::iter::Iterator>::next', next_dispatch))
PREFIX.append(('<std::iter::Map<I, F> as std::iter::Iterator>::next', next_dispatch))
PREFIX.append(('<std::iter::Filter<I, P> as std::iter::Iterator>::next', next_dispatch))
PREFIX.append(('<std::str::Chars<', next_dispatch))
PREFIX.append(('<std::str::Split<', next_dispatch))
TABLE["<std::slice::Iter<'a, T> as std::iter::Iterator>::next"] = next_dispatch
TABLE['<std::vec::IntoIter<T, A> as std::iter::Iterator>::next'] = next_dispatch


# ---- opaque containers
_old_slice_iter = TABLE['core::slice::<impl [T]>::iter']


def slice_iter2(I, st, fr, t, a):
    v = I.deref(st, a[0])
    if isinstance(v, Seq):
        return _old_slice_iter(I, st, fr, t, a)
    return Tok('iter%d' % next(I.frame_counter), ret_ty(I, fr, t)), st


TABLE['core::slice::<impl [T]>::iter'] = slice_iter2

_old_collect = TABLE['std::iter::Iterator::collect']


def collect2(I, st, fr, t, a):
    it = a[0]
    if isinstance(it, Struct) and it.ty in ('$SliceIter', '$Map', '$Filter', '$Cloned', '$FilterMap', '$Enumerate', '$StepBy', '$Skip', '$Take', '$Rev',
                                            '$Chain', '$Zip', '$TakeWhile', '$SkipWhile') \
            or (isinstance(it, Struct) and not it.ty.startswith(('$', 'std::', 'core::', 'closure:', 'tuple'))):     # or a local iterator type
        try:
            return _old_collect(I, st, fr, t, a)
        except Exception:
            pass
    return Tok('coll%d' % next(I.frame_counter), ret_ty(I, fr, t)), st


TABLE['std::iter::Iterator::collect'] = collect2


def lazy_adapter(kind):
    def h(I, st, fr, t, a):
        it = a[0]
        if isinstance(it, Struct) and it.ty not in ('$Range', '$Split'):
            return Struct(kind, tuple(a)), st
        return Tok('%s%d' % (kind, next(I.frame_counter)), ret_ty(I, fr, t)), st
    return h


TABLE['std::iter::Iterator::map'] = lazy_adapter('$Map')
TABLE['std::iter::Iterator::filter'] = lazy_adapter('$Filter')
TABLE['std::iter::Iterator::enumerate'] = lazy_adapter('$Enumerate')
TABLE['std::iter::Iterator::cloned'] = lazy_adapter('$Cloned')

_old_len = TABLE['std::vec::Vec::<T, A>::len']


def len2(I, st, fr, t, a):
    v = I.deref(st, a[0])
    if isinstance(v, Seq):
        return _old_len(I, st, fr, t, a)
    return Term('len', (v,), 64, 0, (1 << 63) - 1), st


TABLE['std::vec::Vec::<T, A>::len'] = len2
TABLE['core::slice::<impl [T]>::len'] = len2

_old_index = TABLE['<std::vec::Vec<T, A> as std::ops::Index<I>>::index']


def index2(I, st, fr, t, a):
    r = a[0]
    v = I.deref(st, r)
    idx = a[1]
    if isinstance(v, Seq):
        return _old_index(I, st, fr, t, a)
    ln = Term('len', (v,), 64, 0, (1 << 63) - 1)
    I.cur_pc = st.pc
    lo, hi = I.rng(ln)
    ty = ret_ty(I, fr, t)
    if isinstance(idx, Struct) and idx.ty.endswith('RangeTo<usize>') or (isinstance(idx, Struct) and 'Range' in idx.ty):
        # slice by range: end (and start) must not exceed len
        bounds = [x for x in idx.fields if isinstance(x, (BV, Term))]
        ok = all(I.rng(x) is not None and I.rng(x)[1] <= lo for x in bounds)
        visit(I, fr, t, ok, 'range %r of a vector with len in [%d,%d]' % (idx, lo, hi))
        return I.fresh_value('slice%d' % next(I.frame_counter), ty), st
    ri = I.rng(idx)
    ok = ri is not None and ri[1] < lo
    visit(I, fr, t, ok, 'index %r of a vector with len in [%d,%d]' % (idx, lo, hi))
    return I.fresh_value('elem%d' % next(I.frame_counter), ty), st


TABLE['<std::vec::Vec<T, A> as std::ops::Index<I>>::index'] = index2
PREFIX.insert(0, ('core::slice::index::<impl std::ops::Index<I> for [T]>::index', index2))


def str_index(I, st, fr, t, a):
    # byte-range slicing of a str panics off char boundaries / out of range: never dischargeable for unknown text
    visit(I, fr, t, False, 'str sliced by byte range %r' % (a[1],))
    return I.fresh_value('strslice%d' % next(I.frame_counter), ret_ty(I, fr, t)), st


PREFIX.insert(0, ('core::str::traits::<impl std::ops::Index<I> for str>::index', str_index))


@summary('core::slice::<impl [T]>::first')
def slice_first(I, st, fr, t, a):
    v = I.deref(st, a[0])
    ty = ret_ty(I, fr, t)
    if isinstance(v, Seq) and v.concrete():
        if v.items:
            return some(Ref(a[0].cell, a[0].path + (('idx', BV.const(0, 64)),)), ty), st
        return none(ty), st
    return I.fresh_value('first%d' % next(I.frame_counter), ty), st


# ---- Range / RangeInclusive
@summary('std::ops::RangeInclusive::<Idx>::new')
def rangeincl_new(I, st, fr, t, a):
    return Struct('$RangeIncl', (a[0], a[1])), st


@summary('std::ops::RangeInclusive::<Idx>::contains')
def rangeincl_contains(I, st, fr, t, a):
    rg = I.deref(st, a[0])
    x = I.deref(st, a[1])
    if isinstance(rg, Struct) and rg.ty == '$RangeIncl' and all(isinstance(b_, BV) and b_.known() for b_ in rg.fields):
        lo, hi = rg.fields[0].uval(), rg.fields[1].uval()
        I.cur_pc = st.pc
        rx = I.rng(x)
        if rx and rx[0] >= lo and rx[1] <= hi:
            return TRUE, st
        if rx and (rx[1] < lo or rx[0] > hi):
            return FALSE, st
        at = B.atom('inrange', (x, lo, hi), payload=(x, lo, hi))
        return boolv(B.atom_bit(at)), st
    return boolv(B.atom_bit(B.atom('tokbool', 'contains%d' % next(I.frame_counter)))), st


def range_next(I, st, fr, t, a):
    r = a[0]
    it = I.read_at(st, r.cell, r.path)
    lo, hi = it.fields
    ty = ret_ty(I, fr, t) or OPT
    if isinstance(lo, BV) and lo.known() and isinstance(hi, BV) and hi.known():
        if lo.uval() < hi.uval():
            st.store[r.cell] = I.update(st.store[r.cell], r.path, Struct('$Range', (BV.const(lo.uval() + 1, lo.w), hi)))
            return some(lo, ty), st
        return none(ty), st
    return opaque_next(I, st, fr, t, a)


TABLE['std::iter::range::<impl std::iter::Iterator for std::ops::Range<A>>::next'] = range_next


# ---- Result / Try
@summary('<std::result::Result<T, E> as std::ops::Try>::branch')
def try_branch(I, st, fr, t, a):
    ty = ret_ty(I, fr, t) or 'std::ops::ControlFlow'

    def conv(v):
        if isinstance(v, Enum):
            if v.var == 0:
                return Enum(ty, 0, (v.fields[0],))          # Continue(val)
            return Enum(ty, 1, (Enum('std::result::Result', 1, (v.fields[0],)),))   # Break(Err(e))
        if isinstance(v, Ite):
            return Ite(v.c, conv(v.a), conv(v.b))
        raise from_undecided()('Try::branch on %r' % (v,))
    v = a[0]
    if isinstance(v, Tok):
        v = I.fresh_value(v.name, v.ty)
    return conv(v), st


@summary('<std::result::Result<T, F> as std::ops::FromResidual<std::result::Result<std::convert::Infallible, E>>>::from_residual')
def from_residual(I, st, fr, t, a):
    ty = ret_ty(I, fr, t) or 'std::result::Result'
    v = a[0]

    def conv(x):
        if isinstance(x, Enum):
            return Enum(ty, 1, (Top('converted error'),))
        if isinstance(x, Ite):
            return Ite(x.c, conv(x.a), conv(x.b))
        return Enum(ty, 1, (Top('converted error'),))
    return conv(v), st


@summary('<std::option::Option<T> as std::ops::Try>::branch')
def opt_try_branch(I, st, fr, t, a):
    ty = ret_ty(I, fr, t) or 'std::ops::ControlFlow'

    def conv(v):
        if isinstance(v, Enum):
            if v.var == 1:
                return Enum(ty, 0, (v.fields[0],))          # Continue(val)
            return Enum(ty, 1, (Enum(OPT, 0),))            # Break(None)
        if isinstance(v, Ite):
            return Ite(v.c, conv(v.a), conv(v.b))
        raise from_undecided()('Try::branch on %r' % (v,))
    v = a[0]
    if isinstance(v, Tok):
        v = I.fresh_value(v.name, v.ty)
    return conv(v), st


@summary('<std::option::Option<T> as std::ops::FromResidual<std::option::Option<std::convert::Infallible>>>::from_residual')
def opt_from_residual(I, st, fr, t, a):
    return none(ret_ty(I, fr, t) or OPT), st


def fmt_write(I, st, fr, t, a):
    ty = ret_ty(I, fr, t) or 'std::result::Result'
    at = B.atom('tokbool', 'fmt-err%d' % next(I.frame_counter))
    return Ite(B.atom_bit(at), Enum(ty, 1, (Tok('fmt::Error'),)), Enum(ty, 0, (UNIT,))), st


for _n in ("std::fmt::Formatter::<'a>::write_fmt", "std::fmt::Formatter::<'a>::write_str"):
    TABLE[_n] = fmt_write


# ---- parse dispatches into the local FromStr impl
def str_parse(I, st, fr, t, a):
    res = t.get('res') or {}
    args = res.get('args', '')
    target = args.strip('[]').split(',')[0].strip()
    cand = '<%s as std::str::FromStr>::from_str' % target
    if cand in I.fns:
        return I.call_local(cand, [a[0]], st)
    return typed_opaque(I, st, fr, t, a)


TABLE['core::str::<impl str>::parse'] = str_parse


# ---- regex: contract table (DESIGN 3.B). The pattern is a source constant; these are facts about the regex crate.
def regex_new(I, st, fr, t, a):
    pat = I.deref(st, a[0])
    text = pat.fields[0] if isinstance(pat, Struct) and pat.ty == '$str' else None
    ty = ret_ty(I, fr, t) or 'std::result::Result'
    I.regex_patterns.append((fr.fname, t.get('at'), text))
    if text is not None and regex_pattern_ok(text):
        # a constant pattern from the supported fragment always compiles
        return Enum(ty, 0, (Struct('$Regex', (text,)),)), st
    return I.fresh_value('regex%d' % next(I.frame_counter), ty), st


def regex_pattern_ok(p):
    """The constant pattern is inside the fragment read by analysis/regex_lite.py (so it compiles in the regex crate too)."""
    from . import regex_lite
    try:
        regex_lite.compile(p)
        return True
    except regex_lite.Unsupported:
        return False
    except Exception:
        return False


def mandatory_groups(p):
    """Indices of capture groups that participate in every match: top-level groups not followed by ? or * and with no
    top-level alternation in the pattern."""
    out = set()
    depth = 0
    idx = 0
    stack = []
    i = 0
    in_class = False
    top_alt = False
    while i < len(p):
        c = p[i]
        if c == '\\':
            i += 2
            continue
        if in_class:
            if c == ']':
                in_class = False
        elif c == '[':
            in_class = True
        elif c == '(':
            idx += 1
            stack.append((idx, depth))
            depth += 1
        elif c == ')':
            depth -= 1
            g, d0 = stack.pop()
            nxt = p[i + 1] if i + 1 < len(p) else ''
            if d0 == 0 and nxt not in ('?', '*', '{'):
                out.add(g)
        elif c == '|' and depth == 0:
            top_alt = True
        i += 1
    return set() if top_alt else out


def regex_captures(I, st, fr, t, a):
    rx = I.deref(st, a[0])
    ty = ret_ty(I, fr, t) or OPT
    at = B.atom('tokbool', 'regex-match%d' % next(I.frame_counter))
    text = rx.fields[0] if isinstance(rx, Struct) and rx.ty == '$Regex' else None
    return Ite(B.atom_bit(at), some(Struct('$Captures', (text,)), ty), none(ty)), st


def captures_get(I, st, fr, t, a):
    cap = I.deref(st, a[0])
    ty = ret_ty(I, fr, t) or OPT
    k = a[1]
    I.ev('captures-get', fr.fname if fr else None, t.get('at'), k.uval() if isinstance(k, BV) and k.known() else None)
    if isinstance(cap, Struct) and cap.ty == '$Captures' and cap.fields[0] is not None and isinstance(k, BV) and k.known():
        if k.uval() == 0 or k.uval() in mandatory_groups(cap.fields[0]):
            return some(Tok('match%d' % next(I.frame_counter), None), ty), st
    return I.fresh_value('capget%d' % next(I.frame_counter), ty), st


TABLE['regex::Regex::new'] = regex_new
TABLE['regex::Regex::captures'] = regex_captures
TABLE["regex::Captures::<'t>::get"] = captures_get


# str::split yields at least one item, so `.find(|_| true)` on it is Some (contract)
def str_split(I, st, fr, t, a):
    return Struct('$Split', (a[0],)), st


def iter_find(I, st, fr, t, a):
    it = a[0]
    it = I.deref(st, it) if isinstance(it, Ref) else it
    ty = ret_ty(I, fr, t) or OPT
    clo = a[1]
    if isinstance(it, Struct) and it.ty == '$Split':
        # first item exists; is the predicate constantly true?
        elem = I.fresh_value('split-first%d' % next(I.frame_counter), _payload_ty(I, ty))
        cell = ('static', 'findarg%d' % next(I.frame_counter))
        st.store[cell] = elem
        r, st = I.call_closure(st, clo, [Ref(cell)])
        if isinstance(r, BV) and r.bits[0] is C1:
            return some(elem, ty), st
    return I.fresh_value('find%d' % next(I.frame_counter), ty), st


def _payload_ty(I, ty):
    ti = I.tyinfo(ty) if ty else None
    if ti and ti['k'] == 'adt' and len(ti['variants']) == 2 and ti['variants'][1]['fields']:
        return ti['variants'][1]['fields'][0]
    return None


TABLE['core::str::<impl str>::split'] = str_split
TABLE['std::iter::Iterator::find'] = iter_find


# unwrap / expect record a visit so that the inventory can tell "discharged" from "never analysed"
_old_unwrap = TABLE['std::option::Option::<T>::unwrap']


def unwrap2(I, st, fr, t, a):
    before = len(I.panics)
    key = (fr.fname, t['at'], t['res']['path'])
    had = key in I.panics
    v = a[0]
    if isinstance(v, Tok):
        v = I.fresh_value(v.name, v.ty)
        a = [v] + list(a[1:])
    r, st2 = _old_unwrap(I, st, fr, t, a)
    if key not in I.panics:
        I.asserts_ok[key] = I.asserts_ok.get(key, 0) + 1
    return r, st2


TABLE['std::option::Option::<T>::unwrap'] = unwrap2
TABLE['std::option::Option::<T>::expect'] = unwrap2

_old_res_unwrap = TABLE['std::result::Result::<T, E>::unwrap']


def res_unwrap2(I, st, fr, t, a):
    key = (fr.fname, t['at'], t['res']['path'])
    v = a[0]

    def on(v, st):
        if isinstance(v, Enum):
            if v.var == 0:
                return v.fields[0], st
            I.panics.setdefault(key, st.pc)
            return BOTTOM, None
        if isinstance(v, Ite):
            from .mai import State
            r1, s1 = on(v.a, State(dict(st.store), st.pc + (v.c,)))
            r2, s2 = on(v.b, State(dict(st.store), st.pc + (B.bnot(v.c),)))
            if s1 is None:
                return r2, s2
            if s2 is None:
                return r1, s1
            return I.merge(v.c, r1, r2), I.merge_states(v.c, s1, s2, st.pc)
        I.panics.setdefault(key, st.pc)
        return Top('unwrap of unknown Result'), st
    if isinstance(v, Tok):
        v = I.fresh_value(v.name, v.ty)
    r, st2 = on(v, st)
    if key not in I.panics:
        I.asserts_ok[key] = I.asserts_ok.get(key, 0) + 1
    return r, st2


TABLE['std::result::Result::<T, E>::unwrap'] = res_unwrap2
TABLE['std::result::Result::<T, E>::expect'] = res_unwrap2


# ---- closure-driven iterator consumers over modelled iterators
def _items_for_consumer(I, st, it):
    items, st = drain(I, st, it)
    if not all(x[0] == 'elem' for x in items):
        raise from_undecided()('closure-driven iteration over symbolic items')
    return [x[1] for x in items], st


@summary('std::iter::Iterator::for_each')
def iter_for_each(I, st, fr, t, a):
    vals, st = _items_for_consumer(I, st, a[0])
    for v in vals:
        r, st = I.call_closure(st, a[1], [v])
        if st is None:
            return BOTTOM, None
    return UNIT, st


def _any_all(is_any):
    def h(I, st, fr, t, a):
        r0 = a[0]
        it = I.read_at(st, r0.cell, r0.path) if isinstance(r0, Ref) else r0
        items, st = drain(I, st, it)
        acc = C0 if is_any else C1
        before = dict(st.store)
        for item in items:
            pres = C1
            cur = item
            while cur[0] in ('cond', 'filtered'):
                pres = B.band(pres, cur[1])
                cur = cur[2]
            if cur[0] == 'bulk':
                # one symbolic element stands for every square of the bulk (present iff the bulk is non-empty)
                pres = B.band(pres, I.nonzero_bit(cur[1]))
                val = cur[2]
                by_ref = isinstance(it, Struct) and it.ty == '$SliceIter' and it.fields[2] != 'owned'
                if by_ref:
                    cell = ('static', 'anyelem:%d' % next(I.frame_counter))
                    st.store[cell] = val
                    val = Ref(cell)
            else:
                val = cur[1]
                if isinstance(it, Struct) and it.ty == '$SliceIter' and it.fields[2] != 'owned' and not isinstance(val, Ref):
                    cell = ('static', 'anyelem:%d' % next(I.frame_counter))
                    st.store[cell] = val
                    val = Ref(cell)
            r, st2 = I.call_closure(st, a[1], [val])
            if st2 is None:
                continue
            st = st2
            bit = r.bits[0]
            acc = B.bor(acc, B.band(pres, bit)) if is_any else B.band(acc, B.bor(B.bnot(pres), bit))
        changed = [c for c, v in st.store.items() if c in before and before[c] is not v and c[0] != 'static']
        if changed:
            raise from_undecided()('short-circuiting iterator predicate with side effects')
        return boolv(acc), st
    return h


TABLE['std::iter::Iterator::any'] = _any_all(True)
TABLE['std::iter::Iterator::all'] = _any_all(False)


@summary('std::iter::Iterator::fold')
def iter_fold(I, st, fr, t, a):
    items, st = drain(I, st, a[0])
    acc = a[1]
    for item in items:
        gate = C1
        cur = item
        while cur[0] in ('cond', 'filtered'):
            gate = B.band(gate, cur[1])
            cur = cur[2]
        if cur[0] == 'elem':
            r, st2 = I.call_closure(st, a[2], [acc, cur[1]])
            if st2 is None:
                if gate is C1:
                    return BOTTOM, None
                raise from_undecided()('fold closure diverges on a conditional item')
            acc = r if gate is C1 else I.merge(gate, r, acc)
            st = st2
            continue
        if cur[0] == 'bulk':
            # one symbolic iteration: the accumulator may only change by XOR-ing terms linear in the bulk index
            before = dict(st.store)
            r, st2 = I.call_closure(st, a[2], [acc, cur[2]])
            if st2 is None:
                raise from_undecided()('fold closure diverges on a bulk item')
            changed = [c for c, v in st2.store.items() if c in before and before[c] is not v and c[0] != 'static']
            if changed:
                raise from_undecided()('fold closure over a symbolic bulk has side effects')
            # a newtype around the hash value (`struct Key(u64)` with its own BitXor) is folded on the wrapped value
            wrap_ty = None
            if isinstance(acc, Struct) and isinstance(r, Struct) and acc.ty == r.ty and len(acc.fields) == 1 and len(r.fields) == 1 \
                    and not acc.ty.startswith('$'):
                wrap_ty = acc.ty
                acc, r = acc.fields[0], r.fields[0]
            hp, hn = I.as_hf(acc), I.as_hf(r)
            if hp is None or hn is None:
                raise from_undecided()('fold over a symbolic bulk: accumulator is not a hash form')
            delta = hn.xor(hp)
            bv = cur[1]
            out = []
            for sym, g in delta.terms:
                if sym[0] in ('SQ', 'PUSH', 'PULL') and isinstance(sym[2], Term) and sym[2].kind == 'sigma':
                    g2 = B.band(g, gate)
                    gated = bv if g2 is C1 else BV([B.band(g2, x) for x in bv.bits])
                    out.append(((sym[0] + 'B', sym[1], gated), C1))
                else:
                    raise from_undecided()('fold over a symbolic bulk: change not linear in the bulk index')
            acc = hp.xor(HF(out))
            if wrap_ty is not None:
                acc = Struct(wrap_ty, (acc,))
            st = st2
            continue
        raise from_undecided()('fold over item %r' % (cur[0],))
    return acc, st


@summary('std::option::Option::<T>::unwrap_or')
def opt_unwrap_or(I, st, fr, t, a):
    return opt_split(I, st, a[0], lambda s, x: (x, s), lambda s: (a[1], s))


@summary('std::option::Option::<T>::unwrap_or_else')
def opt_unwrap_or_else(I, st, fr, t, a):
    return opt_split(I, st, a[0], lambda s, x: (x, s), lambda s: I.call_closure(s, a[1], []))


@summary('std::option::Option::<T>::is_some_and')
def opt_is_some_and(I, st, fr, t, a):
    return opt_split(I, st, a[0], lambda s, x: I.call_closure(s, a[1], [x]), lambda s: (FALSE, s))


@summary('std::option::Option::<T>::filter')
def opt_filter(I, st, fr, t, a):
    ty = ret_ty(I, fr, t) or OPT

    def on_some(s, x):
        cell = ('static', 'optf:%d' % next(I.frame_counter))
        s.store[cell] = x
        r, s2 = I.call_closure(s, a[1], [Ref(cell)])
        return I.merge(r.bits[0], some(x, ty), none(ty)), s2
    return opt_split(I, st, a[0], on_some, lambda s: (none(ty), s))


@summary('std::option::Option::<T>::or')
def opt_or(I, st, fr, t, a):
    ty = ret_ty(I, fr, t) or OPT
    return opt_split(I, st, a[0], lambda s, x: (some(x, ty), s), lambda s: (a[1], s))


@summary('std::option::Option::<T>::ok_or', 'std::option::Option::<T>::ok_or_else')
def opt_ok_or(I, st, fr, t, a):
    ty = ret_ty(I, fr, t) or 'std::result::Result'
    return opt_split(I, st, a[0], lambda s, x: (Enum(ty, 0, (x,)), s), lambda s: (Enum(ty, 1, (Top('err'),)), s))


@summary('std::mem::swap', 'core::mem::swap')
def mem_swap(I, st, fr, t, a):
    x, y = a[0], a[1]
    vx, vy = I.read_at(st, x.cell, x.path), I.read_at(st, y.cell, y.path)
    st.store[x.cell] = I.update(st.store[x.cell], x.path, vy)
    st.store[y.cell] = I.update(st.store[y.cell], y.path, vx)
    return UNIT, st


@summary('std::mem::replace', 'core::mem::replace')
def mem_replace(I, st, fr, t, a):
    x = a[0]
    old = I.read_at(st, x.cell, x.path)
    st.store[x.cell] = I.update(st.store[x.cell], x.path, a[1])
    return old, st


@summary('std::mem::take', 'core::mem::take')
def mem_take(I, st, fr, t, a):
    x = a[0]
    old = I.read_at(st, x.cell, x.path)
    if isinstance(old, Enum) or isinstance(old, Ite):
        new = none(getattr(old, 'ty', OPT))
    elif isinstance(old, BV):
        new = BV.const(0, old.w)
    elif isinstance(old, Seq):
        new = Seq(())
    else:
        raise from_undecided()('mem::take of %r' % (old,))
    st.store[x.cell] = I.update(st.store[x.cell], x.path, new)
    return old, st


@summary('std::vec::Vec::<T, A>::extend_from_slice')
def vec_extend_from_slice(I, st, fr, t, a):
    r = a[0]
    v = I.read_at(st, r.cell, r.path)
    src = I.deref(st, a[1])
    if not (isinstance(v, Seq) and isinstance(src, Seq)):
        raise from_undecided()('extend_from_slice')
    st.store[r.cell] = I.update(st.store[r.cell], r.path, Seq(v.items + src.items))
    return UNIT, st


@summary('std::vec::Vec::<T, A>::append')
def vec_append(I, st, fr, t, a):
    r, o = a[0], a[1]
    v = I.read_at(st, r.cell, r.path)
    w = I.read_at(st, o.cell, o.path)
    if not (isinstance(v, Seq) and isinstance(w, Seq)):
        raise from_undecided()('Vec::append')
    st.store[r.cell] = I.update(st.store[r.cell], r.path, Seq(v.items + w.items))
    st.store[o.cell] = I.update(st.store[o.cell], o.path, Seq(()))
    return UNIT, st


@summary('core::slice::<impl [T]>::to_vec', 'std::slice::<impl [T]>::to_vec')
def slice_to_vec(I, st, fr, t, a):
    v = I.deref(st, a[0])
    return v, st


@summary('core::num::<impl u64>::wrapping_add', 'core::num::<impl usize>::wrapping_add', 'core::num::<impl usize>::saturating_add',
         'core::num::<impl u64>::saturating_add')
def wrapping_add(I, st, fr, t, a):
    return I.binop('Add', a[0], a[1]), st


@summary('std::char::methods::<impl char>::is_uppercase', 'core::char::methods::<impl char>::is_uppercase')
def char_is_uppercase(I, st, fr, t, a):
    v = a[0]
    if isinstance(v, Ref):
        v = I.deref(st, v)
    if isinstance(v, BV) and v.known():
        return (TRUE if chr(v.uval()).isupper() else FALSE), st
    return typed_opaque(I, st, fr, t, a)


def _wrapping(op):
    def h(I, st, fr, t, a):
        x, y = a[0], a[1]
        if isinstance(x, BV) and isinstance(y, BV) and x.known() and y.known():
            w = x.w
            v = {'add': x.uval() + y.uval(), 'sub': x.uval() - y.uval(), 'mul': x.uval() * y.uval()}[op]
            return BV.const(v & ((1 << w) - 1), w), st
        w = getattr(x, 'w', 64)
        return Term('wrapping', (op, x, y), w), st
    return h


for _ty in ('u8', 'u16', 'u32', 'u64', 'usize', 'u128', 'i32', 'i64'):
    for _op in ('add', 'sub', 'mul'):
        TABLE['core::num::<impl %s>::wrapping_%s' % (_ty, _op)] = _wrapping(_op)


@summary('core::num::<impl u64>::leading_zeros', 'core::num::<impl u32>::leading_zeros', 'core::num::<impl usize>::leading_zeros')
def leading_zeros(I, st, fr, t, a):
    v = a[0]
    if isinstance(v, BV) and v.known():
        x = v.uval()
        return BV.const(v.w - x.bit_length(), 32), st
    if isinstance(v, BV):
        top = next((i for i in range(v.w - 1, -1, -1) if v.bits[i] is not C0), None)
        if top is not None and v.bits[top] is C1:
            # the highest possibly-set bit is certainly set
            return BV.const(v.w - 1 - top, 32), st
    return Term('lz', (v,), 32, 0, getattr(v, 'w', 64)), st


@summary('core::num::<impl u64>::is_power_of_two')
def is_pow2(I, st, fr, t, a):
    v = a[0]
    if isinstance(v, BV) and v.known():
        x = v.uval()
        return (TRUE if x and not (x & (x - 1)) else FALSE), st
    return boolv(B.atom_bit(B.atom('pow2', repr(v), payload=v, deps=I.deps_of(v)))), st


# ---- byte views of integers
def _to_bytes(le):
    def h(I, st, fr, t, a):
        v = a[0]
        if not isinstance(v, BV):
            raise from_undecided()('to_bytes of %r' % (v,))
        chunks = [BV(v.bits[i:i + 8]) for i in range(0, v.w, 8)]
        if not le:
            chunks.reverse()
        return Seq([('elem', c) for c in chunks]), st
    return h


for _ty in ('u64', 'u32', 'u16', 'u128', 'usize'):
    TABLE['core::num::<impl %s>::to_le_bytes' % _ty] = _to_bytes(True)
    TABLE['core::num::<impl %s>::to_be_bytes' % _ty] = _to_bytes(False)
    TABLE['core::num::<impl %s>::to_ne_bytes' % _ty] = _to_bytes(True)


def _from_bytes(le):
    def h(I, st, fr, t, a):
        v = a[0]
        if not (isinstance(v, Seq) and v.concrete() and all(isinstance(x[1], BV) for x in v.items)):
            raise from_undecided()('from_bytes of %r' % (v,))
        chunks = [x[1] for x in v.items]
        if not le:
            chunks = list(reversed(chunks))
        out = ()
        for c in chunks:
            out += c.bits
        return BV(out), st
    return h


for _ty in ('u64', 'u32', 'u16', 'u128', 'usize'):
    TABLE['core::num::<impl %s>::from_le_bytes' % _ty] = _from_bytes(True)
    TABLE['core::num::<impl %s>::from_be_bytes' % _ty] = _from_bytes(False)


# ---- more lazy adapters over modelled iterators
TABLE['std::iter::Iterator::rev'] = lazy_adapter('$Rev')
TABLE['std::iter::Iterator::chain'] = lazy_adapter('$Chain')
TABLE['std::iter::Iterator::skip'] = lazy_adapter('$Skip')
TABLE['std::iter::Iterator::take'] = lazy_adapter('$Take')
TABLE['std::iter::Iterator::copied'] = lazy_adapter('$Cloned')

_old_drain = drain


def drain2(I, st, it):
    if isinstance(it, Struct) and it.ty == '$Rev':
        items, st = _mod.drain(I, st, it.fields[0])
        return list(reversed(items)), st
    if isinstance(it, Struct) and it.ty == '$Chain':
        a_, st = _mod.drain(I, st, it.fields[0])
        b_, st = _mod.drain(I, st, it.fields[1])
        return a_ + b_, st
    if isinstance(it, Struct) and it.ty in ('$Skip', '$Take'):
        items, st = _mod.drain(I, st, it.fields[0])
        n = it.fields[1]
        if not (isinstance(n, BV) and n.known()) or not all(x[0] == 'elem' for x in items):
            raise from_undecided()('skip/take with symbolic count or items')
        k = n.uval()
        return (items[k:] if it.ty == '$Skip' else items[:k]), st
    if isinstance(it, Struct) and it.ty in ('$Cloned', '$Map', '$Filter'):
        # re-implement the recursive cases on top of drain2 so that nested adapters compose
        inner = it.fields[0]
        if isinstance(inner, Struct) and inner.ty in ('$Rev', '$Chain', '$Skip', '$Take'):
            items, st = _mod.drain(I, st, inner)
            cell = ('static', 'drained:%d' % next(I.frame_counter))
            st.store[cell] = Seq(items)
            flat = Struct('$SliceIter', (Ref(cell), 0, 'owned'))
            return _old_drain(I, st, Struct(it.ty, (flat,) + tuple(it.fields[1:])))
    return _old_drain(I, st, it)


drain = drain2
import sys as _sys
_mod = _sys.modules[__name__]
_mod.drain = drain2


# ---- one-character strings (char::to_string) keep their provenance so that integer parsing of them is known canonical
_prev_to_string = None


def to_string2(I, st, fr, t, a):
    v = I.deref(st, a[0]) if isinstance(a[0], Ref) else a[0]
    if ((isinstance(v, Term) and v.w == 32 and v.hi <= 0x10FFFF) or (isinstance(v, BV) and v.w == 32 and v.known())) \
            and (t.get('res') or {}).get('args', '').strip('[]') == 'char':
        cell = ('static', 'charstr:%d' % next(I.frame_counter))
        I.static_cells[cell] = Struct('$charstr', (v,))
        st.store[cell] = I.static_cells[cell]
        return Struct('$String', (Ref(cell),)), st
    return typed_opaque(I, st, fr, t, a)


TABLE['<T as std::string::ToString>::to_string'] = to_string2


def string_deref2(I, st, fr, t, a):
    v = I.deref(st, a[0]) if isinstance(a[0], Ref) else a[0]
    if isinstance(v, Struct) and v.ty == '$String':
        return v.fields[0], st
    return typed_opaque(I, st, fr, t, a)


TABLE['<std::string::String as std::ops::Deref>::deref'] = string_deref2

_prev_parse = TABLE['core::str::<impl str>::parse']


def str_parse2(I, st, fr, t, a):
    target = (t.get('res') or {}).get('args', '').strip('[]').split(',')[0].strip()
    if target in ('usize', 'u8', 'u16', 'u32', 'u64', 'isize', 'i32', 'i64'):
        v = I.deref(st, a[0]) if isinstance(a[0], Ref) else a[0]
        one_char = isinstance(v, Struct) and v.ty == '$charstr'
        I.ev('int-parse', fr.fname if fr else None, t.get('at'), 'one-char' if one_char else 'unbounded')
        if one_char and getattr(I, 'precise_charparse', False) and target in ('usize', 'u8', 'u16', 'u32', 'u64'):
            # decimal parse of a one-character string: Ok(c - '0') exactly for the ten ASCII digits (the integer parser of std
            # accepts ASCII digits only; a lone '+' is an error)
            c = v.fields[0]
            ty = ret_ty(I, fr, t) or 'std::result::Result'
            w = {'usize': 64, 'u8': 8, 'u16': 16, 'u32': 32, 'u64': 64}[target]
            if isinstance(c, BV) and c.known():
                if 48 <= c.uval() <= 57:
                    return Enum(ty, 0, (BV.const(c.uval() - 48, w),)), st
                return Enum(ty, 1, (Tok('ParseIntError'),)), st
            at = B.atom('inrange', (c, 48, 57), payload=(c, 48, 57))
            val = Term('affine', (c, -48), w, 0, 9)
            return Ite(B.atom_bit(at), Enum(ty, 0, (val,)), Enum(ty, 1, (Tok('ParseIntError'),))), st
    return _prev_parse(I, st, fr, t, a)


TABLE['core::str::<impl str>::parse'] = str_parse2


# ---- chars() of a one-character string is that character
def str_chars(I, st, fr, t, a):
    v = I.deref(st, a[0]) if isinstance(a[0], Ref) else a[0]
    if isinstance(v, Struct) and v.ty == '$charstr':
        cell = ('static', 'chars:%d' % next(I.frame_counter))
        st.store[cell] = Seq([('elem', v.fields[0])])
        return Struct('$SliceIter', (Ref(cell), 0, 'owned')), st
    return typed_opaque(I, st, fr, t, a)


TABLE['core::str::<impl str>::chars'] = str_chars


@summary('std::result::Result::<T, E>::is_ok', 'std::result::Result::<T, E>::is_err')
def res_is_ok(I, st, fr, t, a):
    want_ok = (t.get('res') or {}).get('path', '').endswith('is_ok')
    v = I.deref(st, a[0]) if isinstance(a[0], Ref) else a[0]

    def conv(x):
        if isinstance(x, Ite):
            return I.merge(x.c, conv(x.a), conv(x.b))
        if isinstance(x, Enum):
            return TRUE if (x.var == 0) == want_ok else FALSE
        d = I.discr(x)
        bit = d.bits[0]          # 1 = Err
        return boolv(B.bnot(bit) if want_ok else bit)
    return conv(v), st


# ====================================================================================================================
# Structured text: a string whose characters are known constants or symbolic one-character placeholders (used by the
# print/parse layout rule: the printer's output skeleton is fed to the parser).  Struct('$text', (tuple of char values,))
# ====================================================================================================================
def text_value(chars):
    return Struct('$text', (tuple(chars),))


def _is_text(v):
    return isinstance(v, Struct) and v.ty == '$text'


def _char_eq(I, c, k):
    """decide character c == constant code k: True / False / None"""
    if isinstance(c, BV) and c.known():
        return c.uval() == k
    r = I.rng(c) if isinstance(c, (BV, Term)) else None
    if r and (k < r[0] or k > r[1]):
        return False
    return None


_prev_split = TABLE['core::str::<impl str>::split']


def str_split_text(I, st, fr, t, a):
    v = I.deref(st, a[0]) if isinstance(a[0], Ref) else a[0]
    sep = a[1] if len(a) > 1 else None
    if _is_text(v) and isinstance(sep, BV) and sep.known():
        segs, cur = [], []
        for c in v.fields[0]:
            d = _char_eq(I, c, sep.uval())
            if d is None:
                raise from_undecided()('split of a structured text at a character that may or may not be the separator')
            if d:
                segs.append(cur)
                cur = []
            else:
                cur.append(c)
        segs.append(cur)
        items = []
        for sg in segs:
            cell = ('static', 'seg:%d' % next(I.frame_counter))
            st.store[cell] = text_value(sg)
            items.append(('elem', Ref(cell)))
        cell = ('static', 'segs:%d' % next(I.frame_counter))
        st.store[cell] = Seq(items)
        return Struct('$SliceIter', (Ref(cell), 0, 'owned')), st
    return _prev_split(I, st, fr, t, a)


TABLE['core::str::<impl str>::split'] = str_split_text

_prev_chars = TABLE['core::str::<impl str>::chars']


def str_chars_text(I, st, fr, t, a):
    v = I.deref(st, a[0]) if isinstance(a[0], Ref) else a[0]
    if isinstance(v, Ref):
        v = I.deref(st, v)
    if _is_text(v):
        cell = ('static', 'chars:%d' % next(I.frame_counter))
        st.store[cell] = Seq([('elem', c) for c in v.fields[0]])
        return Struct('$SliceIter', (Ref(cell), 0, 'owned')), st
    return _prev_chars(I, st, fr, t, a)


TABLE['core::str::<impl str>::chars'] = str_chars_text


def _bottoms_in_slice(it):
    while isinstance(it, Struct) and it.ty in ('$Enumerate', '$Map', '$Filter', '$Cloned', '$Rev', '$Skip', '$Take', '$StepBy', '$TakeWhile', '$SkipWhile',
                                               '$FilterMap'):
        it = it.fields[0]
    return isinstance(it, Struct) and it.ty == '$SliceIter'


_drain_before_enum = drain


def drain3(I, st, it):
    if isinstance(it, Struct) and it.ty == '$Enumerate':
        items, st = _mod.drain(I, st, it.fields[0])
        out = []
        for k, x in enumerate(items):
            if x[0] != 'elem':
                raise from_undecided()('enumerate over a conditional or symbolic item (its index is not a constant)')
            out.append(('elem', Struct('tuple', (BV.const(k, 64), x[1]))))
        return out, st
    if isinstance(it, Struct) and it.ty in ('$Map', '$Filter', '$Cloned') and isinstance(it.fields[0], Struct) \
            and it.fields[0].ty == '$Enumerate':
        items, st = _mod.drain(I, st, it.fields[0])
        cell = ('static', 'drained:%d' % next(I.frame_counter))
        st.store[cell] = Seq(items)
        flat = Struct('$SliceIter', (Ref(cell), 0, 'owned'))
        return _drain_before_enum(I, st, Struct(it.ty, (flat,) + tuple(it.fields[1:])))
    return _drain_before_enum(I, st, it)


drain = drain3
_mod.drain = drain3

_prev_next_dispatch = next_dispatch


def next_dispatch2(I, st, fr, t, a):
    r = a[0]
    it = I.read_at(st, r.cell, r.path) if isinstance(r, Ref) else r
    if isinstance(it, Struct) and it.ty in ('$Enumerate', '$Map', '$Filter', '$Cloned', '$StepBy', '$Skip', '$Take', '$Rev', '$TakeWhile', '$SkipWhile') \
            and _bottoms_in_slice(it) and isinstance(r, Ref):
        # a lazy adapter chain over a concrete sequence: evaluate it once (the closures of these adapters are pure: they
        # receive the items only) and continue as a plain owned iterator
        try:
            items, st = drain(I, st, it)
        except Exception as e:
            if e.__class__.__name__ != 'Undecided':
                raise
            return _prev_next_dispatch(I, st, fr, t, a)
        cell = ('static', 'adapted:%d' % next(I.frame_counter))
        st.store[cell] = Seq(items)
        st.store[r.cell] = I.update(st.store[r.cell], r.path, Struct('$SliceIter', (Ref(cell), 0, 'owned')))
        return slice_next(I, st, fr, t, a)
    return _prev_next_dispatch(I, st, fr, t, a)


for _i, (_pre, _h) in enumerate(PREFIX):
    if _h is next_dispatch:
        PREFIX[_i] = (_pre, next_dispatch2)
for _k, _h in list(TABLE.items()):
    if _h is next_dispatch:
        TABLE[_k] = next_dispatch2

_prev_find = TABLE['std::iter::Iterator::find']


def iter_find2(I, st, fr, t, a):
    it = a[0]
    itv = I.deref(st, it) if isinstance(it, Ref) else it
    if isinstance(itv, Struct) and itv.ty == '$SliceIter' and _iter_is_concrete(I, st, itv):
        ty = ret_ty(I, fr, t) or OPT
        items, st = drain(I, st, itv)
        for x in items:
            if x[0] != 'elem':
                break
            cell = ('static', 'findarg%d' % next(I.frame_counter))
            st.store[cell] = x[1]
            r, st = I.call_closure(st, a[1], [Ref(cell)])
            if isinstance(r, BV) and r.bits[0] is C1:
                return some(x[1], ty), st
            if not (isinstance(r, BV) and r.bits[0] is C0):
                break
        else:
            return none(ty), st
    return _prev_find(I, st, fr, t, a)


def _iter_is_concrete(I, st, itv):
    try:
        seq = _iter_items(I, st, itv)
        return all(x[0] == 'elem' for x in seq.items)
    except Exception:
        return False


TABLE['std::iter::Iterator::find'] = iter_find2


def ref_rem(I, st, fr, t, a):
    x = I.deref(st, a[0]) if isinstance(a[0], Ref) else a[0]
    y = I.deref(st, a[1]) if isinstance(a[1], Ref) else a[1]
    if isinstance(x, BV) and isinstance(y, BV) and x.known() and y.known() and y.uval() != 0:
        return BV.const(x.uval() % y.uval(), x.w), st
    return typed_opaque(I, st, fr, t, a)


for _i, (_pre, _h) in enumerate(PREFIX):
    if _pre == '<&usize as std::ops::Rem<usize>>::rem':
        PREFIX[_i] = (_pre, ref_rem)


# ---- arithmetic / bit operators applied through references (`i % 2` with i: &usize in closure patterns)
def _ref_binop(op):
    def h(I, st, fr, t, a):
        x = I.deref(st, a[0]) if isinstance(a[0], Ref) else a[0]
        y = I.deref(st, a[1]) if isinstance(a[1], Ref) else a[1]
        if isinstance(x, (BV, Term)) and isinstance(y, (BV, Term)):
            if op in ('Rem', 'Div') and not (isinstance(y, BV) and y.known() and y.uval() != 0):
                return typed_opaque(I, st, fr, t, a)
            if isinstance(x, BV) and isinstance(y, BV) and x.known() and y.known() and op in ('Rem', 'Div'):
                return BV.const(x.uval() % y.uval() if op == 'Rem' else x.uval() // y.uval(), x.w), st
            return I.binop(op, x, y), st
        return typed_opaque(I, st, fr, t, a)
    return h


for _ty in ('usize', 'u8', 'u16', 'u32', 'u64', 'i32', 'i64'):
    for _tr, _m, _op in (('Rem', 'rem', 'Rem'), ('Div', 'div', 'Div'), ('BitAnd', 'bitand', 'BitAnd'), ('BitOr', 'bitor', 'BitOr'),
                         ('BitXor', 'bitxor', 'BitXor'), ('Add', 'add', 'Add'), ('Sub', 'sub', 'Sub'), ('Mul', 'mul', 'Mul')):
        for _l, _r in (('&' + _ty, _ty), ('&' + _ty, '&' + _ty), (_ty, '&' + _ty)):
            TABLE['<%s as std::ops::%s<%s>>::%s' % (_l, _tr, _r, _m)] = _ref_binop(_op)
PREFIX[:] = [(p_, h_) for (p_, h_) in PREFIX if p_ != '<&usize as std::ops::Rem<usize>>::rem']


# ---- calling a closure through the Fn traits (generic `impl Fn(..)` parameters)
@summary('std::ops::Fn::call', 'std::ops::FnMut::call_mut', 'std::ops::FnOnce::call_once')
def fn_trait_call(I, st, fr, t, a):
    f = a[0]
    args = a[1]
    if isinstance(args, Struct) and args.ty in ('tuple', '()'):
        argv = list(args.fields)
    elif args is UNIT:
        argv = []
    else:
        raise from_undecided()('call through Fn trait with arguments %r' % (args,))
    fv = I.deref(st, f) if isinstance(f, Ref) else f
    if isinstance(fv, Ref):
        fv = I.deref(st, fv)
    if isinstance(fv, FnItem) or (isinstance(fv, Struct) and fv.ty.startswith('closure:')):
        return I.call_closure(st, f if isinstance(f, Ref) and not isinstance(I.deref(st, f), Ref) else fv, argv)
    raise from_undecided()('call through Fn trait of an unknown callable %r' % (fv,))


def _checked(op):
    def h(I, st, fr, t, a):
        x, y = a[0], a[1]
        ty = ret_ty(I, fr, t) or OPT
        if isinstance(x, BV) and isinstance(y, BV) and x.known() and y.known():
            w = x.w
            v = x.uval() + y.uval() if op == 'add' else x.uval() - y.uval()
            if 0 <= v < (1 << w):
                return some(BV.const(v, w), ty), st
            return none(ty), st
        ovf = I.overflow_bit('Add' if op == 'add' else 'Sub', x, y)
        r = I.binop('Add' if op == 'add' else 'Sub', x, y)
        return I.merge(ovf, none(ty), some(r, ty)), st
    return h


for _ty in ('u8', 'u16', 'u32', 'u64', 'usize'):
    TABLE['core::num::<impl %s>::checked_sub' % _ty] = _checked('sub')
    TABLE['core::num::<impl %s>::checked_add' % _ty] = _checked('add')


@summary('std::iter::once')
def iter_once(I, st, fr, t, a):
    cell = ('static', 'once:%d' % next(I.frame_counter))
    st.store[cell] = Seq([('elem', a[0])])
    return Struct('$SliceIter', (Ref(cell), 0, 'owned')), st


# ---- next() on an opaque iterator outside any loop: the k-th call yields the k-th item if there is one
def _site_in_loop(I, fr, t):
    body = fr.fn
    inner, loops = I.loopinfo(body)
    for bi, blk in enumerate(body['blocks']):
        if blk['term'] is t:
            return any(bi in bs for bs in loops.values())
    return True


def straight_next(I, st, fr, t, a):
    r = a[0]
    ty = ret_ty(I, fr, t) or OPT
    cur = I.read_at(st, r.cell, r.path)
    if isinstance(cur, Struct) and cur.ty == '$OpaqueSeqIter':
        base, k = cur.fields
    else:
        base, k = 'it%d' % next(I.frame_counter), 0
    elem_ty = _payload_ty(I, ty)
    # "has more than k items": implied by "has more than k + 1 items"
    prev = B.atom('itemcount>', (base, k - 1)) if k > 0 else None
    at = B.atom('itemcount>', (base, k), M=[(('@', prev.id), True)] if prev is not None else ())
    if elem_ty == 'char':
        item = Term('tok', ('%s[%d]' % (base, k),), 32, 0, 0x10FFFF)
    else:
        item = I.fresh_value('%s[%d]' % (base, k), elem_ty)
    st.store[r.cell] = I.update(st.store[r.cell], r.path, Struct('$OpaqueSeqIter', (base, k + 1)))
    return Ite(B.atom_bit(at), some(item, ty), none(ty)), st


# ---- slicing a concrete sequence by a constant range; collecting characters into a String
_index_before_ranges = TABLE['<std::vec::Vec<T, A> as std::ops::Index<I>>::index']


def index3(I, st, fr, t, a):
    r = a[0]
    v = I.deref(st, r)
    idx = a[1]
    if isinstance(v, Seq) and v.concrete() and isinstance(idx, Struct) and 'Range' in idx.ty:
        n = len(v.items)
        fs = [x for x in idx.fields]
        lo, hi = 0, n
        nm = idx.ty.split('<')[0].split('::')[-1]
        vals = [x.uval() if isinstance(x, BV) and x.known() else None for x in fs]
        if None not in vals:
            if nm == 'RangeTo':
                hi = vals[0]
            elif nm == 'RangeFrom':
                lo = vals[0]
            elif nm == 'Range':
                lo, hi = vals[0], vals[1]
            elif nm == 'RangeFull':
                pass
            elif nm == 'RangeToInclusive':
                hi = vals[0] + 1
            else:
                return _index_before_ranges(I, st, fr, t, a)
            key = (fr.fname, t['at'], t['res']['path'])
            if lo <= hi <= n:
                I.asserts_ok[key] = I.asserts_ok.get(key, 0) + 1
                cell = ('static', 'subslice:%d' % next(I.frame_counter))
                items = []
                for k in range(lo, hi):
                    it = v.items[k]
                    items.append(('elem', I.deref(st, it[1]) if isinstance(it[1], Ref) else it[1]))
                st.store[cell] = Seq(items)
                return Ref(cell), st
            I.asserts_bad.setdefault(key, 'range %d..%d of a sequence of %d' % (lo, hi, n))
            return BOTTOM, None
    return _index_before_ranges(I, st, fr, t, a)


TABLE['<std::vec::Vec<T, A> as std::ops::Index<I>>::index'] = index3
PREFIX[:] = [(p_, (index3 if h_ is index2 else h_)) for (p_, h_) in PREFIX]

_collect_before_string = TABLE['std::iter::Iterator::collect']


def collect3(I, st, fr, t, a):
    ty = ret_ty(I, fr, t) or ''
    it = a[0]
    if ty.startswith('std::string::String') and isinstance(it, Struct) and it.ty in ('$SliceIter', '$Map', '$Filter', '$Cloned'):
        try:
            items, st2 = drain(I, st, it)
        except Exception as e:
            if e.__class__.__name__ != 'Undecided':
                raise
            items = None
        if items is not None and all(x[0] == 'elem' for x in items):
            chars = [I.deref(st2, x[1]) if isinstance(x[1], Ref) else x[1] for x in items]
            if all(isinstance(c, (BV, Term)) for c in chars):
                cell = ('static', 'string:%d' % next(I.frame_counter))
                st2.store[cell] = text_value(chars)
                return Struct('$String', (Ref(cell),)), st2
    return _collect_before_string(I, st, fr, t, a)


TABLE['std::iter::Iterator::collect'] = collect3


@summary('std::option::Option::<T>::zip')
def opt_zip(I, st, fr, t, a):
    ty = ret_ty(I, fr, t) or OPT
    return opt_split(I, st, a[0], lambda s1, x: opt_split(I, s1, a[1], lambda s2, y: (some(Struct('tuple', (x, y)), ty), s2),
                                                           lambda s2: (none(ty), s2)),
                     lambda s1: (none(ty), s1))


# ---- slice.get(i): Some(&elem) iff i < len  (concrete sequences and the constant hash tables)
@summary('core::slice::<impl [T]>::get')
def slice_get(I, st, fr, t, a):
    ty = ret_ty(I, fr, t) or OPT
    v = I.deref(st, a[0]) if isinstance(a[0], Ref) else a[0]
    idx = a[1]

    def one(k):
        if isinstance(v, Struct) and v.ty == '$constarr':
            name, idxs = v.fields
            arr, dims = I.prog.const_u64_array(name)
            if dims is None or len(idxs) >= len(dims):
                raise from_undecided()('get on constant table %s' % name)
            if k < dims[len(idxs)]:
                cell = ('static', 'tblrow:%s:%s:%d' % (name, idxs, k))
                st.store[cell] = Struct('$constarr', (name, idxs + (k,)))
                return some(Ref(cell), ty)
            return none(ty)
        if isinstance(v, Seq) and v.concrete():
            if k < len(v.items):
                return some(Ref(a[0].cell, a[0].path + (('idx', BV.const(k, 64)),), False), ty) if isinstance(a[0], Ref) else some(v.items[k][1], ty)
            return none(ty)
        raise from_undecided()('slice::get on %r' % (v,))

    def go(i):
        if isinstance(i, Ite):
            return I.merge(i.c, go(i.a), go(i.b))
        if isinstance(i, BV) and i.known():
            return one(i.uval())
        if isinstance(i, BV):
            unk = [j for j, b in enumerate(i.bits) if b.kind != 'c']
            if len(unk) <= 3:
                base = sum(1 << j for j, b in enumerate(i.bits) if b is C1)
                out = None
                for m in range(1 << len(unk)):
                    val = base | sum((1 << unk[j]) for j in range(len(unk)) if (m >> j) & 1)
                    r = one(val)
                    out = r if out is None else I.merge(I.eq_const_bit(i, val), r, out)
                return out
        raise from_undecided()('slice::get with index %r' % (i,))
    return go(idx), st


# ---- flat_map over a concrete sequence: evaluate the closure per item and concatenate what it yields
def iter_flat_map(I, st, fr, t, a):
    it = a[0]
    if isinstance(it, Struct) and it.ty in ('$SliceIter', '$Map', '$Filter', '$Cloned', '$Enumerate'):
        items, st = drain(I, st, it)
        out = []
        for x in items:
            if x[0] != 'elem':
                raise from_undecided()('flat_map over a conditional item')
            sub, st = I.call_closure(st, a[1], [x[1]])
            if st is None:
                return BOTTOM, None
            sub_items, st = drain(I, st, sub)
            out.extend(sub_items)
        cell = ('static', 'flat:%d' % next(I.frame_counter))
        st.store[cell] = Seq(out)
        return Struct('$SliceIter', (Ref(cell), 0, 'owned')), st
    raise from_undecided()('flat_map over %r' % (it,))


TABLE['std::iter::Iterator::flat_map'] = iter_flat_map


# ---- constant strings keep their text through to_string / to_lowercase / to_uppercase; ASCII case mapping of constant chars
_to_string_before_lit = TABLE['<T as std::string::ToString>::to_string']


def _lit_string(I, st, text):
    cell = ('static', 'litstring:%d' % next(I.frame_counter))
    v = Struct('$str', (text,))
    I.static_cells[cell] = v
    st.store[cell] = v
    return Struct('$String', (Ref(cell),))


def to_string3(I, st, fr, t, a):
    v = I.deref(st, a[0]) if isinstance(a[0], Ref) else a[0]
    if isinstance(v, Ref):
        v = I.deref(st, v)
    if isinstance(v, Struct) and v.ty == '$str':
        return _lit_string(I, st, v.fields[0]), st
    return _to_string_before_lit(I, st, fr, t, a)


TABLE['<T as std::string::ToString>::to_string'] = to_string3


def _str_case(lower):
    def h(I, st, fr, t, a):
        v = I.deref(st, a[0]) if isinstance(a[0], Ref) else a[0]
        if isinstance(v, Ref):
            v = I.deref(st, v)
        if isinstance(v, Struct) and v.ty == '$String':
            v = I.deref(st, v.fields[0])
        if isinstance(v, Struct) and v.ty == '$str':
            return _lit_string(I, st, v.fields[0].lower() if lower else v.fields[0].upper()), st
        return typed_opaque(I, st, fr, t, a)
    return h


TABLE['std::str::<impl str>::to_lowercase'] = _str_case(True)
TABLE['std::str::<impl str>::to_uppercase'] = _str_case(False)


def _char_case(lower):
    def h(I, st, fr, t, a):
        v = I.deref(st, a[0]) if isinstance(a[0], Ref) else a[0]
        if isinstance(v, BV) and v.known() and v.w == 32:
            c = v.uval()
            if lower and 65 <= c <= 90:
                c += 32
            if not lower and 97 <= c <= 122:
                c -= 32
            return BV.const(c, 32), st
        if isinstance(v, Ite):
            return I.merge(v.c, h(I, st, fr, t, [v.a])[0], h(I, st, fr, t, [v.b])[0]), st
        if isinstance(v, BV) and v.w == 32:
            unk = [j for j, b in enumerate(v.bits) if b.kind != 'c']
            if len(unk) <= 7:
                # a character that is one of a few constants merged bit by bit: map every candidate value
                base = sum(1 << j for j, b in enumerate(v.bits) if b is C1)
                out = None
                for m in range(1 << len(unk)):
                    val = base | sum((1 << unk[j]) for j in range(len(unk)) if (m >> j) & 1)
                    r = h(I, st, fr, t, [BV.const(val, 32)])[0]
                    out = r if out is None else I.merge(I.eq_const_bit(v, val), r, out)
                return out, st
        if isinstance(v, Term) and v.w == 32:
            # an arbitrary character: shifted by 32 exactly inside the other case's ASCII range
            lo, hi = (65, 90) if lower else (97, 122)
            I.cur_pc = st.pc
            rx = I.rng(v)
            if rx and (rx[1] < lo or rx[0] > hi):
                return v, st
            bit = B.atom_bit(B.atom('inrange', (v, lo, hi), payload=(v, lo, hi)))
            saved = st.pc
            st.pc = saved + (bit,)
            try:
                moved = I.binop('Add' if lower else 'Sub', v, BV.const(32, 32), fr.fname if fr is not None else None, t.get('at'))
            finally:
                st.pc = saved
            return I.merge(bit, moved, v), st
        return typed_opaque(I, st, fr, t, a)
    return h


for _p in ('std::char::methods::<impl char>::to_ascii_lowercase', 'core::char::methods::<impl char>::to_ascii_lowercase'):
    TABLE[_p] = _char_case(True)
for _p in ('std::char::methods::<impl char>::to_ascii_uppercase', 'core::char::methods::<impl char>::to_ascii_uppercase'):
    TABLE[_p] = _char_case(False)


# ---- filter_map: the closure decides per item whether (and what) is yielded
TABLE['std::iter::Iterator::filter_map'] = lazy_adapter('$FilterMap')
_drain_before_filter_map = drain


def _option_leaves(I, v, cond=C1):
    """[(condition, payload or None)] of an abstract Option value"""
    if isinstance(v, Ite):
        return _option_leaves(I, v.a, B.band(cond, v.c)) + _option_leaves(I, v.b, B.band(cond, B.bnot(v.c)))
    if isinstance(v, Enum):
        return [(cond, v.fields[0] if v.var == 1 else None)]
    raise from_undecided()('filter_map closure returned %r' % (v,))


def drain4(I, st, it):
    if isinstance(it, Struct) and it.ty == '$FilterMap':
        items, st = _mod.drain(I, st, it.fields[0])
        out = []
        for x in items:
            gate = C1
            base = x
            while base[0] == 'cond':
                gate = B.band(gate, base[1])
                base = base[2]
            if base[0] != 'elem':
                raise from_undecided()('filter_map over a symbolic bulk item')
            r, st = I.call_closure(st, it.fields[1], [base[1]])
            if st is None:
                raise from_undecided()('filter_map closure diverges')
            for c, payload in _option_leaves(I, r):
                if payload is None:
                    continue
                y = I.cond_item(B.band(gate, c), ('elem', payload))
                if y is not None:
                    out.append(y)
        return out, st
    if isinstance(it, Struct) and it.ty in ('$Map', '$Filter', '$Cloned', '$Enumerate') and isinstance(it.fields[0], Struct) \
            and it.fields[0].ty == '$FilterMap':
        items, st = _mod.drain(I, st, it.fields[0])
        cell = ('static', 'drained:%d' % next(I.frame_counter))
        st.store[cell] = Seq(items)
        flat = Struct('$SliceIter', (Ref(cell), 0, 'owned'))
        return _drain_before_filter_map(I, st, Struct(it.ty, (flat,) + tuple(it.fields[1:])))
    return _drain_before_filter_map(I, st, it)


drain = drain4
_mod.drain = drain4


@summary('core::slice::<impl [T]>::chunks', 'core::slice::<impl [T]>::chunks_exact')
def slice_chunks(I, st, fr, t, a):
    v = I.deref(st, a[0]) if isinstance(a[0], Ref) else a[0]
    n = a[1]
    if isinstance(v, Seq) and all(x[0] == 'elem' for x in v.items) and isinstance(n, BV) and n.known() and n.uval() > 0:
        k = n.uval()
        items = []
        exact = (t.get('res') or {}).get('path', '').endswith('chunks_exact')
        for i in range(0, len(v.items), k):
            part = v.items[i:i + k]
            if exact and len(part) < k:
                break
            cell = ('static', 'chunk:%d' % next(I.frame_counter))
            st.store[cell] = Seq([('elem', I.deref(st, x[1]) if isinstance(x[1], Ref) else x[1]) for x in part])
            items.append(('elem', Ref(cell)))
        cell = ('static', 'chunks:%d' % next(I.frame_counter))
        st.store[cell] = Seq(items)
        key = (fr.fname, t['at'], (t.get('res') or {}).get('path', ''))       # chunk size is a non-zero constant: cannot panic
        I.asserts_ok[key] = I.asserts_ok.get(key, 0) + 1
        return Struct('$SliceIter', (Ref(cell), 0, 'owned')), st
    raise from_undecided()('chunks of %r' % (v,))


_into_iter_before = TABLE['<I as std::iter::IntoIterator>::into_iter']


def into_iter_ref(I, st, fr, t, a):
    v = a[0]
    if isinstance(v, Ref):
        tgt = I.deref(st, v)
        if isinstance(tgt, Seq):
            # `for x in &slice` / `for x in &vec`: a by-reference iterator over the sequence
            return Struct('$SliceIter', (v, 0, None)), st
    return _into_iter_before(I, st, fr, t, a)


TABLE['<I as std::iter::IntoIterator>::into_iter'] = into_iter_ref
for _k in ("<&'a [T] as std::iter::IntoIterator>::into_iter", "<&'a std::vec::Vec<T, A> as std::iter::IntoIterator>::into_iter",
           "<&[T] as std::iter::IntoIterator>::into_iter"):
    TABLE[_k] = into_iter_ref

for _k in ("core::slice::iter::<impl std::iter::IntoIterator for &'a [T]>::into_iter",
           "alloc::vec::<impl std::iter::IntoIterator for &'a std::vec::Vec<T, A>>::into_iter",
           "std::vec::<impl std::iter::IntoIterator for &'a std::vec::Vec<T, A>>::into_iter"):
    TABLE[_k] = into_iter_ref


# ---- char class predicates that are one closed range: the same 'inrange' predicate RangeInclusive::contains produces, so the
# range refinement on the taken branch and the notation decision tables treat both spellings alike
def _char_in_range(lo, hi):
    def h(I, st, fr, t, a):
        x = I.deref(st, a[0]) if isinstance(a[0], Ref) else a[0]
        if isinstance(x, BV) and x.known():
            return (TRUE if lo <= x.uval() <= hi else FALSE), st
        I.cur_pc = st.pc
        rx = I.rng(x)
        if rx and rx[0] >= lo and rx[1] <= hi:
            return TRUE, st
        if rx and (rx[1] < lo or rx[0] > hi):
            return FALSE, st
        return boolv(B.atom_bit(B.atom('inrange', (x, lo, hi), payload=(x, lo, hi)))), st
    return h


for _nm, _lo, _hi in (('is_ascii_digit', 48, 57), ('is_ascii_lowercase', 97, 122), ('is_ascii_uppercase', 65, 90),
                      ('is_ascii', 0, 127)):
    for _pre in ('core', 'std'):
        TABLE['%s::char::methods::<impl char>::%s' % (_pre, _nm)] = _char_in_range(_lo, _hi)

# arrays index like slices (`arr[i]`, `&arr[..n]` go through <[T; N] as Index<I>>::index)
for _p in ('std::array::<impl std::ops::Index<I> for [T; N]>::index', 'core::array::<impl std::ops::Index<I> for [T; N]>::index',
           'core::array::<impl core::ops::Index<I> for [T; N]>::index'):
    TABLE[_p] = index3


@summary('std::iter::Iterator::nth')
def iter_nth(I, st, fr, t, a):
    """`it.nth(n)` for a known n: over a filtered walk of the history list the result is Some exactly when the number of matching
    entries is >= n + 1 (the same count term and comparison `filter(..).count() >= n + 1` produces, so the repetition rules see one
    canonical "seen k times" predicate); over a sequence of known items it is the n-th item.  The iterator is dead afterwards."""
    r0 = a[0]
    it = I.read_at(st, r0.cell, r0.path) if isinstance(r0, Ref) else r0
    n = a[1]
    if not (isinstance(n, BV) and n.known()):
        raise from_undecided()('nth of a symbolic position')
    k = n.uval()
    if isinstance(it, Struct) and it.ty == '$Filter' and isinstance(it.fields[0], Struct) and it.fields[0].ty.startswith('linked_list::Iter'):
        cnt, st = filter_count(I, st, fr, t, [it])
        ge = I.binop('Ge', cnt, BV.const(k + 1, 64), fr.fname if fr is not None else None, t.get('at'))
        _consume(I, st, r0)
        elem = Ref(('static', 'histelem'))
        return I.merge(ge.bits[0], some(elem, ret_ty(I, fr, t) or OPT), none(ret_ty(I, fr, t) or OPT)), st
    items, st = drain(I, st, it)
    if all(x[0] == 'elem' for x in items):
        _consume(I, st, r0)
        ty = ret_ty(I, fr, t) or OPT
        return (some(items[k][1], ty) if k < len(items) else none(ty)), st
    raise from_undecided()('nth over conditional items')


def _consume(I, st, r0):
    """an iterator advanced by an amount this analysis does not track is dead: any later use is undecided"""
    if isinstance(r0, Ref):
        dead = Top('iterator consumed by nth')
        if r0.path:
            st.store[r0.cell] = I.update(st.store[r0.cell], r0.path, dead)
        else:
            st.store[r0.cell] = dead

# arrays by value: `for x in [a, b, c]` (items are moved out, like Vec::into_iter)
for _k in ('std::array::iter::<impl std::iter::IntoIterator for [T; N]>::into_iter',
           'core::array::iter::<impl std::iter::IntoIterator for [T; N]>::into_iter',
           'core::array::iter::<impl core::iter::IntoIterator for [T; N]>::into_iter'):
    TABLE[_k] = vec_into_iter
TABLE['<std::array::IntoIter<T, N> as std::iter::Iterator>::next'] = TABLE['<std::vec::IntoIter<T, A> as std::iter::Iterator>::next']
TABLE['<core::array::IntoIter<T, N> as std::iter::Iterator>::next'] = TABLE['<std::vec::IntoIter<T, A> as std::iter::Iterator>::next']


@summary('std::vec::Vec::<T, A>::clear')
def vec_clear(I, st, fr, t, a):
    r = a[0]
    v = I.read_at(st, r.cell, r.path)
    if not isinstance(v, Seq):
        raise from_undecided()('clear on %r' % (v,))
    st.store[r.cell] = I.update(st.store[r.cell], r.path, Seq(()))
    return UNIT, st


@summary('std::vec::Vec::<T, A>::truncate')
def vec_truncate(I, st, fr, t, a):
    r = a[0]
    v = I.read_at(st, r.cell, r.path)
    n = a[1]
    if isinstance(v, Seq) and v.concrete() and isinstance(n, BV) and n.known():
        st.store[r.cell] = I.update(st.store[r.cell], r.path, Seq(v.items[:n.uval()]))
        return UNIT, st
    if isinstance(v, Seq) and isinstance(n, BV) and n.known() and n.uval() == 0:
        st.store[r.cell] = I.update(st.store[r.cell], r.path, Seq(()))
        return UNIT, st
    raise from_undecided()('truncate on %r' % (v,))


@summary('core::slice::<impl [T]>::windows')
def slice_windows(I, st, fr, t, a):
    v = I.deref(st, a[0]) if isinstance(a[0], Ref) else a[0]
    n = a[1]
    if isinstance(v, Seq) and all(x[0] == 'elem' for x in v.items) and isinstance(n, BV) and n.known() and n.uval() > 0:
        k = n.uval()
        items = []
        for i in range(0, len(v.items) - k + 1):
            cell = ('static', 'window:%d' % next(I.frame_counter))
            st.store[cell] = Seq([('elem', I.deref(st, x[1]) if isinstance(x[1], Ref) else x[1]) for x in v.items[i:i + k]])
            items.append(('elem', Ref(cell)))
        cell = ('static', 'windows:%d' % next(I.frame_counter))
        st.store[cell] = Seq(items)
        key = (fr.fname, t['at'], (t.get('res') or {}).get('path', ''))       # window size is a non-zero constant: cannot panic
        I.asserts_ok[key] = I.asserts_ok.get(key, 0) + 1
        return Struct('$SliceIter', (Ref(cell), 0, 'owned')), st
    raise from_undecided()('windows of %r' % (v,))


# ---- zip / take_while / skip_while over sequences of known items
@summary('std::iter::Iterator::zip')
def iter_zip(I, st, fr, t, a):
    other = a[1]
    if isinstance(other, Ref) and isinstance(I.deref(st, other), Seq):
        other = Struct('$SliceIter', (other, 0, None))            # `zip(&slice)`: IntoIterator of a reference
    return Struct('$Zip', (a[0], other)), st


TABLE['std::iter::Iterator::take_while'] = lazy_adapter('$TakeWhile')
TABLE['std::iter::Iterator::skip_while'] = lazy_adapter('$SkipWhile')

_drain_before_zip = drain


def drain5(I, st, it):
    if isinstance(it, Struct) and it.ty == '$Zip':
        xs, st = _mod.drain(I, st, it.fields[0])
        ys, st = _mod.drain(I, st, it.fields[1])
        if not all(x[0] == 'elem' for x in xs) or not all(y[0] == 'elem' for y in ys):
            raise from_undecided()('zip over conditional items')
        return [('elem', Struct('tuple', (x[1], y[1]))) for x, y in zip(xs, ys)], st
    if isinstance(it, Struct) and it.ty in ('$TakeWhile', '$SkipWhile'):
        items, st = _mod.drain(I, st, it.fields[0])
        if not all(x[0] == 'elem' for x in items):
            raise from_undecided()('take_while over conditional items')
        out = []
        taking = it.ty == '$TakeWhile'
        for k, x in enumerate(items):
            cell = ('static', 'tw:%d' % next(I.frame_counter))
            st.store[cell] = x[1]
            r, st = I.call_closure(st, it.fields[1], [Ref(cell)])
            if not (isinstance(r, BV) and r.known()):
                raise from_undecided()('take_while / skip_while with a predicate that is not decided on a known item')
            if taking:
                if not r.uval():
                    break
                out.append(x)
            else:
                if not r.uval():
                    out = list(items[k:])
                    break
        return out, st
    if isinstance(it, Struct) and it.ty in ('$Map', '$Filter', '$Cloned', '$Enumerate', '$FilterMap', '$Rev', '$Skip', '$Take', '$Chain') \
            and any(isinstance(f, Struct) and f.ty in ('$Zip', '$TakeWhile', '$SkipWhile') for f in it.fields[:2]):
        fs = list(it.fields)
        for k in range(min(2, len(fs))):
            if isinstance(fs[k], Struct) and fs[k].ty in ('$Zip', '$TakeWhile', '$SkipWhile'):
                items, st = _mod.drain(I, st, fs[k])
                cell = ('static', 'drained:%d' % next(I.frame_counter))
                st.store[cell] = Seq(items)
                fs[k] = Struct('$SliceIter', (Ref(cell), 0, 'owned'))
        return _drain_before_zip(I, st, Struct(it.ty, fs))
    return _drain_before_zip(I, st, it)


drain = drain5
_mod.drain = drain5


# ---- a local iterator type over the set bits of a board (`struct SetSquares(u64)` with a hand-written `next`)
def bit_iterator_contract(I, ty):
    """'low' / 'high' when the local type `ty` (one u64 field, `impl Iterator<Item = Square>`) satisfies, decided from the MIR of
    its `next`: on state 0 it returns None; on every state whose lowest (highest) set bit is i - other bits symbolic - it returns
    Some(Square(i)) and leaves exactly the other bits.  Then iterating it yields the square of every set bit once, i.e. it is
    the same abstract sequence map_bit_board_to_squares stands for.  None when the type is not of that kind."""
    cache = I.__dict__.setdefault('_bititer', {})
    if ty in cache:
        return cache[ty]
    cache[ty] = None
    ti = I.types.get(ty)
    nextfn = '<%s as std::iter::Iterator>::next' % ty
    if not ti or ti.get('k') != 'adt' or ti.get('enum') or not ti.get('local') or nextfn not in I.fns:
        return None
    fields = ti['variants'][0]['fields']
    if len(fields) != 1 or fields[0] != 'u64':
        return None
    from .mai import State, Undecided

    def run(bits_):
        st = State({})
        cell = ('static', 'bititer:%d' % next(I.frame_counter))
        st.store[cell] = Struct(ty, (BV(bits_),))
        r, st2 = I.call_local(nextfn, [Ref(cell, (), True)], st)
        return r, (st2.store[cell] if st2 is not None else None)

    kinds = set()

    def family(low):
        kinds.clear()
        try:
            r, after = run([C0] * 64)
            if not (isinstance(r, Enum) and r.var == 0):
                return False
            for i in range(64):
                if low:
                    bits_ = [C0] * i + [C1] + [B.lit(('bititer', 'h%d' % j)) for j in range(i + 1, 64)]
                else:
                    bits_ = [B.lit(('bititer', 'h%d' % j)) for j in range(i)] + [C1] + [C0] * (63 - i)
                r, after = run(bits_)
                want = list(bits_)
                want[i] = C0
                if not (isinstance(r, Enum) and r.var == 1 and r.fields):
                    return False
                if r.fields[0] == Struct('square::Square', (BV.const(i, 8),)):
                    kinds.add('square')
                elif r.fields[0] == BV.const(1 << i, 64):
                    kinds.add('onehot')          # yields the bit itself (a one-square board)
                else:
                    return False
                if not (isinstance(after, Struct) and isinstance(after.fields[0], BV) and
                        all(x is y for x, y in zip(after.fields[0].bits, want))):
                    return False
            return True
        except Undecided:
            return False
    order = 'low' if family(True) else ('high' if family(False) else None)
    if order is not None and len(kinds) != 1:
        order = None
    cache[ty] = order
    I.__dict__.setdefault('_bititer_kind', {})[ty] = (next(iter(kinds)) if order else None)
    I.ev('bit-iterator', ty, None, cache[ty])
    return cache[ty]


_drain_before_bititer = drain


def drain6(I, st, it):
    if isinstance(it, Struct) and not it.ty.startswith(('$', 'std::', 'core::', 'closure:', 'tuple')) and len(it.fields) == 1 \
            and isinstance(it.fields[0], BV) and it.fields[0].w == 64 and bit_iterator_contract(I, it.ty):
        bv = it.fields[0]
        onehot = I._bititer_kind.get(it.ty) == 'onehot'
        if bv.known():
            order = range(64) if I._bititer[it.ty] == 'low' else range(63, -1, -1)
            return [('elem', BV.const(1 << i, 64) if onehot else Struct('square::Square', (BV.const(i, 8),)))
                    for i in order if (bv.uval() >> i) & 1], st
        if onehot:
            raise from_undecided()('the set bits of a symbolic board as one-square boards (only their squares have an abstract form)')
        return [('bulk', bv, Struct('square::Square', (SIGMA,)))], st
    if isinstance(it, Struct) and it.ty == '$Map' and isinstance(it.fields[0], Struct) and not it.fields[0].ty.startswith('$') \
            and len(it.fields[0].fields) == 1 and isinstance(it.fields[0].fields[0], BV) and not it.fields[0].fields[0].known() \
            and bit_iterator_contract(I, it.fields[0].ty) and I._bititer_kind.get(it.fields[0].ty) == 'onehot':
        # `bits(board).map(f)` over one-square boards: f is tabulated on the 64 constants; when f(1 << i) is Square(i) for every i
        # the result is the squares of the set bits
        for i in range(64):
            r, st = I.call_closure(st, it.fields[1], [BV.const(1 << i, 64)])
            if st is None or r != Struct('square::Square', (BV.const(i, 8),)):
                raise from_undecided()('a function mapped over the set bits of a symbolic board is not "the square of the bit"')
        return [('bulk', it.fields[0].fields[0], Struct('square::Square', (SIGMA,)))], st
    if isinstance(it, Struct) and it.ty in ('$Map', '$Filter', '$Cloned', '$Enumerate', '$FilterMap', '$Rev') and it.fields \
            and isinstance(it.fields[0], Struct) and not it.fields[0].ty.startswith('$') and len(it.fields[0].fields) == 1 \
            and isinstance(it.fields[0].fields[0], BV) and bit_iterator_contract(I, it.fields[0].ty):
        items, st = _mod.drain(I, st, it.fields[0])
        cell = ('static', 'drained:%d' % next(I.frame_counter))
        st.store[cell] = Seq(items)
        return _drain_before_bititer(I, st, Struct(it.ty, (Struct('$SliceIter', (Ref(cell), 0, 'owned')),) + tuple(it.fields[1:])))
    return _drain_before_bititer(I, st, it)


drain = drain6
_mod.drain = drain6


# ---- contract facts used by parsers written with `next()` / `step_by` / `caps[i]`
_straight_next_before_split = straight_next


def straight_next2(I, st, fr, t, a):
    r = a[0]
    cur = I.read_at(st, r.cell, r.path) if isinstance(r, Ref) else None
    if isinstance(cur, Struct) and cur.ty == '$Split':
        # str::split yields at least one item (contract): the first `next()` of a fresh Split is Some
        ty = ret_ty(I, fr, t) or OPT
        base = 'it%d' % next(I.frame_counter)
        item = I.fresh_value('%s[first]' % base, _payload_ty(I, ty))
        st.store[r.cell] = I.update(st.store[r.cell], r.path, Struct('$OpaqueSeqIter', (base, 0)))
        return some(item, ty), st
    return _straight_next_before_split(I, st, fr, t, a)


straight_next = straight_next2
_mod.straight_next = straight_next2


@summary('std::iter::Iterator::step_by')
def iter_step_by(I, st, fr, t, a):
    n = a[1]
    if isinstance(n, BV) and n.known() and n.uval() > 0 and fr is not None:
        key = (fr.fname, t['at'], (t.get('res') or {}).get('path', ''))        # step_by panics only for a step of 0
        I.asserts_ok[key] = I.asserts_ok.get(key, 0) + 1
    it = a[0]
    if isinstance(it, Struct) and it.ty in ('$SliceIter', '$Map', '$Filter', '$Cloned', '$Enumerate', '$Rev', '$Skip', '$Take', '$Chain', '$Zip') \
            and isinstance(n, BV) and n.known() and n.uval() > 0:
        return Struct('$StepBy', (it, n)), st
    return Tok('$StepBy%d' % next(I.frame_counter), ret_ty(I, fr, t)), st


_drain_before_stepby = drain


def drain7(I, st, it):
    if isinstance(it, Struct) and it.ty == '$StepBy':
        items, st = _mod.drain(I, st, it.fields[0])
        if not all(x[0] == 'elem' for x in items):
            raise from_undecided()('step_by over conditional items')
        return items[::it.fields[1].uval()], st
    return _drain_before_stepby(I, st, it)


drain = drain7
_mod.drain = drain7
PREFIX.append(('<std::iter::StepBy<I> as std::iter::Iterator>::next', next_dispatch))
PREFIX.append(('<std::iter::Skip<I> as std::iter::Iterator>::next', next_dispatch))


def captures_index(I, st, fr, t, a):
    """`caps[i]`: panics when group i did not take part in the match - never for group 0 and for groups that are not under
    `?`, `*` or an alternation (the same contract `caps.get(i).unwrap()` is discharged by)"""
    cap = I.deref(st, a[0])
    k = a[1]
    I.ev('captures-get', fr.fname if fr else None, t.get('at'), k.uval() if isinstance(k, BV) and k.known() else None)
    if isinstance(cap, Struct) and cap.ty == '$Captures' and cap.fields[0] is not None and isinstance(k, BV) and k.known() \
            and (k.uval() == 0 or k.uval() in mandatory_groups(cap.fields[0])) and fr is not None:
        key = (fr.fname, t['at'], (t.get('res') or {}).get('path', ''))
        I.asserts_ok[key] = I.asserts_ok.get(key, 0) + 1
    cell = ('static', 'capidx:%d' % next(I.frame_counter))
    st.store[cell] = Tok('match%d' % next(I.frame_counter), 'str')
    return Ref(cell), st


TABLE["<regex::Captures<'t> as std::ops::Index<usize>>::index"] = captures_index


# ---- stepping a filtered walk of the history list by hand: `let mut it = hist.iter().filter(p); it.next().is_some() && it.next().is_some()`
_straight_next_before_hist = straight_next


def straight_next3(I, st, fr, t, a):
    r = a[0]
    cur = I.read_at(st, r.cell, r.path) if isinstance(r, Ref) else None
    k = 0
    flt = cur
    if isinstance(cur, Struct) and cur.ty == '$FilterHist':
        flt, k = cur.fields
    if isinstance(flt, Struct) and flt.ty == '$Filter' and isinstance(flt.fields[0], Struct) and flt.fields[0].ty.startswith('linked_list::Iter'):
        # the (k+1)-th `next()` is Some exactly when at least k + 1 entries satisfy the predicate: the canonical count predicate
        ty = ret_ty(I, fr, t) or OPT
        cnt, st = filter_count(I, st, fr, t, [flt])
        ge = I.binop('Ge', cnt, BV.const(k + 1, 64), fr.fname if fr is not None else None, t.get('at'))
        st.store[r.cell] = I.update(st.store[r.cell], r.path, Struct('$FilterHist', (flt, k + 1)))
        return I.merge(ge.bits[0], some(Ref(('static', 'histelem')), ty), none(ty)), st
    return _straight_next_before_hist(I, st, fr, t, a)


straight_next = straight_next3
_mod.straight_next = straight_next3


@summary('std::iter::Iterator::count')
def iter_count(I, st, fr, t, a):
    """count of a capped filtered history walk (`filter(p).take(n).count()`) is min(#matches, n), built from the canonical
    "at least j matches" atoms so that `== n` is the same predicate as `filter(p).count() >= n`; otherwise the number of items"""
    it = a[0]
    if isinstance(it, Struct) and it.ty == '$Take' and isinstance(it.fields[1], BV) and it.fields[1].known() and it.fields[1].uval() <= 8 \
            and isinstance(it.fields[0], Struct) and it.fields[0].ty == '$Filter' and isinstance(it.fields[0].fields[0], Struct) \
            and it.fields[0].fields[0].ty.startswith('linked_list::Iter'):
        cnt, st = filter_count(I, st, fr, t, [it.fields[0]])
        v = BV.const(0, 64)
        for j in range(1, it.fields[1].uval() + 1):
            ge = I.binop('Ge', cnt, BV.const(j, 64), fr.fname if fr is not None else None, t.get('at'))
            v = I.merge(ge.bits[0], BV.const(j, 64), v)
        return v, st
    if isinstance(it, Struct) and it.ty == '$Filter':
        return filter_count(I, st, fr, t, a)
    items, st = drain(I, st, it)
    if all(x[0] == 'elem' for x in items):
        return BV.const(len(items), 64), st
    return Term('count', (Seq(items),), 64, 0, len(items)), st


@summary('core::bool::<impl bool>::then', 'std::bool::<impl bool>::then')
def bool_then(I, st, fr, t, a):
    """`cond.then(|| v)`: Some(v) under cond (the closure runs only then: it is evaluated under cond as path condition), else None"""
    c = a[0]
    ty = ret_ty(I, fr, t) or OPT
    if not isinstance(c, BV):
        raise from_undecided()('bool::then on %r' % (c,))
    bit = c.bits[0]
    d = I.decide(bit, st.pc)
    if d is False:
        return none(ty), st
    saved = st.pc
    st.pc = saved if d is True else saved + (bit,)
    try:
        v, st2 = I.call_closure(st, a[1], [])
    finally:
        st.pc = saved
    if st2 is None:
        return none(ty), st
    st2.pc = saved
    if d is True:
        return some(v, ty), st2
    return I.merge(bit, some(v, ty), none(ty)), st2


@summary('core::bool::<impl bool>::then_some', 'std::bool::<impl bool>::then_some')
def bool_then_some(I, st, fr, t, a):
    c = a[0]
    ty = ret_ty(I, fr, t) or OPT
    if not isinstance(c, BV):
        raise from_undecided()('bool::then_some on %r' % (c,))
    return I.merge(c.bits[0], some(a[1], ty), none(ty)), st


def _wrapping_neg(I, st, fr, t, a):
    """two's complement negation bit by bit (`(c as u64).wrapping_neg()` is the all-ones / all-zeros mask of a condition)"""
    x = a[0]
    if isinstance(x, BV):
        if x.known():
            return BV.const((-x.uval()) & ((1 << x.w) - 1), x.w), st
        out = []
        carry = C1
        for b_ in x.bits:
            nb = B.bnot(b_)
            out.append(B.bxor(nb, carry))
            carry = B.band(nb, carry)
        return BV(out, x.signed), st
    return Term('wrapping', ('neg', x), getattr(x, 'w', 64)), st


for _ty in ('u8', 'u16', 'u32', 'u64', 'usize', 'u128', 'i32', 'i64'):
    TABLE['core::num::<impl %s>::wrapping_neg' % _ty] = _wrapping_neg


_find_before_symbolic = TABLE['std::iter::Iterator::find']


def iter_find3(I, st, fr, t, a):
    """`find` over known items with a predicate that may be symbolic: the first item whose predicate holds -
    ite(p1, Some(x1), ite(p2, Some(x2), .. None)); each predicate is evaluated knowing the earlier ones failed"""
    it = a[0]
    itv = I.deref(st, it) if isinstance(it, Ref) else it
    if isinstance(itv, Struct) and itv.ty.startswith('$') and itv.ty not in ('$Split', '$OpaqueSeqIter', '$Range'):
        try:
            items, st1 = drain(I, st, itv)
        except Exception as e:
            if e.__class__.__name__ != 'Undecided':
                raise
            items = None
        if items is not None and all(x[0] == 'elem' for x in items) and len(items) <= 16:
            ty = ret_ty(I, fr, t) or OPT
            st = st1
            saved = st.pc
            leaves = []
            try:
                for x in items:
                    cell = ('static', 'findarg%d' % next(I.frame_counter))
                    st.store[cell] = x[1]
                    r, st2 = I.call_closure(st, a[1], [Ref(cell)])
                    if st2 is None or not isinstance(r, BV):
                        raise from_undecided()('find predicate on a known item is not a boolean')
                    st = st2
                    bit = r.bits[0]
                    d = I.decide(bit, st.pc)
                    if d is True:
                        leaves.append((C1, x[1]))
                        break
                    if d is False:
                        continue
                    leaves.append((bit, x[1]))
                    st.pc = st.pc + (B.bnot(bit),)
            finally:
                st.pc = saved
            out = none(ty)
            if leaves and leaves[-1][0] is C1:
                out = some(leaves[-1][1], ty)
                leaves = leaves[:-1]
            for bit, v in reversed(leaves):
                out = I.merge(bit, some(v, ty), out)
            return out, st
    return _find_before_symbolic(I, st, fr, t, a)


TABLE['std::iter::Iterator::find'] = iter_find3

# `for x in &[a, b]` / `for x in &ARRAY`: by-reference iteration over an array
for _k in ("std::array::<impl std::iter::IntoIterator for &'a [T; N]>::into_iter",
           "core::array::<impl std::iter::IntoIterator for &'a [T; N]>::into_iter",
           "core::array::<impl core::iter::IntoIterator for &'a [T; N]>::into_iter"):
    TABLE[_k] = into_iter_ref


_parse_before_local = TABLE['core::str::<impl str>::parse']


def str_parse3(I, st, fr, t, a):
    """`s.parse::<T>()` for a local T is T's own FromStr impl"""
    target = (t.get('res') or {}).get('args', '').strip('[]').split(',')[0].strip()
    k = '<%s as std::str::FromStr>::from_str' % target
    if k in I.fns:
        return I.call_local(k, [a[0]], st)
    return _parse_before_local(I, st, fr, t, a)


TABLE['core::str::<impl str>::parse'] = str_parse3


@summary('std::result::Result::<T, E>::ok', 'std::result::Result::<T, E>::err')
def res_ok(I, st, fr, t, a):
    """Result -> Option of one side, leaf by leaf (total: cannot panic)"""
    want_ok = (t.get('res') or {}).get('path', '').endswith('::ok')
    ty = ret_ty(I, fr, t) or OPT
    v = a[0]

    def conv(x):
        if isinstance(x, Ite):
            return I.merge(x.c, conv(x.a), conv(x.b))
        if isinstance(x, Enum):
            if (x.var == 0) == want_ok:
                return some(x.fields[0], ty) if x.fields else some(UNIT, ty)
            return none(ty)
        if isinstance(x, Tok):
            d = I.discr(x)
            bit = d.bits[0]          # 1 = Err
            keep = B.bnot(bit) if want_ok else bit
            return I.merge(keep, some(I.tok_field(x, 0, 0 if want_ok else 1), ty), none(ty))
        raise from_undecided()('Result::ok on %r' % (x,))
    return conv(v), st

# calls on a generic `impl Iterator` parameter stay unresolved in the generic body: dispatched on the value at hand
TABLE['std::iter::Iterator::next'] = next_dispatch2
TABLE['std::iter::IntoIterator::into_iter'] = TABLE['<I as std::iter::IntoIterator>::into_iter']


@summary('std::char::methods::<impl char>::to_digit', 'core::char::methods::<impl char>::to_digit')
def char_to_digit(I, st, fr, t, a):
    """`c.to_digit(r)` for a constant radix: panics only for r > 36; for r <= 10 it is Some(c - '0') exactly for the r ASCII digits
    below '0' + r (the same predicate and value a one-character decimal parse gives for r = 10)"""
    c = I.deref(st, a[0]) if isinstance(a[0], Ref) else a[0]
    r = a[1]
    ty = ret_ty(I, fr, t) or OPT
    if isinstance(r, BV) and r.known() and 2 <= r.uval() <= 36 and fr is not None:
        key = (fr.fname, t['at'], (t.get('res') or {}).get('path', ''))
        I.asserts_ok[key] = I.asserts_ok.get(key, 0) + 1
    if isinstance(r, BV) and r.known() and 2 <= r.uval() <= 10:
        hi = 48 + r.uval() - 1
        if isinstance(c, BV) and c.known():
            return (some(BV.const(c.uval() - 48, 32), ty) if 48 <= c.uval() <= hi else none(ty)), st
        I.cur_pc = st.pc
        at = B.atom('inrange', (c, 48, hi), payload=(c, 48, hi))
        bit = B.atom_bit(at)
        saved = st.pc
        st.pc = saved + (bit,)
        try:
            val = I.binop('Sub', c, BV.const(48, 32), fr.fname if fr is not None else None, t.get('at'))
        finally:
            st.pc = saved
        return I.merge(bit, some(val, ty), none(ty)), st
    return typed_opaque(I, st, fr, t, a)


@summary('std::iter::Iterator::position')
def iter_position(I, st, fr, t, a):
    """`position` over known items with a predicate that may be symbolic: ite(p0, Some(0), ite(p1, Some(1), .. None))"""
    it = a[0]
    itv = I.deref(st, it) if isinstance(it, Ref) else it
    items = None
    if isinstance(itv, Struct) and itv.ty.startswith('$') and itv.ty not in ('$Split', '$OpaqueSeqIter', '$Range'):
        try:
            items, st = drain(I, st, itv)
        except Exception as e:
            if e.__class__.__name__ != 'Undecided':
                raise
            items = None
    if items is None or not all(x[0] == 'elem' for x in items) or len(items) > 64:
        return typed_opaque(I, st, fr, t, a)
    ty = ret_ty(I, fr, t) or OPT
    saved = st.pc
    leaves = []
    try:
        for k, x in enumerate(items):
            r, st2 = I.call_closure(st, a[1], [x[1]])
            if st2 is None or not isinstance(r, BV):
                raise from_undecided()('position predicate on a known item is not a boolean')
            st = st2
            bit = r.bits[0]
            d = I.decide(bit, st.pc)
            if d is True:
                leaves.append((C1, k))
                break
            if d is False:
                continue
            leaves.append((bit, k))
            st.pc = st.pc + (B.bnot(bit),)
    finally:
        st.pc = saved
    out = none(ty)
    if leaves and leaves[-1][0] is C1:
        out = some(BV.const(leaves[-1][1], 64), ty)
        leaves = leaves[:-1]
    for bit, k in reversed(leaves):
        out = I.merge(bit, some(BV.const(k, 64), ty), out)
    return out, st


@summary('std::option::Option::<T>::map_or_else')
def opt_map_or_else(I, st, fr, t, a):
    return opt_split(I, st, a[0], lambda s, x: I.call_closure(s, a[2], [x]), lambda s: I.call_closure(s, a[1], []))


def _int_cmp(partial):
    def h(I, st, fr, t, a):
        """`a.cmp(&b)` / `partial_cmp` on integers: Less / Equal / Greater decided by the two comparisons"""
        x = I.deref(st, a[0]) if isinstance(a[0], Ref) else a[0]
        y = I.deref(st, a[1]) if isinstance(a[1], Ref) else a[1]
        if not (isinstance(x, (BV, Term, Ite)) and isinstance(y, (BV, Term, Ite))):
            return typed_opaque(I, st, fr, t, a)
        oty = 'std::cmp::Ordering'
        lt = I.binop('Lt', x, y, fr.fname if fr is not None else None, t.get('at'))
        eq = I.binop('Eq', x, y, fr.fname if fr is not None else None, t.get('at'))

        def bit_of(v):
            if isinstance(v, Ite):
                return B.bite(v.c, bit_of(v.a), bit_of(v.b))
            return v.bits[0]
        r = I.merge(bit_of(lt), Enum(oty, 0), I.merge(bit_of(eq), Enum(oty, 1), Enum(oty, 2)))
        if partial:
            return some(r, ret_ty(I, fr, t) or OPT), st
        return r, st
    return h


for _ty in ('u8', 'u16', 'u32', 'u64', 'usize', 'i8', 'i16', 'i32', 'i64', 'isize', 'char'):
    TABLE['core::cmp::impls::<impl std::cmp::Ord for %s>::cmp' % _ty] = _int_cmp(False)
    TABLE['core::cmp::impls::<impl std::cmp::PartialOrd for %s>::partial_cmp' % _ty] = _int_cmp(True)
    TABLE['std::cmp::impls::<impl std::cmp::Ord for %s>::cmp' % _ty] = _int_cmp(False)
    TABLE['std::cmp::impls::<impl std::cmp::PartialOrd for %s>::partial_cmp' % _ty] = _int_cmp(True)


@summary('std::array::<impl [T; N]>::map', 'core::array::<impl [T; N]>::map')
def array_map(I, st, fr, t, a):
    """`[a, b, c].map(f)` on an array of known items"""
    v = a[0]
    if isinstance(v, Ref):
        v = I.deref(st, v)
    if not (isinstance(v, Seq) and all(x[0] == 'elem' for x in v.items)):
        raise from_undecided()('array map on %r' % (v,))
    out = []
    for x in v.items:
        r, st = I.call_closure(st, a[1], [x[1]])
        if st is None:
            return BOTTOM, None
        out.append(('elem', r))
    return Seq(out), st


_into_iter_unresolved_before = TABLE['std::iter::IntoIterator::into_iter']


def into_iter_by_value(I, st, fr, t, a):
    """an unresolved `IntoIterator::into_iter` (inside a generic body): a local impl for the value's own type is used when there is one"""
    v = a[0]
    tgt = I.deref_all(st, v) if isinstance(v, Ref) else v
    ty = getattr(tgt, 'ty', None)
    if isinstance(tgt, Struct) and ty and not ty.startswith(('$', 'std::', 'core::', 'tuple', 'closure:')):
        base = ty.split('<')[0]
        byref = isinstance(v, Ref)
        for k in I.fns:
            if k.endswith('as std::iter::IntoIterator>::into_iter') and base + '<' in k.replace(base + ' ', base + '<') or \
                    (k.endswith('as std::iter::IntoIterator>::into_iter') and (' ' + base + ' as') in (' ' + k.lstrip('<').lstrip("&'a ").lstrip('&'))):
                if byref == k.startswith('<&'):
                    return I.call_local(k, [v], st)
    return _into_iter_unresolved_before(I, st, fr, t, a)


TABLE['std::iter::IntoIterator::into_iter'] = into_iter_by_value


# ---- ranges with known bounds are sequences of constants: `(1..=8).rev().enumerate()`, `(0..n).map(..)`
def _range_items(it):
    if isinstance(it, Struct) and it.ty in ('$Range', '$RangeIncl') and all(isinstance(x, BV) and x.known() for x in it.fields[:2]):
        lo, hi = it.fields[0].uval(), it.fields[1].uval()
        if it.ty == '$RangeIncl':
            hi += 1
        if 0 <= hi - lo <= 256:
            return [('elem', BV.const(k, it.fields[0].w)) for k in range(lo, hi)]
    return None


_lazy_before_ranges = {}
for _nm, _kind in (('std::iter::Iterator::rev', '$Rev'), ('std::iter::Iterator::map', '$Map'), ('std::iter::Iterator::filter', '$Filter'),
                   ('std::iter::Iterator::enumerate', '$Enumerate'), ('std::iter::Iterator::skip', '$Skip'),
                   ('std::iter::Iterator::take', '$Take'), ('std::iter::Iterator::zip', '$Zip'), ('std::iter::Iterator::step_by', '$StepBy'),
                   ('std::iter::Iterator::filter_map', '$FilterMap'), ('std::iter::Iterator::chain', '$Chain')):
    _lazy_before_ranges[_nm] = TABLE[_nm]


def _adapter_over_range(nm):
    prev = _lazy_before_ranges[nm]

    def h(I, st, fr, t, a):
        items = _range_items(a[0])
        if items is not None:
            # a range with constant bounds under an adapter: continue as an owned sequence of its values
            cell = ('static', 'range:%d' % next(I.frame_counter))
            st.store[cell] = Seq(items)
            a = [Struct('$SliceIter', (Ref(cell), 0, 'owned'))] + list(a[1:])
        return prev(I, st, fr, t, a)
    return h


for _nm in _lazy_before_ranges:
    TABLE[_nm] = _adapter_over_range(_nm)
