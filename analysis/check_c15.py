from . import rules_panic, rules_text, rules_hash, inputs


CONTROL_KEYS = ['PANIC-SITE/<ctl_parse::Num as std::str::FromStr>::from_str/std::result::Result::<T, E>::unwrap',
                'PANIC-SITE/<ctl_parse::Num as std::str::FromStr>::from_str/<std::vec::Vec<T, A> as std::ops::Index<I>>::index',
                'PANIC-SITE/<ctl_parse::Num as std::str::FromStr>::from_str/Overflow']


def controls(cprog, cfacts):
    """an unwrap on parsed input, an unchecked index and an unchecked subtraction must all be reported"""
    from . import core
    c = core.Ctx('C15', 'control', 'other')
    rules_panic.check_parsers(c, cprog, ['ctl_parse::Num'], 'C15')
    keys = [f['key'] for f in c.findings]
    return [k for k in CONTROL_KEYS if k not in keys]

def run(ctx, prog, facts, tier):
    PI, _sites = rules_panic.check_parsers(ctx, prog, ['engine::GameState'], 'C15')
    rules_text.check_diagram_tables(ctx, prog)
    rules_text.check_cell_table(ctx, prog, 'C15.2c')
    rules_text.check_side_letters(ctx, prog)
    rules_text.check_header(ctx, prog, PI)
    rules_text.check_parsed_board_consistent(ctx, prog, 'C15', full=(tier != 'quick'))
    rules_text.check_print_parse_layout(ctx, prog, 'C15')
    rules_hash.check_parser_start_state(ctx, prog)
    # "same transposition hash": the parser's from-scratch hash is the XOR over exactly the pieces on the board, i.e. the value the
    # incremental updates maintain (C08.2b-d); decided on from_piece_board itself
    rules_hash.check_from_piece_board(ctx, prog, inputs.make_interp(prog, fuel=5000000))
    ctx.floor('C15 parser panic site kinds (function, construct)', ctx.analysed.get('panic_site_kinds_parser', 0), 9)
    ctx.exhaustive = True
    ctx.assumptions += [
        'the board part of the round trip is decided by composition: the printed letter of (type, owner) is recorded as that '
        '(type, owner) (C15.pb c), the letter of square i is read into bit i only (C15.rt: the parser interpreted on the '
        'printer\'s own output skeleton), the header is matched and captured (C15.hdr), side letters agree (C15.2); '
        'NOT decided: equality of the re-printed text as a string (it follows from the above and determinism of Display)',
        'contract table: str::split yields at least one item; Regex::new of the constant pattern succeeds; capture groups not under '
        '?, * or | participate in every match; char::is_uppercase / to_string / fmt / anyhow do not panic',
        'loops over the input text are abstracted by havocking every location they modify (sound for any trip count)']
    return ('Panic-freedom of <GameState as FromStr>::from_str for an arbitrary opaque string by abstract interpretation with range '
            'refinement from dominating comparisons; letter tables of printer and parser extracted and compared; the parsed state '
            'is a start-of-turn state hashed with step 0.', ['factgen MIR export', 'std/regex contract table in analysis/summaries.py'])
