from . import rules_c20, core

CONTROL_KEYS = ['DROP-CYCLE/drop_cycle::Chain/glue-entry', 'DROP-CYCLE/drop_cycle::LazyDrop/glue-entry',
                'RECURSION/drop_cycle::depth/local-scc']
CONTROL_PREFIX = ['DROP-CYCLE/<drop_cycle::BadDrop as std::ops::Drop>::drop/body-entry:']


def controls(cprog, cfacts):
    c = core.Ctx('C20', 'control', 'proof')
    rules_c20.check(c, cprog, cfacts, is_control=True)
    keys = {f['key'] for f in c.findings}
    miss = [k for k in CONTROL_KEYS if k not in keys]
    miss += [p for p in CONTROL_PREFIX if not any(k.startswith(p) for k in keys)]
    return miss


def run(ctx, prog, facts, tier):
    rules_c20.check(ctx, prog, facts)
    ctx.assumptions += [
        'std functions without exported MIR (non-generic, non-inline) do not recurse in the history length',
        'derived Debug on List/Node is recursive and is deliberately outside the entry set (diagnostics only)',
        'unwinding (cleanup) paths are not analysed: a panic inside Drop is out of scope',
    ]
    ctx.exhaustive = True
    return ('Tarjan SCCs over the monomorphic call graph (local MIR, std generic MIR, elaborated drop glue) from '
            'all clone/drop/query entry points; every entry into the one drop-glue cycle is discharged by a '
            'must-dataflow (link field emptied before the drop).',
            ['rustc drop elaboration and instance resolution', 'std Arc/Vec/Option (MIR walked where exported)'])
