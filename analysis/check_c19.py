from . import rules_panic, rules_c03, inputs


def run(ctx, prog, facts, tier):
    I = rules_panic.check_c19(ctx, prog, tier)
    ctx.exhaustive = False
    ctx.assumptions += [
        'reachable-state invariants in the frozen table (analysis/rules_panic.py INVARIANTS) are assumed, not decided',
        'sites never reached by the abstract interpreter in any analysed mode are reported as unreachable-in-all-modes; the mode set '
        'covers setup and every side x step x status kind x capture flag, with sampled status squares',
        'current_step() / unwrap_play_phase() / unwrap-style accessors are documented-precondition functions outside the listed '
        'operations of the property']
    return ('Complete inventory of MIR panic sites reachable from the listed public operations through the resolved call graph; '
            'each is discharged by abstract interpretation in every mode, unreachable in every mode, or in the invariant table.',
            ['factgen MIR export', 'std summaries'])
