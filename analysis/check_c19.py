from . import rules_panic, rules_c03, inputs


CONTROL_KEYS = ['PANIC-SITE/<ctl_parse::Num as std::str::FromStr>::from_str/std::result::Result::<T, E>::unwrap',
                'PANIC-SITE/<ctl_parse::Num as std::str::FromStr>::from_str/<std::vec::Vec<T, A> as std::ops::Index<I>>::index',
                'PANIC-SITE/<ctl_parse::Num as std::str::FromStr>::from_str/Overflow']


def controls(cprog, cfacts):
    """an unwrap on parsed input, an unchecked index and an unchecked subtraction must all be reported"""
    from . import core
    c = core.Ctx('C19', 'control', 'other')
    rules_panic.check_parsers(c, cprog, ['ctl_parse::Num'], 'C19')
    keys = [f['key'] for f in c.findings]
    return [k for k in CONTROL_KEYS if k not in keys]

def run(ctx, prog, facts, tier):
    I = rules_panic.check_c19(ctx, prog, tier)
    ctx.exhaustive = False
    ctx.assumptions += [
        'reachable-state invariants in the frozen table (analysis/rules_panic.py INVARIANTS) are assumed, not decided',
        'sites never reached by the abstract interpreter in any analysed mode are reported as unreachable-in-all-modes; the mode set '
        'covers setup and every side x step x status kind x capture flag, with sampled status squares',
        'current_step() / unwrap_play_phase() / unwrap-style accessors are documented-precondition functions outside the listed '
        'operations of the property']
    return ('Complete inventory of MIR panic sites reachable from the listed public operations through the resolved call graph; '
            'each is discharged by abstract interpretation in every mode, unreachable in every mode, or in the invariant table.',
            ['factgen MIR export', 'std summaries'])
