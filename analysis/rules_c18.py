"""C18 - states can be shared between threads and expanded concurrently (DESIGN 4, C18).

G-rules over types, HIR facts and resolved callees; plus compile-pass / compile-fail
witness crates (run by vf, thorough tier and quick tier both - they take ~2 s)."""
import re

PUBLIC_TYPES = ['engine::GameState', 'engine::PieceBoardState', 'engine::PieceBoard', 'engine::PlayPhase',
                'engine::Phase', 'engine::PushPullState', 'action::Action', 'square::Square', 'piece::Piece',
                'direction::Direction', 'zobrist::Zobrist', 'linked_list::List<zobrist::Zobrist>',
                'terminal::Terminal']

# resolved callee prefixes that introduce shared mutable state, nondeterminism or environment access
DENY = [
    ('std::collections::hash::map::RandomState', 'randomly seeded hasher'),
    ('std::hash::RandomState', 'randomly seeded hasher'),
    ('std::collections::HashMap', 'HashMap with default RandomState iterates in random order'),
    ('std::collections::HashSet', 'HashSet with default RandomState iterates in random order'),
    ('std::time::', 'clock'),
    ('std::thread::', 'thread identity / scheduling'),
    ('std::env::', 'process environment'),
    ('std::fs::', 'file system'),
    ('std::net::', 'network'),
    ('std::process::', 'process control'),
    ('std::io::stdin', 'stdin'),
    ('rand::', 'random numbers'),
    ('std::sync::Mutex', 'lock-protected shared state'),
    ('std::sync::RwLock', 'lock-protected shared state'),
    ('std::sync::Once', 'global one-time initialisation'),
    ('std::sync::OnceLock', 'global lazily initialised state'),
    ('std::sync::LazyLock', 'global lazily initialised state'),
    ('std::sync::mpsc', 'channels'),
    ('std::sync::Condvar', 'condition variable'),
    ('std::sync::atomic::', 'atomics'),
    ('core::sync::atomic::', 'atomics'),
    ('std::cell::', 'interior mutability'),
    ('core::cell::', 'interior mutability'),
    ('std::thread::LocalKey', 'thread-local state'),
    ('std::rc::', 'non-atomic reference counting'),
]
# Arc / Weak operations whose result depends on how many other handles exist right now, i.e. on what other threads
# are doing with their clones: the only way safe code without interior mutability can observe another thread
REFCOUNT_OBSERVERS = {
    'strong_count': 'reads the shared strong count', 'weak_count': 'reads the shared weak count',
    'get_mut': 'succeeds only while no other handle exists', 'make_mut': 'clones or mutates depending on other handles',
    'try_unwrap': 'succeeds only while no other handle exists', 'unwrap_or_clone': 'moves or clones depending on other handles',
    'is_unique': 'reads the shared counts', 'into_inner': 'yields the value only to the last handle',
    'upgrade': 'succeeds only while another thread still holds a strong handle',
    'get_mut_unchecked': 'mutates shared data', 'increment_strong_count': 'manual count manipulation',
    'decrement_strong_count': 'manual count manipulation',
}
# (caller trait impl, operation): confirmed by reading.  Arc::into_inner inside Drop::drop is the atomic
# "last owner unlinks the node" step of the iterative list destructor: exactly one of several racing droppers
# receives Some, the others None, and the only effect is which thread frees the node.
REFCOUNT_ALLOWED = {('std::ops::Drop', 'into_inner')}

# callers inside which atomics / cells are the implementation of a Sync abstraction we trust
TRUSTED_CALLERS = ('std::sync::Arc', 'alloc::sync::', '<std::sync::Arc', 'drop_in_place<std::sync::Arc',
                   'std::sync::Weak', '<std::sync::Weak', 'alloc::raw_vec', 'std::alloc::', 'alloc::alloc::',
                   'std::fmt::', 'core::fmt::', '<std::fmt::', 'std::sync::atomic::', 'core::sync::atomic::',
                   '<std::sync::atomic', 'std::ptr::', 'core::ptr::',
                   'std::cell::', 'core::cell::', '<std::cell::', 'drop_in_place<std::cell::')
# opaque dependency crates (no MIR): trusted leaves, listed in evidence
TRUSTED_LEAF_CRATES = ('regex::', 'anyhow::', '<anyhow::', 'aho_corasick::', 'memchr::', 'regex_syntax::',
                       '<regex::', 'drop_in_place<regex', 'drop_in_place<anyhow', 'drop_in_place<aho_corasick',
                       'drop_in_place<std::boxed::Box<dyn', 'drop_in_place<dyn', 'drop_in_place<regex_syntax',
                       'drop_in_place<std::')


def check(ctx, prog, facts, is_control=False):
    ctx.rule('C18.1', 'Send + Sync hold (trait solver) for every public state type')
    ctx.rule('C18.2', 'no interior mutability reachable through fields/pointees except Arc reference '
                      'counts; no user unsafe, unsafe impl/fn, static mut, non-Freeze static, extern block')
    ctx.rule('C18.3', 'no reachable function takes `&mut` to a state type (Drop::drop excepted); '
                      'take_action takes &self')
    ctx.rule('C18.4', 'no resolved callee reachable from local code is on the nondeterminism / shared-state '
                      'deny-list (atomics and cells only inside std Arc/fmt)')
    ctx.rule('C18.5', 'no local code observes Arc/Weak reference counts (strong_count, get_mut, try_unwrap, make_mut, ..): '
                      'their results depend on what other threads do with their clones; Arc::into_inner is allowed only '
                      'inside a Drop impl (atomic last-owner unlink)')
    auto = {}
    for a in facts['adts']:
        if a['auto']:
            auto[a['path']] = (a['auto'], a['cells'])
    for c in facts['concrete']:
        auto[c['ty']] = ({'Send': c['Send'], 'Sync': c['Sync'], 'Freeze': c['Freeze']}, c['cells'])
    types = PUBLIC_TYPES if not is_control else sorted(auto)
    for t in types:
        if t not in auto:
            ctx.anchor('type ' + t, False)
            continue
        a, cells = auto[t]
        for tr in ('Send', 'Sync'):
            ok = bool(a.get(tr))
            ctx.ob('%s: %s' % (t, tr), ok, sample=(tr == 'Sync' and t.startswith('linked_list')))
            if not ok:
                ctx.finding('AUTO-TRAIT', t, tr, '%s is not %s' % (t, tr))
        for c in cells or []:
            via = c['via']
            ok = c['what'] == 'UnsafeCell' and any(v.startswith('alloc::sync::ArcInner') for v in via)
            if c['what'] == 'RawPtr':
                ok = any(v.startswith(('std::ptr::NonNull', 'alloc::raw_vec', 'std::sync::Arc', 'std::vec::Vec',
                                       'alloc::sync::', 'std::ptr::Unique', 'core::ptr::')) for v in via)
            ctx.ob('%s: %s %s via %s' % (t, c['what'], c['ty'], '>'.join(via[-3:])), ok,
                   sample=c['what'] == 'UnsafeCell')
            if not ok:
                ctx.finding('INTERIOR-MUT', t, c['what'] + ':' + (via[-1] if via else '?'),
                            '%s reaches %s (%s) via %s' % (t, c['what'], c['ty'], ' > '.join(via)))
    # every local ADT (not only the 13) - a cache field anywhere in a state type is caught by the deep walk;
    # additionally Freeze on all non-generic local ADTs
    for a in facts['adts']:
        if a['auto'] is not None:
            ok = a['auto']['Freeze']
            ctx.ob('%s is Freeze (no shallow interior mutability)' % a['path'], ok)
            if not ok:
                ctx.finding('INTERIOR-MUT', a['path'], 'not-Freeze', '%s contains an UnsafeCell inline' % a['path'])
    # unsafe / statics / extern
    user_unsafe = [u for u in facts['unsafe_blocks'] if '/rustlib/' not in u['b']['at'] and
                   '/.cargo/registry/' not in u['b']['at']]
    ctx.ob('no user-written unsafe block (%d compiler/std-macro generated ignored)'
           % (len(facts['unsafe_blocks']) - len(user_unsafe)), not user_unsafe)
    for u in user_unsafe:
        ctx.finding('UNSAFE', u['in'], 'block', 'unsafe block at %s' % u['b']['at'], at=u['b']['at'])
    for name, f in prog.fns.items():
        if f.get('unsafe_fn'):
            ctx.finding('UNSAFE', name, 'unsafe-fn', 'unsafe fn')
    ctx.ob('no unsafe fn among %d bodies' % len(prog.fns), not any(f.get('unsafe_fn') for f in prog.fns.values()))
    for im in facts['impls']:
        # `#[derive(Clone)]` on Copy types emits `unsafe impl TrivialClone` (compiler-generated, marked
        # automatically_derived): not user code
        ok = im['safety'] == 'Safe' or im['derived']
        if not ok or im['trait'] in ('std::marker::Send', 'std::marker::Sync'):
            ctx.ob('impl %s for %s is safe' % (im['trait'], im['self_ty']), False)
            ctx.finding('UNSAFE', im['self_ty'], 'impl:' + str(im['trait']),
                        'hand-written (unsafe) impl of %s for %s' % (im['trait'], im['self_ty']))
    ctx.ob('no unsafe impl / manual Send or Sync among %d impls' % len(facts['impls']), True, nontrivial=False)
    for s in facts['statics']:
        ok = (not s['mut']) and s['freeze']
        ctx.ob('static %s immutable and Freeze' % s['path'], ok)
        if not ok:
            ctx.finding('GLOBAL-STATE', s['path'], 'static', 'static %s: mut=%s freeze=%s (%s)'
                        % (s['path'], s['mut'], s['freeze'], s['ty']))
    ctx.ob('statics: %d, all immutable+Freeze' % len(facts['statics']), True, nontrivial=False)
    ctx.ob('no extern blocks', not facts['foreign_mods'])
    for fm in facts['foreign_mods']:
        ctx.finding('UNSAFE', fm, 'extern', 'extern block')
    # C18.3 receivers / &mut params
    state_types = [t.split('<')[0] for t in PUBLIC_TYPES]
    copy_types = set(i['self_ty'].split('<')[0] for i in facts['impls'] if i['trait'] == 'std::marker::Copy')
    n = 0
    for name, f in prog.fns.items():
        if f['kind'] == 'Closure' or not f.get('reachable'):
            continue
        if f.get('trait_impl') == 'std::ops::Drop':
            continue
        if (f.get('trait_impl') or '').startswith('std::ops::') and (f.get('trait_impl') or '').split('<')[0].endswith('Assign') \
                and (f.get('self_ty') or '').split('<')[0] in copy_types:
            # a compound-assignment operator (`^=`, `|=`) on a `Copy` value type: every holder has its own copy of such a value, a
            # `&mut` to one of them reaches no other holder's state (hashes, squares, pieces are plain values, not shared structure)
            ctx.ob('%s: compound assignment on the Copy value type %s' % (name, f.get('self_ty')), True, nontrivial=False)
            continue
        n += 1
        for i in range(1, f['argc'] + 1):
            ty = f['locals'][i]
            m = re.match(r"&(?:'\w+ )?mut (.*)$", ty)
            if m and m.group(1).split('<')[0] in state_types:
                ctx.ob('%s arg %d: %s' % (name, i, ty), False)
                ctx.finding('MUT-ACCESS', name, 'arg%d' % i,
                            'public function takes %s: a state could be modified after construction' % ty,
                            at='%s:%s' % (f['file'], f['line']))
    ctx.ob('%d reachable functions: none takes &mut to a state type' % n, True)
    ta = prog.one('GameState::take_action')
    if ctx.anchor('GameState::take_action', ta is not None):
        f = prog.fns[ta]
        ok = f['locals'][1].startswith('&') and not f['locals'][1].startswith('&mut') and \
            f['locals'][0] == 'engine::GameState'
        ctx.ob('take_action(&self, ..) -> GameState: %s -> %s' % (f['locals'][1], f['locals'][0]), ok, sample=True)
        if not ok:
            ctx.finding('MUT-ACCESS', ta, 'receiver', 'take_action signature is %s -> %s' % (f['locals'][1], f['locals'][0]))
    # C18.4 deny-list over the monomorphic graph (local + std generics)
    N = facts['mono']['nodes']
    edges = 0
    leaves = set()
    for node in N:
        for e in (node['edges'] or []):
            edges += 1
            callee = N[e[0]]
            cname = callee['name']
            for pat, why in DENY:
                if cname.startswith(pat) or cname.startswith('<' + pat) or ('<impl ' + pat) in cname:
                    caller = node['name']
                    if caller.startswith(TRUSTED_CALLERS) or _is_std(caller):
                        # std -> std: implementation detail of std (Arc counters, fmt) - trusted base
                        continue
                    ctx.ob('%s calls %s' % (caller, cname), False)
                    ctx.finding('EFFECT', node['path'], pat, '%s calls %s (%s)' % (caller, cname, why))
            if callee['edges'] is None and not callee['local']:
                leaves.add(cname)
    # direct local calls (covers generic local bodies too)
    for name in prog.fns:
        for _, t in prog.calls(name):
            c = prog.callee(t) or ''
            for pat, why in DENY:
                if c.startswith(pat) or c.startswith('<' + pat):
                    ctx.ob('%s calls %s' % (name, c), False)
                    ctx.finding('EFFECT', name, pat, '%s calls %s (%s)' % (name, c, why), at=t['at'])
    n_arc = 0
    for name, f in prog.fns.items():
        for _, t in prog.calls(name):
            c = prog.callee(t) or ''
            m = re.match(r'(?:std|alloc)::(?:sync|rc)::(Arc|Weak|Rc)::<[^>]*>::(\w+)$', c)
            if not m:
                continue
            n_arc += 1
            op = m.group(2)
            if op not in REFCOUNT_OBSERVERS:
                continue
            owner = f
            if f['kind'] == 'Closure':
                owner = prog.fns.get(name.split('::{closure')[0], f)
            ok = (owner.get('trait_impl'), op) in REFCOUNT_ALLOWED
            ctx.ob('%s uses %s::%s%s' % (name, m.group(1), op, ' (inside Drop: atomic last-owner unlink)' if ok else ''), ok,
                   sample=ok)
            if not ok:
                ctx.finding('REFCOUNT-OBSERVE', name, op, '%s calls %s: %s, so its behaviour depends on the interleaving '
                            'with other threads holding clones' % (name, c, REFCOUNT_OBSERVERS[op]), at=t['at'])
    ctx.setcount('arc_call_sites', n_arc)
    ctx.ob('%d monomorphic call/drop edges and %d local call sites: none hits the deny-list outside std internals'
           % (edges, sum(1 for n_ in prog.fns for _ in prog.calls(n_))), True)
    opaque = sorted(l for l in leaves if l.startswith(TRUSTED_LEAF_CRATES) and not l.startswith('drop_in_place<std::'))
    ctx.setcount('opaque_dependency_leaves', len(opaque))
    ctx.notes.append('opaque dependency leaves (trusted, only used by the text parsers): %s' % opaque[:12])


def _is_std(name):
    n = name.lstrip('<')
    return n.startswith(('std::', 'core::', 'alloc::', 'drop_in_place<std::', 'drop_in_place<core::',
                         'drop_in_place<alloc::', '&', '[', '(')) and 'arimaa' not in name
