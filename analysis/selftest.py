"""./vf selftest: apply seeded edits to scratch copies of /repo, run the named checks, expect them to fire
(or, for benign rewrites, to stay silent). Never touches /repo or /verif evidence."""
import json
import os
import shutil
import subprocess
import sys
import tempfile
import time

from .facts import VERIF, REPO


def scratch_copy():
    d = tempfile.mkdtemp(prefix='vf-selftest-')
    shutil.copytree(os.path.join(REPO, 'src'), os.path.join(d, 'src'))
    for f in ('Cargo.toml', 'Cargo.lock'):
        shutil.copy(os.path.join(REPO, f), os.path.join(d, f))
    if os.path.isdir(os.path.join(REPO, 'benches')):
        shutil.copytree(os.path.join(REPO, 'benches'), os.path.join(d, 'benches'))
    return d


def _registered():
    import re
    src = open(os.path.join(VERIF, 'vf')).read()
    return set(re.findall(r"^    '(C\d+)': \('analysis", src, re.M))


def run_one(mut, tier='quick', verbose=False):
    d = scratch_copy()
    try:
        p = os.path.join(d, mut['file'])
        s = open(p).read()
        if s.count(mut['old']) != 1:
            return {'id': mut['id'], 'status': 'STALE', 'detail': 'old text occurs %d times' % s.count(mut['old'])}
        open(p, 'w').write(s.replace(mut['old'], mut['new']))
        for (f2, old2, new2) in mut.get('extra', ()):
            p2 = os.path.join(d, f2)
            s2 = open(p2).read()
            if s2.count(old2) != 1:
                return {'id': mut['id'], 'status': 'STALE', 'detail': 'extra old text occurs %d times' % s2.count(old2)}
            open(p2, 'w').write(s2.replace(old2, new2))
        res = {}
        registered = _registered()
        for prop in mut['props']:
            if prop not in registered:
                continue
            env = dict(os.environ, VF_REPO=d)
            r = subprocess.run([os.path.join(VERIF, 'vf'), 'check', prop, '--tier', tier], env=env,
                               stdout=subprocess.PIPE, stderr=subprocess.STDOUT, text=True, cwd=VERIF)
            keys = [l.split('instance=')[0] + l for l in r.stdout.splitlines() if l.strip().startswith('rule=')]
            res[prop] = (r.returncode, keys, r.stdout[-1500:] if r.returncode not in (0, 1) else '')
        fired = [p for p, (rc, _k, _o) in res.items() if rc == 1]
        broken = [p for p, (rc, _k, _o) in res.items() if rc not in (0, 1)]
        if broken:
            status = 'BROKEN'
        elif mut.get('benign'):
            status = 'OK-SILENT' if not fired else 'FALSE-ALARM'
        else:
            status = 'CAUGHT' if fired else 'MISSED'
            if fired and mut.get('expect'):
                allk = ' '.join(k for p in fired for k in res[p][1])
                if mut['expect'] not in allk:
                    status = 'CAUGHT-OTHER'
        return {'id': mut['id'], 'status': status, 'fired': fired,
                'keys': {p: [k.strip()[:200] for k in v[1][:4]] for p, v in res.items()},
                'out': {p: v[2] for p, v in res.items() if v[2]}}
    finally:
        shutil.rmtree(d, ignore_errors=True)


def main(args):
    sys.path.insert(0, VERIF)
    from mutants.catalogue import M
    sel = [m for m in M if not args or any(m['id'].startswith(a) or a in m['props'] for a in args)]
    t0 = time.time()
    out = []
    from concurrent.futures import ThreadPoolExecutor
    with ThreadPoolExecutor(max_workers=6) as ex:
        for r in ex.map(run_one, sel):
            out.append(r)
            print('%-28s %-12s %s' % (r['id'], r['status'], r.get('fired') or r.get('detail') or ''))
            if r['status'] in ('BROKEN',):
                print(json.dumps(r.get('out'), indent=1)[:1500])
    rep = os.path.join(VERIF, 'selftest_report.json')
    summary = {}
    for r in out:
        summary[r['status']] = summary.get(r['status'], 0) + 1
    json.dump({'summary': summary, 'results': out, 'wall_s': round(time.time() - t0, 1)}, open(rep, 'w'), indent=1)
    print(summary, 'wall %.0fs' % (time.time() - t0))
    return 0


# ------------------------------------------------------------------------------------------------ independent seeds
def run_seed(job):
    """job = (seed id, which in ('patch', 'benign'), property). Applies the diff with `patch -p1` to a scratch copy."""
    sid, which, prop = job
    d = scratch_copy()
    try:
        diff = os.path.join(VERIF, 'seeded', sid, which + '.diff')
        r = subprocess.run(['patch', '-p1', '-s', '-i', diff], cwd=d, stdout=subprocess.PIPE, stderr=subprocess.STDOUT, text=True)
        if r.returncode != 0:
            return {'id': sid, 'which': which, 'status': 'STALE', 'detail': r.stdout[-300:]}
        # several replays run at once and some spawn worker processes: do not let machine load turn into UNDECIDED findings
        env = dict(os.environ, VF_REPO=d, VF_CHECK_BUDGET_S='2400', VF_CALL_BUDGET_S='600')
        r = subprocess.run([os.path.join(VERIF, 'vf'), 'check', prop, '--tier', 'quick'], env=env,
                           stdout=subprocess.PIPE, stderr=subprocess.STDOUT, text=True, cwd=VERIF)
        rules = sorted(set(l.strip().split(' fn=')[0].replace('rule=', '') for l in r.stdout.splitlines() if l.strip().startswith('rule=')))
        if r.returncode not in (0, 1):
            return {'id': sid, 'which': which, 'status': 'BROKEN', 'detail': r.stdout[-600:]}
        fired = r.returncode == 1
        only_undecided = fired and all(x.startswith(('UNDECIDED', 'ANCHOR-LOST')) for x in rules)
        return {'id': sid, 'which': which, 'prop': prop, 'fired': fired, 'rules': rules[:6], 'only_undecided': only_undecided}
    finally:
        shutil.rmtree(d, ignore_errors=True)


def main_seeds(args):
    """./vf seeds [ids..]: every independent seeded change must be reported by the check of its own property; every
    behaviour-preserving twin (benign.diff) must stay silent, except those whose meta.json records a known limitation."""
    base = os.path.join(VERIF, 'seeded')
    jobs = []
    metas = {}
    for sid in sorted(os.listdir(base)):
        mp = os.path.join(base, sid, 'meta.json')
        if not os.path.exists(mp) or (args and not any(sid.startswith(a) or a == json.load(open(mp))['property'] for a in args)):
            continue
        meta = json.load(open(mp))
        metas[sid] = meta
        if os.path.exists(os.path.join(base, sid, 'patch.diff')):
            jobs.append((sid, 'patch', meta['property']))
        if os.path.exists(os.path.join(base, sid, 'benign.diff')):
            # behaviour-preserving refactorings are replayed against their own property's check and any others named in `also`
            for prop in [meta['property']] + list(meta.get('also', [])):
                jobs.append((sid, 'benign', prop))
    t0 = time.time()
    summary = {}
    out = []
    from concurrent.futures import ThreadPoolExecutor
    with ThreadPoolExecutor(max_workers=8) as ex:
        for r in ex.map(run_seed, jobs):
            if 'status' not in r:
                limitation = 'FALSE ALARM' in metas[r['id']].get('status', '') or 'UNDECIDED' in metas[r['id']].get('status', '')
                if r['which'] == 'patch':
                    r['status'] = 'CAUGHT' if (r['fired'] and not r['only_undecided']) else ('CAUGHT-UNDECIDED' if r['fired'] else 'MISSED')
                else:
                    r['status'] = 'OK-SILENT' if not r['fired'] else ('KNOWN-LIMITATION' if limitation else 'FALSE-ALARM')
            summary[r['status']] = summary.get(r['status'], 0) + 1
            out.append(r)
            print('%-8s %-7s %-18s %s' % (r['id'], r['which'], r['status'], r.get('rules') or r.get('detail') or ''))
    json.dump({'summary': summary, 'results': out, 'wall_s': round(time.time() - t0, 1)},
              open(os.path.join(VERIF, 'seeds_report.json'), 'w'), indent=1)
    print(summary, 'wall %.0fs' % (time.time() - t0))
    return 0
