"""./vf selftest: apply seeded edits to scratch copies of /repo, run the named checks, expect them to fire
(or, for benign rewrites, to stay silent). Never touches /repo or /verif evidence."""
import json
import os
import shutil
import subprocess
import sys
import tempfile
import time

from .facts import VERIF, REPO


def scratch_copy():
    d = tempfile.mkdtemp(prefix='vf-selftest-')
    shutil.copytree(os.path.join(REPO, 'src'), os.path.join(d, 'src'))
    for f in ('Cargo.toml', 'Cargo.lock'):
        shutil.copy(os.path.join(REPO, f), os.path.join(d, f))
    if os.path.isdir(os.path.join(REPO, 'benches')):
        shutil.copytree(os.path.join(REPO, 'benches'), os.path.join(d, 'benches'))
    return d


def _registered():
    import re
    src = open(os.path.join(VERIF, 'vf')).read()
    return set(re.findall(r"^    '(C\d+)': \('analysis", src, re.M))


def run_one(mut, tier='quick', verbose=False):
    d = scratch_copy()
    try:
        p = os.path.join(d, mut['file'])
        s = open(p).read()
        if s.count(mut['old']) != 1:
            return {'id': mut['id'], 'status': 'STALE', 'detail': 'old text occurs %d times' % s.count(mut['old'])}
        open(p, 'w').write(s.replace(mut['old'], mut['new']))
        for (f2, old2, new2) in mut.get('extra', ()):
            p2 = os.path.join(d, f2)
            s2 = open(p2).read()
            if s2.count(old2) != 1:
                return {'id': mut['id'], 'status': 'STALE', 'detail': 'extra old text occurs %d times' % s2.count(old2)}
            open(p2, 'w').write(s2.replace(old2, new2))
        res = {}
        registered = _registered()
        for prop in mut['props']:
            if prop not in registered:
                continue
            env = dict(os.environ, VF_REPO=d)
            r = subprocess.run([os.path.join(VERIF, 'vf'), 'check', prop, '--tier', tier], env=env,
                               stdout=subprocess.PIPE, stderr=subprocess.STDOUT, text=True, cwd=VERIF)
            keys = [l.split('instance=')[0] + l for l in r.stdout.splitlines() if l.strip().startswith('rule=')]
            res[prop] = (r.returncode, keys, r.stdout[-1500:] if r.returncode not in (0, 1) else '')
        fired = [p for p, (rc, _k, _o) in res.items() if rc == 1]
        broken = [p for p, (rc, _k, _o) in res.items() if rc not in (0, 1)]
        if broken:
            status = 'BROKEN'
        elif mut.get('benign'):
            status = 'OK-SILENT' if not fired else 'FALSE-ALARM'
        else:
            status = 'CAUGHT' if fired else 'MISSED'
            if fired and mut.get('expect'):
                allk = ' '.join(k for p in fired for k in res[p][1])
                if mut['expect'] not in allk:
                    status = 'CAUGHT-OTHER'
        return {'id': mut['id'], 'status': status, 'fired': fired,
                'keys': {p: [k.strip()[:200] for k in v[1][:4]] for p, v in res.items()},
                'out': {p: v[2] for p, v in res.items() if v[2]}}
    finally:
        shutil.rmtree(d, ignore_errors=True)


def main(args):
    sys.path.insert(0, VERIF)
    from mutants.catalogue import M
    sel = [m for m in M if not args or any(m['id'].startswith(a) or a in m['props'] for a in args)]
    t0 = time.time()
    out = []
    from concurrent.futures import ThreadPoolExecutor
    with ThreadPoolExecutor(max_workers=6) as ex:
        for r in ex.map(run_one, sel):
            out.append(r)
            print('%-28s %-12s %s' % (r['id'], r['status'], r.get('fired') or r.get('detail') or ''))
            if r['status'] in ('BROKEN',):
                print(json.dumps(r.get('out'), indent=1)[:1500])
    rep = os.path.join(VERIF, 'selftest_report.json')
    summary = {}
    for r in out:
        summary[r['status']] = summary.get(r['status'], 0) + 1
    json.dump({'summary': summary, 'results': out, 'wall_s': round(time.time() - t0, 1)}, open(rep, 'w'), indent=1)
    print(summary, 'wall %.0fs' % (time.time() - t0))
    return 0
