from . import rules_c03, rules_rep, rules_hash, rules_c02, rules_list, inputs
from spec import geometry as G


def self_controls(prog, facts):
    from . import perturb

    def rule(c, p2):
        rules_rep.check_c05(c, p2, inputs.make_interp(p2, fuel=40000000), True)
    return perturb.run_controls([('seen-twice threshold 3',
                                  lambda f: perturb.perturb_int(f, 'hash_history_contains_hash_twice', 2, 3, ty='usize'), rule, 'C05.4')], facts)

def run(ctx, prog, facts, tier):
    I = inputs.make_interp(prog, fuel=40000000)
    rules_rep.check_c05(ctx, prog, I, tier == 'quick')
    rules_list.check_list(ctx, prog, I, 'C05')
    # the captured-this-turn flag switches the repetition tests off: it must be set by a capture, stay set within the turn and be
    # cleared when the turn ends (the C03 transition clauses on the per-turn record)
    from .check_c03 import MOVES_Q, STATUS
    rules_c03.check_transitions(ctx, prog, inputs.make_interp(prog, fuel=5000000), MOVES_Q[:2], STATUS[:1])
    # C05.5: captured pieces of both colours on all traps change the hash (C08 coverage clause)
    sqs = sorted(set(n for t in G.TRAPS for n in G.neighbours(t))) if tier == 'quick' else list(range(64))
    rules_hash.check_move_hash(ctx, prog, I, rules_c02.moves(True, sqs)[:: (3 if tier == 'quick' else 1)])
    rules_hash.check_h1(ctx, I, 'repetition tests')
    ctx.exhaustive = False
    ctx.assumptions += ['NOT decided: freedom from 64-bit hash collisions; that discarding the history at a capture is exact; the '
                        'property over actual game histories (these clauses are necessary conditions of the engine\'s mechanism)']
    return ('Guards of Pass and of fourth steps extracted as Boolean functions over two opaque tests; the hash forms inside the '
            'tests are compared with the forms take_action stores (symbolic square for fourth steps); history head / tail of '
            'every turn-ending successor.', ['factgen MIR export', 'std summaries'])
