"""Construction of abstract inputs (modes) for the interpreter."""
from . import bits as B
from .bits import C0, C1
from .mai import Interp
from .values import BV, Term, HF, Struct, Enum, Ref, Seq, Tok, TRUE, FALSE, boolv

FIELDS = ['p1_pieces', 'all_pieces', 'elephants', 'camels', 'horses', 'dogs', 'cats', 'rabbits']
SHORT = {'p1_pieces': 'p1', 'all_pieces': 'all', 'elephants': 'e', 'camels': 'm', 'horses': 'h', 'dogs': 'd',
         'cats': 'c', 'rabbits': 'r'}
PIECES = ['Rabbit', 'Cat', 'Dog', 'Horse', 'Camel', 'Elephant']
DIRS = ['Up', 'Right', 'Down', 'Left']


def make_interp(prog, fuel=400000):
    I = Interp(prog, fuel)
    I.hash_tables = {'SQUARE_VALUES': ('SQ', 2), 'PUSH_VALUES': ('PUSH', 2), 'POSSIBLE_PULL_VALUES': ('PULL', 2),
                     'STEP_VALUES': ('STEP', 1)}
    I.hash_names = {'INITIAL': ('INITIAL',), 'PLAYER_TO_MOVE': ('P',)}
    return I


def pbs_field_order(prog):
    a = prog.adts.get('engine::PieceBoardState')
    return [f['name'] for f in a['variants'][0]['fields']]


def board(prog, prefix=''):
    """PieceBoardState whose 8 bitboards are free input variables."""
    order = pbs_field_order(prog)
    return Struct('engine::PieceBoardState', [BV.var(prefix + SHORT[n]) for n in order])


def piece_board(prog, prefix=''):
    return Struct('engine::PieceBoard', (board(prog, prefix),))


def enum_variant(prog, ty, name):
    ti = prog.types[ty]
    for i, v in enumerate(ti['variants']):
        if v['name'] == name:
            return i
    raise KeyError(name)


def piece(prog, name):
    return Enum('piece::Piece', enum_variant(prog, 'piece::Piece', name))


def direction(prog, name):
    return Enum('direction::Direction', enum_variant(prog, 'direction::Direction', name))


def square(idx):
    return Struct('square::Square', (BV.const(idx, 8),))


def sqname(i):
    return 'abcdefgh'[i % 8] + str(8 - i // 8)


def ref_to(I, st, name, val):
    cell = ('static', 'in:' + name)
    st.store[cell] = val
    return Ref(cell)


def field_index(prog, adt, name):
    a = prog.adts[adt]
    for i, f in enumerate(a['variants'][0]['fields']):
        if f['name'] == name:
            return i
    raise KeyError((adt, name))


def struct_from(prog, adt, ty=None, **kw):
    a = prog.adts[adt]
    fields = a['variants'][0]['fields']
    names = [f['name'] for f in fields]
    missing = sorted(set(kw) - set(names))
    if missing:
        from .mai import Undecided
        raise Undecided('the analysed crate has no field %s in %s (fields: %s): the abstract states of this analysis do not fit it'
                        % (missing, adt, names))
    # a field this analysis does not know is an opaque value of its type (sound: nothing is assumed about it)
    return Struct(ty or adt, [kw[f['name']] if f['name'] in kw else Tok('field:' + f['name'], f['ty']) for f in fields])


def field_bits(prog, adt, name):
    a = prog.adts[adt]
    for f in a['variants'][0]['fields']:
        if f['name'] == name:
            ti = prog.types.get(f['ty'])
            if ti and ti['k'] == 'int':
                return ti['bits']
    return 64


def zobrist(hf):
    return Struct('zobrist::Zobrist', (hf,))


def opaque_hash(name):
    return zobrist(HF([(('OPAQUE', name), C1)]))


LIST_Z = 'linked_list::List<zobrist::Zobrist>'
LINK_Z = 'std::option::Option<std::sync::Arc<linked_list::Node<zobrist::Zobrist>>>'


def history_token(name='hist'):
    return Struct(LIST_Z, (Tok(name, LINK_Z),))


def push_pull_state(prog, kind, sq=None, pc=None):
    ty = 'engine::PushPullState'
    v = enum_variant(prog, ty, kind)
    if kind == 'None':
        return Enum(ty, v)
    return Enum(ty, v, (square(sq), piece(prog, pc)))


PLAY_PHASE_FIELDS = {'previous_piece_boards_this_move': 'std::vec::Vec<engine::PieceBoard>', 'push_pull_state': 'engine::PushPullState',
                     'initial_hash_of_move': 'zobrist::Zobrist', 'hash_history': 'linked_list::List<zobrist::Zobrist>',
                     'piece_trapped_this_turn': 'bool'}
_CTOR_INTERP = {}


def play_phase_by_layout(prog):
    """True when PlayPhase still has exactly the field layout this analysis builds its symbolic states from"""
    a = prog.adts.get('engine::PlayPhase')
    if a is None:
        return True
    got = {f['name']: f['ty'] for f in a['variants'][0]['fields']}
    return got == PLAY_PHASE_FIELDS


def play_phase_via_constructor(prog, prev, pps, trapped, h0, hist):
    """The representation of PlayPhase differs from the layout known here: the symbolic state is the value the crate's own
    public constructor PlayPhase::new builds from (turn-start hash, history, earlier boards, status, captured flag) - the
    constructor's MIR is interpreted on those arguments.  Arguments are matched by type."""
    from .mai import Undecided, State
    fn = prog.one('PlayPhase::new')
    if fn is None:
        raise Undecided('PlayPhase has an unknown field layout and no constructor PlayPhase::new')
    f = prog.fns[fn]
    want = {'zobrist::Zobrist': opaque_hash(h0), 'linked_list::List<zobrist::Zobrist>': history_token(hist),
            'std::vec::Vec<engine::PieceBoard>': prev, 'engine::PushPullState': pps, 'bool': trapped}
    tys = [(l.get('ty') if isinstance(l, dict) else l) for l in f['locals'][1:1 + f['argc']]]
    if sorted(tys) != sorted(want):
        raise Undecided('PlayPhase::new takes %s; this analysis knows how to supply %s' % (tys, sorted(want)))
    I = _CTOR_INTERP.get(id(prog))
    if I is None:
        I = _CTOR_INTERP[id(prog)] = (prog, make_interp(prog, fuel=2000000))
    I = I[1]
    I.panics.clear()
    I.asserts_bad.clear()
    r, _ = I.call_fn(fn, [want[t] for t in tys], State({}))
    if r is None or I.panics or I.asserts_bad:
        raise Undecided('PlayPhase::new does not return normally on the arguments of a symbolic state: %s'
                        % (list(I.panics) + list(I.asserts_bad)))
    return r


def play_phase(prog, step, pps, trapped, h0='h0', hist='hist', boards_prefix='prev'):
    prev = Seq([('elem', piece_board(prog, '%s%d.' % (boards_prefix, i))) for i in range(step)])
    if isinstance(trapped, bool):
        trapped = TRUE if trapped else FALSE
    if not play_phase_by_layout(prog):
        return play_phase_via_constructor(prog, prev, pps, trapped, h0, hist)
    return struct_from(prog, 'engine::PlayPhase',
                       previous_piece_boards_this_move=prev,
                       push_pull_state=pps,
                       initial_hash_of_move=opaque_hash(h0),
                       hash_history=history_token(hist),
                       piece_trapped_this_turn=trapped)


def game_state(prog, p1_turn, phase, pb=None, hash_name='h', move_number=None):
    if isinstance(p1_turn, bool):
        p1_turn = TRUE if p1_turn else FALSE
    return struct_from(prog, 'engine::GameState',
                       p1_turn_to_move=p1_turn,
                       move_number=move_number if move_number is not None else Term('tok', ('n',), field_bits(prog, 'engine::GameState', 'move_number')),
                       phase=phase,
                       piece_board=pb if pb is not None else piece_board(prog, ''),
                       hash=opaque_hash(hash_name))


def sym_flag(name='trapped_in'):
    """a symbolic boolean input (both values explored at once; results that do not depend on it merge back)"""
    return boolv(B.atom_bit(B.atom('tokbool', name)))


def play_state(prog, side_gold, step, pps_kind='None', sq=None, pc=None, trapped=False):
    if trapped == 'sym':
        trapped = sym_flag()
    pps = push_pull_state(prog, pps_kind, sq, pc)
    ph = Enum('engine::Phase', enum_variant(prog, 'engine::Phase', 'PlayPhase'), (play_phase(prog, step, pps, trapped),))
    return game_state(prog, side_gold, ph)


def place_state(prog, side_gold):
    ph = Enum('engine::Phase', enum_variant(prog, 'engine::Phase', 'PlacePhase'))
    return game_state(prog, side_gold, ph, move_number=BV.const(1, 64))


def subst_lits(v, asg):
    """The input value `v` with the input literals of `asg` ({variable: 0/1}) replaced by constants: the instance of a symbolic
    input on which those literals are known (a case of a finite case split)."""
    from . import bits as B_
    if isinstance(v, BV):
        out = []
        ch = False
        for b in v.bits:
            if b.kind == 's' and len(b.sup) == 1 and b.sup[0] in asg:
                val = asg[b.sup[0]]
                out.append(B_.C1 if b.tt[1 if val else 0] else B_.C0)
                ch = True
            else:
                out.append(b)
        return BV(out, v.signed) if ch else v
    if isinstance(v, Struct):
        return Struct(v.ty, [subst_lits(f, asg) if isinstance(f, (BV, Struct, Enum)) else f for f in v.fields])
    if isinstance(v, Enum):
        return Enum(v.ty, v.var, [subst_lits(f, asg) if isinstance(f, (BV, Struct, Enum)) else f for f in v.fields])
    return v


def subst_sigma(v, idx):
    """the instance of a bulk-item template for square `idx`"""
    if isinstance(v, Term) and v.kind == 'sigma':
        return BV.const(idx, v.w)
    if isinstance(v, Struct):
        return Struct(v.ty, [subst_sigma(f, idx) if isinstance(f, (Term, Struct, Enum)) else f for f in v.fields])
    if isinstance(v, Enum):
        return Enum(v.ty, v.var, [subst_sigma(f, idx) if isinstance(f, (Term, Struct, Enum)) else f for f in v.fields])
    return v
