"""Shared helpers for the rule modules."""
from . import bits as B
from .bits import C0, C1
from .values import BV, Struct, Enum, Ite, Seq, HF, Term
from spec import geometry as G

KIND_OF = {'p1': 'C', 'all': 'O', 'e': 'T', 'm': 'T', 'h': 'T', 'd': 'T', 'c': 'T', 'r': 'T'}


def proj(deps, prefix=''):
    """Project a may-depend set to {(square, kind)}; kind C = colour, O = occupancy, T = piece type.
    Colour dependence implies occupancy dependence (a colour bit is only meaningful on an occupied square)."""
    out = set()
    for v in deps:
        name, i = v
        if prefix:
            if not name.startswith(prefix):
                out.add((name, i, '?'))
                continue
            name = name[len(prefix):]
        k = KIND_OF.get(name)
        if k is None:
            out.add((name, i, '?'))
        else:
            out.add((i, k))
            if k == 'C':
                out.add((i, 'O'))
    return out


def squares_of(deps):
    return set(i for (_n, i) in deps)


def mover_lits(gold, i, prefix=''):
    """Literals that make square i hold a piece of the given side (under p1 <= all)."""
    if gold:
        return {((prefix + 'p1', i), True)}
    return {((prefix + 'p1', i), False), ((prefix + 'all', i), True)}


def has_lits(bit, lits):
    m = B.must(bit)
    return all(l in m for l in lits)


def fmt_deps(d, limit=10):
    xs = sorted('%s[%s]' % (n, G.name(i)) for (n, i) in d)
    return '{%s%s}' % (', '.join(xs[:limit]), ', ...+%d' % (len(xs) - limit) if len(xs) > limit else '')


def fmt_lits(ls, limit=8):
    xs = sorted('%s%s[%s]' % ('+' if p else '-', v[0], G.name(v[1]) if isinstance(v[1], int) and v[0] != '#' else v[1])
                for (v, p) in ls if v[0] != '#')
    return '{%s%s}' % (', '.join(xs[:limit]), ', ...' if len(xs) > limit else '')


def real_lits(bit):
    return frozenset(l for l in B.must(bit) if l[0][0] not in ('#',))


def enum_cases(I, v, pc=()):
    """Flatten an Ite tree into [(list of condition bits with polarity, leaf)]."""
    if isinstance(v, Ite):
        out = []
        for conds, leaf in enum_cases(I, v.a, pc):
            out.append(([(v.c, True)] + conds, leaf))
        for conds, leaf in enum_cases(I, v.b, pc):
            out.append(([(v.c, False)] + conds, leaf))
        return out
    return [([], v)]


def variant_name(prog, v):
    ti = prog.types.get(v.ty) or prog.types.get(v.ty.split('<')[0])
    if ti and ti['k'] == 'adt':
        return ti['variants'][v.var]['name']
    base = v.ty.split('<')[0]
    if base == 'std::option::Option':
        return ['None', 'Some'][v.var]
    return '#%d' % v.var
