"""C04: win-condition order at turn start (DESIGN 4 C04)."""
from . import bits as B
from .bits import C0, C1
from .values import BV, Struct, Enum, Ref, Seq, Term, Ite, TRUE, FALSE
from .mai import State, Undecided
from . import inputs
from .common import fmt_lits, real_lits
from spec import geometry as G


def run_fn(I, prog, name, gsv, *extra_refs):
    fn = prog.one(name)
    st = State({})
    gs = inputs.ref_to(I, st, 'gs', gsv)
    args = [gs]
    for k, v in enumerate(extra_refs):
        args.append(inputs.ref_to(I, st, 'x%d' % k, v))
    r, _ = I.call_fn(fn, args, st)
    return r


def classify_atom(at):
    """Role of an `!= 0` atom by the footprint of its payload: ('goal'|'rabbits', 'gold'|'silver') or None."""
    if at.kind != 'nz':
        return None
    bv = at.payload
    live = [i for i, b in enumerate(bv.bits) if b is not C0]
    if not live:
        return None
    colours = set()
    for i in live:
        m = B.must(bv.bits[i])
        if ((('r', i), True) not in m) or not (B.deps(bv.bits[i]) <= {('r', i), ('p1', i), ('all', i)}):
            return None
        if (('p1', i), True) in m:
            colours.add('gold')
        elif (('p1', i), False) in m:
            colours.add('silver')
        else:
            return None
    if len(colours) != 1:
        return None
    col = colours.pop()
    sqs = set(live)
    if sqs == set(range(64)):
        return ('rabbits', col, sqs)
    return ('goal', col, sqs)


def atoms_in(v, acc=None):
    acc = set() if acc is None else acc
    if isinstance(v, Ite):
        for x in B.rawvars(v.c):
            if x[0] == '@':
                acc.add(x[1])
        atoms_in(v.a, acc)
        atoms_in(v.b, acc)
    return acc


def eval_partial(v, asg):
    """Follow Ite nodes whose condition is decided by asg (atom id -> 0/1); stop at the first undecided one."""
    while isinstance(v, Ite):
        c = v.c
        if c.kind != 's':
            return v
        if not all((x[0] == '@' and x[1] in asg) for x in c.sup):
            return v
        i = 0
        for j, x in enumerate(c.sup):
            i |= asg[x[1]] << j
        v = v.a if c.tt[i] else v.b
    return v


def eval_deep(v, asg):
    v = eval_partial(v, asg)
    if isinstance(v, Enum) and v.fields:
        return Enum(v.ty, v.var, [eval_deep(x, asg) for x in v.fields])
    return v


def terminal_name(prog, v):
    if isinstance(v, Enum) and v.var == 0:
        return None
    if isinstance(v, Enum) and v.var == 1:
        t = v.fields[0]
        if not isinstance(t, Enum):
            return '?'
        return prog.types['terminal::Terminal']['variants'][t.var]['name']
    return '?'


def check_terminal(ctx, prog, I):
    ctx.rule('C04.1', 'is_terminal: setup -> None; mid-turn -> exactly has_move(); at turn start the goal atoms are consulted '
                      'first, then elimination, then has_move, each only when the earlier ones are all false')
    ctx.rule('C04.2', 'official order: goal of the player who just moved, goal of the player to move, player to move has no '
                      'rabbits, player who just moved has no rabbits, player to move cannot move (loses)')
    ctx.rule('C04.3', 'goal atoms: gold rabbit on exactly rank 8, silver rabbit on exactly rank 1; elimination atoms range over '
                      'all 64 squares with the colour and rabbit literals')
    fn = prog.one('GameState::is_terminal')
    if not ctx.anchor('fn GameState::is_terminal', fn is not None):
        return
    for gold in (True, False):
        r = run_fn(I, prog, 'GameState::is_terminal', inputs.place_state(prog, gold))
        ok = isinstance(r, Enum) and r.var == 0
        ctx.ob('is_terminal during setup (%s) is None' % ('gold' if gold else 'silver'), ok)
        if not ok:
            ctx.finding('C04.1', fn, 'setup', 'a result can be reported during setup')
    for gold in (True, False):
        side = 'gold' if gold else 'silver'
        for step in (1, 2, 3):
            for kind, s, p in (('None', None, None), ('MustCompletePush', 27, 'Dog')):
                gsv = inputs.play_state(prog, gold, step, kind, s, p)
                r = run_fn(I, prog, 'GameState::is_terminal', gsv)
                hm = run_fn(I, prog, 'GameState::has_move', gsv, inputs.board(prog))
                ok = r == hm
                ctx.ob('[%s step %d %s] mid-turn result is exactly has_move()' % (side, step, kind), ok, sample=(step == 2 and gold))
                if not ok:
                    ctx.finding('C04.1', fn, 'midturn:%s' % side, 'mid-turn (step %d) the result is not just has_move(): goal / '
                                'elimination conditions are consulted in the middle of a turn' % step)
        gsv = inputs.play_state(prog, gold, 0)
        r = run_fn(I, prog, 'GameState::is_terminal', gsv)
        hm = run_fn(I, prog, 'GameState::has_move', gsv, inputs.board(prog))
        ids = atoms_in(r) - atoms_in(hm)
        roles = {}
        for aid in ids:
            role = classify_atom(B.ATOMS[aid])
            if role:
                roles[(role[0], role[1])] = (aid, role[2])
        need = [('goal', 'gold'), ('goal', 'silver'), ('rabbits', 'gold'), ('rabbits', 'silver')]
        missing = [n for n in need if n not in roles]
        ctx.ob('[%s] four start-of-turn atoms identified by footprint: %s' % (side, sorted(roles)), not missing, sample=True)
        if missing:
            ctx.finding('C04.3', fn, 'atoms:%s' % side, 'cannot identify the conditions %s among the start-of-turn tests '
                        '(a goal rank or rabbit test has an unexpected footprint)' % missing)
            continue
        okg = roles[('goal', 'gold')][1] == {i for i in range(64) if G.rank_of(i) == 8}
        oks = roles[('goal', 'silver')][1] == {i for i in range(64) if G.rank_of(i) == 1}
        ctx.ob('[%s] gold goal squares = rank 8 (%d squares)' % (side, len(roles[('goal', 'gold')][1])), okg)
        ctx.ob('[%s] silver goal squares = rank 1 (%d squares)' % (side, len(roles[('goal', 'silver')][1])), oks)
        if not okg:
            ctx.finding('C04.3', fn, 'goal-rank:gold', 'gold\'s goal test covers %s, expected all of rank 8'
                        % sorted(G.name(i) for i in roles[('goal', 'gold')][1]))
        if not oks:
            ctx.finding('C04.3', fn, 'goal-rank:silver', 'silver\'s goal test covers %s, expected all of rank 1'
                        % sorted(G.name(i) for i in roles[('goal', 'silver')][1]))
        # decision table over the four atoms
        me, other = ('gold', 'silver') if gold else ('silver', 'gold')
        win = {'gold': 'GoldWin', 'silver': 'SilverWin'}
        for code in range(16):
            gl, gm, lm, ll = (code >> 3) & 1, (code >> 2) & 1, (code >> 1) & 1, code & 1
            # gl: goal of last mover (other), gm: goal of mover (me), lm: mover lost rabbits, ll: last mover lost rabbits
            asg = {
                roles[('goal', other)][0]: gl,
                roles[('goal', me)][0]: gm,
                # rabbit atoms are "has rabbits" (!= 0): lost = 0
                roles[('rabbits', me)][0]: 0 if lm else 1,
                roles[('rabbits', other)][0]: 0 if ll else 1,
            }
            leaf = eval_deep(r, asg)
            if gl:
                want = win[other]
            elif gm:
                want = win[me]
            elif lm:
                want = win[other]
            elif ll:
                want = win[me]
            else:
                want = 'HAS_MOVE'
            if want == 'HAS_MOVE':
                ok = leaf == hm
                got = 'has_move()' if ok else 'something else'
            else:
                got = terminal_name(prog, leaf) if isinstance(leaf, Enum) else 'undecided'
                ok = got == want
            ctx.ob('[%s to move] goal(last)=%d goal(mover)=%d lost(mover)=%d lost(last)=%d -> %s' % (side, gl, gm, lm, ll, want),
                   ok, sample=(code in (12, 3) and gold))
            if not ok:
                ctx.finding('C04.2', fn, 'order:%s:%d%d%d%d' % (side, gl, gm, lm, ll),
                            '%s to move, goal(last mover)=%d goal(mover)=%d mover-has-no-rabbits=%d last-mover-has-no-rabbits=%d: '
                            'reported %s, official order gives %s' % (side, gl, gm, lm, ll, got, want))
        # has_move: every Some leaf is a loss for the player on move
        bad = [x for x in leaves(hm) if terminal_name(prog, x) not in (None, win[other])]
        ctx.ob('[%s] "no move" is a loss for the player on move' % side, not bad)
        if bad:
            ctx.finding('C04.2', prog.one('GameState::has_move'), 'immobilised:%s' % side,
                        'with %s to move and no move available the reported winner is %s' % (side, terminal_name(prog, bad[0])))


def leaves(v):
    if isinstance(v, Ite):
        return leaves(v.a) + leaves(v.b)
    return [v]
