from . import rules_c03, rules_c01, inputs
from .check_c01 import QUICK_SQUARES
from spec import geometry as G


def run(ctx, prog, facts, tier):
    I = inputs.make_interp(prog, fuel=5000000)
    sqs = [G.sq('d', 4), G.sq('a', 8), G.sq('h', 1), G.sq('c', 3)] if tier == 'quick' else list(range(64))
    rules_c03.check_status_machine(ctx, prog, I, sqs)
    ctx.floor('C12 status modes', ctx.analysed.get('status_modes', 0), 100)
    rules_c01.check_strictness(ctx, prog, I)
    from . import rules_local
    rules_local.check_complete_tables(ctx, prog, I)
    # while a push is pending the rule-only list has the must-complete shape (C01.5 clause), sample of modes
    ctx.rule('C01.5', 'while a push is pending only completing steps are offered')
    for gold in (True, False):
        for s in QUICK_SQUARES[:6]:
            rules_c01.check_sinks_mode(ctx, prog, I, gold, 2, 'MustCompletePush', s, 'Dog', detail_squares=[])
    # every turn-ending constructor yields None: C03 table
    ctx.exhaustive = tier != 'quick'
    ctx.assumptions += ['NOT decided: "and there is at least one" completing step (needs the geometry of legal pushes)',
                        'MustCompletePush is never built with Elephant because elephants are never threatened (C01.3), argument']
    return ('Decision table of the push/pull status machine read off the abstract successor state for every '
            '(owner, type) of the moved piece, previous status and geometry; strictness by piece-pair tables.',
            ['factgen MIR export', 'std summaries'])
