"""C11: mirror and colour-swap symmetry of everything the other analyses compute (DESIGN 4 C11)."""
from . import bits as B
from .bits import C0, C1
from .values import BV
from . import inputs
from .common import proj, mover_lits, real_lits
from .rules_c01 import run_valid_actions, classify_items
from spec import geometry as G

MIRROR_DIR = {'Up': 'Up', 'Down': 'Down', 'Left': 'Right', 'Right': 'Left'}
FLIP_DIR = {'Up': 'Down', 'Down': 'Up', 'Left': 'Left', 'Right': 'Right'}


def check_constants(ctx, prog):
    ctx.rule('C11.1', 'mask constants are mapped to themselves or to their partner by the file mirror and by the rank flip')
    pairs_m = [('LEFT_COLUMN_MASK', 'RIGHT_COLUMN_MASK'), ('TOP_ROW_MASK', 'TOP_ROW_MASK'), ('BOTTOM_ROW_MASK', 'BOTTOM_ROW_MASK'),
               ('TRAP_MASK', 'TRAP_MASK'), ('P1_OBJECTIVE_MASK', 'P1_OBJECTIVE_MASK'), ('P2_OBJECTIVE_MASK', 'P2_OBJECTIVE_MASK')]
    pairs_f = [('TOP_ROW_MASK', 'BOTTOM_ROW_MASK'), ('LEFT_COLUMN_MASK', 'LEFT_COLUMN_MASK'), ('RIGHT_COLUMN_MASK', 'RIGHT_COLUMN_MASK'),
               ('TRAP_MASK', 'TRAP_MASK'), ('P1_OBJECTIVE_MASK', 'P2_OBJECTIVE_MASK'), ('P1_PLACEMENT_MASK', 'P2_PLACEMENT_MASK')]
    for (pairs, f, nm) in ((pairs_m, G.mirror_file, 'mirror'), (pairs_f, G.flip_rank, 'rank flip')):
        for a, b in pairs:
            va, vb = prog.const_int(a), prog.const_int(b)
            if va is None or vb is None:
                ctx.anchor('constant %s/%s' % (a, b), False)
                continue
            ok = G.map_mask(va, f) == vb
            ctx.ob('%s(%s) == %s' % (nm, a, b), ok, sample=(a == 'TRAP_MASK'))
            if not ok:
                ctx.finding('C11.1', 'const ' + a, nm.replace(' ', '-'), '%s is not mapped onto %s by the %s' % (a, b, nm))


def table(prog, I, gold, step):
    """(kind, direction, square) -> normalised facts of the own-step / push-start generators."""
    r = run_valid_actions(I, prog, inputs.play_state(prog, gold, step), False)
    out = {}
    for x in classify_items(prog, r):
        if x[0] != 'bulk' or x[2][0] != 'Move':
            continue
        d = x[2][2]
        bv = x[3]
        live = [i for i, b in enumerate(bv.bits) if b is not C0]
        if not live:
            continue
        i0 = live[len(live) // 2]
        own = all(l in B.must(bv.bits[i0]) for l in mover_lits(gold, i0))
        kind = 'own' if own else 'push'
        for i in range(64):
            b = bv.bits[i]
            if b is C0:
                out[(kind, d, i)] = None
                continue
            m = B.must(b)
            facts = {
                'deps': frozenset(proj(B.deps(b))),
                'raw': frozenset(B.deps(b)),
                'src_colour': 'mover' if all(l in m for l in mover_lits(gold, i)) else
                              ('opponent' if all(l in m for l in mover_lits(not gold, i)) else '?'),
                'empties': frozenset(v[1] for (v, p) in m if v[0] == 'all' and not p),
                'not_rabbit': (('r', i), False) in m,
            }
            out[(kind, d, i)] = facts
    return out


def map_facts(f, sqmap, raw=False):
    if f is None:
        return None
    out = {'deps': frozenset((sqmap(s), k) for (s, k) in f['deps']), 'src_colour': f['src_colour'],
           'empties': frozenset(sqmap(s) for s in f['empties']), 'not_rabbit': f['not_rabbit']}
    if raw:
        # within one side the code is compared with itself, so the exact variable sets must correspond
        out['raw'] = frozenset((n, sqmap(s)) for (n, s) in f['raw'])
    return out


def strip_raw(f):
    if f is None:
        return None
    return {k: v for k, v in f.items() if k != 'raw'}


def check_equivariance(ctx, prog, I):
    ctx.rule('C11.2', 'the computed generator tables (own steps, push starts: dependency footprint, source colour, destination-empty '
                      'literal, rabbit restriction) are mapped onto themselves by the file mirror with Left/Right swapped, and onto the '
                      'other side\'s table by the rank flip with Up/Down swapped')
    fn = prog.one('GameState::valid_actions_')
    tabs = {}
    for gold in (True, False):
        for step in (0, 3):
            tabs[(gold, step)] = table(prog, I, gold, step)
    for (gold, step), T in tabs.items():
        bad = None
        for (kind, d, i), f in T.items():
            g = T.get((kind, MIRROR_DIR[d], G.mirror_file(i)), 'missing')
            if g == 'missing' or map_facts(f, G.mirror_file, raw=True) != g:
                bad = (kind, d, i)
                break
        ctx.ob('[%s step %d] table invariant under file mirror (%d entries)' % ('gold' if gold else 'silver', step, len(T)), bad is None,
               sample=(gold and step == 0))
        if bad:
            ctx.finding('C11.2', fn, 'mirror:%s:%s' % (bad[0], bad[1]),
                        '%s step %s%s is treated differently from its mirror image %s%s' % (bad[0], G.name(bad[2]), bad[1],
                                                                                           G.name(G.mirror_file(bad[2])), MIRROR_DIR[bad[1]]))
        T2 = tabs[(not gold, step)]
        bad = None
        for (kind, d, i), f in T.items():
            g = T2.get((kind, FLIP_DIR[d], G.flip_rank(i)), 'missing')
            if g == 'missing' or map_facts(f, G.flip_rank) != strip_raw(g):
                bad = (kind, d, i)
                break
        ctx.ob('[%s step %d] table maps onto the other side\'s under colour swap + rank flip' % ('gold' if gold else 'silver', step),
               bad is None, sample=(gold and step == 0))
        if bad:
            ctx.finding('C11.2', fn, 'colourflip:%s:%s' % (bad[0], bad[1]),
                        '%s\'s %s step %s%s is treated differently from %s\'s %s%s' % ('gold' if gold else 'silver', bad[0], G.name(bad[2]), bad[1],
                                                                                      'silver' if gold else 'gold', G.name(G.flip_rank(bad[2])),
                                                                                      FLIP_DIR[bad[1]]))
