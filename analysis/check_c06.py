from . import rules_c03, rules_rep, rules_list, rules_hash, inputs
from spec import geometry as G


def modes(tier):
    out = []
    for gold in (True, False):
        for step in range(4):
            for trapped in (False, True):
                out.append((gold, step, 'None', None, None, trapped))
        for step in (1, 2, 3):
            sqs = [G.sq('d', 4)] if tier == 'quick' else [G.sq('d', 4), G.sq('a', 8), G.sq('h', 1), G.sq('c', 3)]
            for s in sqs:
                out.append((gold, step, 'PossiblePull', s, 'Horse', False))
                out.append((gold, step, 'MustCompletePush', s, 'Dog', False))
                if step == 3:
                    out.append((gold, step, 'PossiblePull', s, 'Horse', True))
    return out


def self_controls(prog, facts):
    from . import perturb

    def rule(c, p2):
        rules_rep.check_c06(c, p2, inputs.make_interp(p2, fuel=40000000), [(True, 2, 'None', None, None, False)])
    return perturb.run_controls([('filter active from the third step',
                                  lambda f: perturb.perturb_int(f, 'GameState::remove_passing_like_actions', 3, 2, ty='usize'), rule, 'C06')], facts)

def run(ctx, prog, facts, tier):
    I = inputs.make_interp(prog, fuel=40000000)
    ms = modes(tier)
    rules_rep.check_c06(ctx, prog, I, ms)
    rules_list.check_list(ctx, prog, I, 'C06')
    # the captured-this-turn flag switches the filter off: set by a capture, sticky within the turn, cleared at turn end (C03 clauses)
    from .check_c03 import MOVES_Q, STATUS
    rules_c03.check_transitions(ctx, prog, inputs.make_interp(prog, fuel=5000000), MOVES_Q[:2], STATUS[:1])
    # the two tests compare hashes: a board feature that does not reach the hash (or shares a table row with another) makes them
    # withhold actions whose result is a different board
    rules_hash.check_tables(ctx, prog)
    rules_hash.check_index_maps(ctx, prog, I)
    rules_hash.check_from_piece_board(ctx, prog, I)
    ctx.floor('C06 modes', ctx.analysed.get('c06_modes', 0), len(ms))
    ctx.exhaustive = False
    ctx.assumptions += ['NOT decided: that hash equality coincides with board equality beyond the structural clauses (every piece on every square is its own XOR term, tables pairwise distinct and non-zero, index maps injective); the capture / forgetting clause as behaviour']
    return ('Item-by-item comparison of the abstract lists valid_actions_(true) and valid_actions_(false) in every mode; the added '
            'conditions are decoded as Boolean functions over the two repetition tests.', ['factgen MIR export', 'std summaries'])
