from . import rules_panic, rules_text, rules_sq, rules_notation, inputs


CONTROL_KEYS = ['PANIC-SITE/<ctl_parse::Num as std::str::FromStr>::from_str/std::result::Result::<T, E>::unwrap',
                'PANIC-SITE/<ctl_parse::Num as std::str::FromStr>::from_str/<std::vec::Vec<T, A> as std::ops::Index<I>>::index',
                'PANIC-SITE/<ctl_parse::Num as std::str::FromStr>::from_str/Overflow']


def controls(cprog, cfacts):
    """an unwrap on parsed input, an unchecked index and an unchecked subtraction must all be reported"""
    from . import core
    c = core.Ctx('C16', 'control', 'other')
    rules_panic.check_parsers(c, cprog, ['ctl_parse::Num'], 'C16')
    keys = [f['key'] for f in c.findings]
    return [k for k in CONTROL_KEYS if k not in keys]

def run(ctx, prog, facts, tier):
    I, _sites = rules_panic.check_parsers(ctx, prog, ['action::Action', 'square::Square', 'piece::Piece', 'direction::Direction'], 'C16')
    ctx.rule('C16.canon', 'integers inside the notation are parsed from exactly one character (char::to_string): the integer parser of std '
                          'also accepts a leading + and leading zeros, so parsing an unbounded piece of text would accept strings that are '
                          'not the printed form of the result')
    for e in I.events:
        if e[0] == 'int-parse':
            ok = e[3] == 'one-char'
            ctx.ob('integer parse in %s is applied to a one-character string' % e[1], ok, sample=True)
            if not ok:
                ctx.finding('C16.canon', e[1] or '?', 'int-parse', 'an integer is parsed from text of unbounded length: "+1", "01", "0008" '
                            'would be accepted although they are never printed', at=e[2])
    I2 = inputs.make_interp(prog)
    rules_sq.check_conversions(ctx, prog, I2)
    rules_sq.check_display(ctx, prog, I2)
    # what each parser accepts and returns, decided as a table over symbolic characters (independent of how it is written)
    rules_notation.check_notation(ctx, prog)
    ctx.exhaustive = True
    ctx.assumptions += [
        'the 64 squares are enumerated as constants through the interpreter (finite domain)',
        'C16.N decides texts of 0..6 characters; each character ranges over classes of code points represented by a candidate '
        'alphabet (ASCII, the low-byte / low-word aliasing windows, the extremes): a test that singles out a code point outside the '
        'alphabet without comparing against a constant inside it would not be seen; longer texts are covered by the length tests '
        'being equalities (C16.N rejects 4..6 characters) and by C16.canon',
        'contract table: chars/collect/to_string/parse::<usize>/RangeInclusive::contains do not panic; Vec indexing is discharged '
        'from the dominating length comparison']
    return ('Panic-freedom of the four notation parsers for an arbitrary opaque string (vector indexing and slicing discharged from '
            'the dominating length tests, arithmetic from range tests, no lossy narrowing cast); decision tables of the four '
            'parsers over symbolic characters against the printed forms; square conversions on all 64 squares.', ['factgen MIR export', 'std contract table in analysis/summaries.py'])
