from . import rules_panic, rules_text, inputs


def run(ctx, prog, facts, tier):
    rules_panic.check_parsers(ctx, prog, ['action::Action', 'square::Square', 'piece::Piece', 'direction::Direction'], 'C16')
    rules_text.check_piece_direction_tables(ctx, prog)
    rules_text.check_action_delegation(ctx, prog)
    ctx.floor('C16 parser panic sites', ctx.analysed.get('panic_sites_parser', 0), 5)
    ctx.exhaustive = True
    ctx.assumptions += [
        'NOT decided: that Square::new / column_char / row / index / as_bit_board / from_bit_board are mutually inverse on all 64 '
        'squares (modular arithmetic on run-time values)',
        'contract table: chars/collect/to_string/parse::<usize>/RangeInclusive::contains do not panic; Vec indexing is discharged '
        'from the dominating length comparison']
    return ('Panic-freedom of the four notation parsers for an arbitrary opaque string (vector indexing and slicing discharged from '
            'the dominating length tests, arithmetic from range tests, no lossy narrowing cast); letter tables printed vs parsed; '
            'delegation structure of Action.', ['factgen MIR export', 'std contract table in analysis/summaries.py'])
