from . import rules_hash, inputs


CONTROL_PREFIXES = ['C17.1/const SQUARE_VALUES/dup:', 'C17.1/const SQUARE_VALUES/zero:',
                    'C17.1/const PUSH_VALUES+POSSIBLE_PULL_VALUES/dup:', 'C17.1/const STEP_VALUES/dup:']


def controls(cprog, cfacts):
    from . import core
    c = core.Ctx('C17', 'control', 'proof')
    rules_hash.check_tables(c, cprog)
    keys = [f['key'] for f in c.findings]
    return [p for p in CONTROL_PREFIXES if not any(k.startswith(p) for k in keys)]

def run(ctx, prog, facts, tier):
    I = inputs.make_interp(prog, fuel=5000000)
    rules_hash.check_tables(ctx, prog)
    rules_hash.check_index_maps(ctx, prog, I)
    rules_hash.check_transposition(ctx, prog, I)
    rules_hash.check_from_piece_board(ctx, prog, I)
    rules_hash.check_h1(ctx, I, 'all hash constructors')
    ctx.exhaustive = True
    ctx.assumptions += ['with an XOR hash two states differing in one feature differ by one term or by the XOR of two distinct '
                        'terms of one table; non-zero + pairwise distinct + injective indices make that non-zero',
                        'states are built with GameState::new / PlayPhase::new from a hash computed by from_piece_board']
    return ('Exhaustive pairwise comparison of the constant tables read out of the const-evaluated allocations; index maps '
            'evaluated for every piece type and colour; each feature enters the hash as exactly one XOR term.',
            ['rustc const evaluation', 'factgen MIR export'])
