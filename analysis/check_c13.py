from . import rules_c02, rules_text, inputs
from .check_c01 import QUICK_SQUARES
from spec import geometry as G


def run(ctx, prog, facts, tier):
    I = inputs.make_interp(prog, fuel=5000000)
    sqs = None if tier != 'quick' else sorted(set(QUICK_SQUARES + [n for t in G.TRAPS for n in G.neighbours(t)]))
    mvs = rules_c02.moves(True, sqs)
    rules_c02.check_preview(ctx, prog, I, mvs)
    from . import rules_local
    rules_local.check_preview_tables(ctx, prog, I)
    rules_c02.check_capture_footprint(ctx, prog, I)
    rules_c02.check_take_action_composition(ctx, prog, I, mvs[::4])
    # the preview reads the owner from the gold mask: sound only if that mask never holds a bit of an empty square, also for
    # positions that come from text
    rules_text.check_parsed_board_consistent(ctx, prog, 'C13', full=False)
    ctx.floor('C13 preview modes', len(mvs), 60)
    ctx.exhaustive = tier != 'quick'
    ctx.assumptions += ['NOT decided: "no single step removes more than one piece" (a geometric fact about legal steps, '
                        'not a shape of this code)']
    return ('Sibling agreement by value equality in the abstract domain: the preview\'s condition, square, type and owner '
            'are compared with move_piece / trapped_piece_bits applied to the same board, which take_action provably uses.',
            ['factgen MIR export', 'std summaries'])
