from . import rules_c04, rules_geom, inputs


def self_controls(prog, facts):
    from . import perturb
    from spec import geometry as G

    def rule(c, p2):
        rules_c04.check_terminal(c, p2, inputs.make_interp(p2, fuel=8000000))
    return perturb.run_controls([('h1 removed from silver goal',
                                  lambda f: perturb.perturb_const(f, 'P2_OBJECTIVE_MASK', G.SILVER_GOAL & ~(1 << 63)), rule, 'C04.3')], facts)

def run(ctx, prog, facts, tier):
    I = inputs.make_interp(prog, fuel=8000000)
    rules_geom.check_constants(ctx, prog, which=['TOP_ROW_MASK', 'BOTTOM_ROW_MASK', 'P1_OBJECTIVE_MASK', 'P2_OBJECTIVE_MASK'],
                               rule='C04.F')
    rules_c04.check_terminal(ctx, prog, I)
    # fifth condition: 'the player to move has no legal step' is has_move(), which must agree with the offered list
    from . import rules_rep
    rules_rep.check_has_move(ctx, prog)
    # ... and 'no legal step' hinges on which pieces are frozen: the exact local tables of threat and freezing (C01 clauses)
    from . import rules_local
    I3 = inputs.make_interp(prog, fuel=5000000)
    rules_local.check_threat_tables(ctx, prog, I3, True)
    rules_local.check_freeze_tables(ctx, prog, I3, True)
    ctx.exhaustive = True
    ctx.assumptions += ['has_move is shown equivalent to "the offered list is non-empty" (C07.2 clauses); that the list itself is the legal set is C01 (its threat / freezing tables are included here)',
                        'atoms are identified by the dependency footprint and must-literals of the tested bitboard']
    return ('Decision tree of is_terminal extracted by abstract interpretation; the four start-of-turn conditions are '
            'identified by footprint and all 16 x 2 combinations are evaluated against the official order; goal ranks '
            'checked square by square.', ['factgen MIR export', 'std summaries'])
