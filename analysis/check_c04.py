from . import rules_c04, rules_geom, inputs


def run(ctx, prog, facts, tier):
    I = inputs.make_interp(prog, fuel=8000000)
    rules_geom.check_constants(ctx, prog, which=['TOP_ROW_MASK', 'BOTTOM_ROW_MASK', 'P1_OBJECTIVE_MASK', 'P2_OBJECTIVE_MASK'],
                               rule='C04.F')
    rules_c04.check_terminal(ctx, prog, I)
    ctx.exhaustive = True
    ctx.assumptions += ['NOT decided: correctness of has_move as "no legal step" (C07/C01)',
                        'atoms are identified by the dependency footprint and must-literals of the tested bitboard']
    return ('Decision tree of is_terminal extracted by abstract interpretation; the four start-of-turn conditions are '
            'identified by footprint and all 16 x 2 combinations are evaluated against the official order; goal ranks '
            'checked square by square.', ['factgen MIR export', 'std summaries'])
