from . import rules_rep, rules_c04, inputs
from .check_c06 import modes


def self_controls(prog, facts):
    from . import perturb

    def rule(c, p2):
        rules_rep.check_has_move(c, p2, tables=False)
    return perturb.run_controls([('has-move shortcut with another step cut',
                                  lambda f: perturb.perturb_int(f, 'GameState::has_non_passing_like_action', 3, 2, ty='usize'), rule, 'C07.2a')], facts)

def run(ctx, prog, facts, tier):
    I = inputs.make_interp(prog, fuel=40000000)
    rules_rep.check_c07(ctx, prog, I, modes(tier))
    # mid-turn result is has_move, and "no move" is a loss for the player on move (C04 clauses reused)
    rules_c04.check_terminal(ctx, prog, I)
    ctx.exhaustive = False
    ctx.assumptions += ['NOT decided: non-emptiness of the list in play beyond the equivalence has_move <=> list non-empty (it rests on '
                        'is_terminal consulting has_move, which is checked)',
                        'Boolean equivalence in clause 2 is decided with exact truth tables over at most 10 opaque tests']
    return ('Sibling agreement: can_pass against the Pass item\'s guard in every mode; has_non_passing_like_action against '
            'remove_passing_like_actions by exact truth tables; has_move against the generators of valid_actions_ with the per-list '
            'test abstracted; setup guards and limits.', ['factgen MIR export', 'std summaries'])
