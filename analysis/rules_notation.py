"""C16 (notation), shape-independent: what each notation parser accepts and what it returns, as a decision table over
*symbolic characters*.

A parser is interpreted on a structured text of n symbolic characters (n = 0 .. 6).  The result is a tree whose inner
nodes are tests on single characters (equality with a constant, range tests, comparisons of simple arithmetic on the
code point) and whose leaves are Ok(value) / Err.  For each character position the code points are partitioned by the
truth values of the tests that mention that character (evaluated over a candidate alphabet that contains ASCII, the
Latin-1 / low-byte aliasing windows and the extremes), the tree is evaluated on every combination of classes, and the
accepted set and the returned values are compared with the printed forms (obtained from the Display impls):

  N.piece / N.dir   one character: exactly the printed letters (piece letters also upper case) -> the same value
  N.square          two characters: file a..h then rank 1..8 -> Square with index from spec/geometry
  N.action          "p" -> Pass; piece letter -> Place; square + direction -> Move; nothing else
  every other length is rejected

Nothing here depends on how the parser is written (collecting into a Vec, pulling from chars(), helper functions ..).
"""
from . import bits as B
from .bits import C0, C1
from .values import BV, Struct, Enum, Ref, Term, Ite, Tok, Seq
from .mai import State, Undecided
from . import inputs
from .rules_panic import find_impl
from spec import geometry as G


class CannotEval(Exception):
    pass


def alphabet():
    s = set(range(0, 0x300)) | set(range(0x2F00, 0x3100)) | set(range(0xFF00, 0x10100)) | {0xD7FF, 0xE000, 0x10FFFF, 0x1F600}
    return sorted(c for c in s if not (0xD800 <= c <= 0xDFFF))


def ev_term(v, env):
    """concrete value of a term under env: {token name: int}"""
    if isinstance(v, BV):
        if v.known():
            return v.uval()
        raise CannotEval('symbolic bit vector')
    if not isinstance(v, Term):
        raise CannotEval('value %r' % (v,))
    k = v.kind
    mask = (1 << v.w) - 1
    if k == 'tok':
        if v.args[0] not in env:
            raise CannotEval('token %s' % (v.args[0],))
        return env[v.args[0]]
    if k == 'affine':
        return (ev_term(v.args[0], env) + v.args[1]) & mask
    if k in ('narrowed', 'cast', 'zext', 'trunc'):
        return ev_term(v.args[0], env) & mask
    if k == 'wrapping':
        op, x, y = v.args
        a, b = ev_term(x, env), ev_term(y, env)
        return {'add': a + b, 'sub': a - b, 'mul': a * b}[op] & mask
    if k == 'arith':
        op, x, y = v.args
        a, b = ev_term(x, env), ev_term(y, env)
        if op.startswith('Add'):
            return (a + b) & mask
        if op.startswith('Sub'):
            return (a - b) & mask
        if op.startswith('Mul'):
            return (a * b) & mask
        if op == 'Div' and b:
            return a // b
        if op == 'Rem' and b:
            return a % b
    raise CannotEval('term kind %s' % k)


def ev_atom(a, env):
    if a.kind == 'cmp':
        op, x, y = a.payload
        p, q = ev_term(x, env), ev_term(y, env)
        return {'Eq': p == q, 'Ne': p != q, 'Lt': p < q, 'Le': p <= q, 'Gt': p > q, 'Ge': p >= q}[op]
    if a.kind == 'inrange':
        x, lo, hi = a.payload
        return lo <= ev_term(x, env) <= hi
    if a.kind == 'nz':
        raise CannotEval('nz atom')
    raise CannotEval('atom kind %s' % a.kind)


def ev_bit(b, env):
    if b.kind == 'c':
        return bool(b.tt)
    if b.kind != 's':
        raise CannotEval('wide condition')
    asg = {}
    for v in b.sup:
        if v[0] != '@':
            raise CannotEval('condition on %r' % (v,))
        asg[v] = 1 if ev_atom(B.ATOMS[v[1]], env) else 0
    return bool(B._ev(b, asg))


def ev_value(v, env):
    """resolve Ite layers; Ok(x) -> ('Ok', x), Err -> ('Err',)"""
    while isinstance(v, Ite):
        v = v.a if ev_bit(v.c, env) else v.b
    return v


def tokens_of_bit(b):
    out = set()
    for v in B.rawvars(b):
        if v[0] == '@':
            out |= tokens_of_value(B.ATOMS[v[1]].payload)
    return out


def tokens_of_value(v):
    out = set()
    if isinstance(v, Term):
        if v.kind == 'tok':
            out.add(v.args[0])
        for x in v.args:
            out |= tokens_of_value(x)
    elif isinstance(v, (tuple, list)):
        for x in v:
            out |= tokens_of_value(x)
    elif isinstance(v, (Struct, Enum)):
        for x in v.fields:
            out |= tokens_of_value(x)
    elif isinstance(v, Ite):
        out |= tokens_of_bit(v.c) | tokens_of_value(v.a) | tokens_of_value(v.b)
    return out


def conds_of(v, acc):
    if isinstance(v, Ite):
        acc.append(v.c)
        conds_of(v.a, acc)
        conds_of(v.b, acc)
    elif isinstance(v, (Struct, Enum)):
        for x in v.fields:
            conds_of(x, acc)
    return acc


def parse_symbolic(prog, I, pfn, n):
    from . import summaries
    chars = [Term('tok', ('c%d' % i,), 32, 0, 0x10FFFF) for i in range(n)]
    st = State({})
    I.memo.clear()
    r, _ = I.call_fn(pfn, [inputs.ref_to(I, st, 's', summaries.text_value(chars))], st)
    return r


def classes(tree, n, sigma):
    """per character position: classes of code points that no test of the tree can tell apart"""
    conds = conds_of(tree, [])
    per = [[] for _ in range(n)]
    seen_atoms = set()
    for c in conds:
        if c.kind == 'c':
            continue
        if c.kind != 's':
            raise CannotEval('wide condition')
        for v in c.sup:
            if v[0] != '@':
                raise CannotEval('condition on %r' % (v,))
            if v[1] in seen_atoms:
                continue
            seen_atoms.add(v[1])
            at = B.ATOMS[v[1]]
            toks = tokens_of_value(at.payload)
            if len(toks) != 1:
                raise CannotEval('a test combines several characters (or none): %s %r' % (at.kind, sorted(toks)))
            per[int(next(iter(toks))[1:])].append(at)
    reps = []
    for i in range(n):
        seen = {}
        for cp in sigma:
            sig = tuple(ev_atom(at, {'c%d' % i: cp}) for at in per[i])
            seen.setdefault(sig, []).append(cp)
        reps.append(seen)
    return reps


def accepted(prog, I, pfn, n, sigma):
    """{tuple of code points (class representatives expanded): value} for length n, plus the classes; raises CannotEval"""
    tree = parse_symbolic(prog, I, pfn, n)
    if n == 0:
        leaf = ev_value(tree, {})
        return tree, ({(): leaf} if is_ok(leaf) else {}), []
    cls = classes(tree, n, sigma)
    out = {}
    import itertools
    for combo in itertools.product(*[list(c.items()) for c in cls]):
        env = {'c%d' % i: members[0] for i, (sig, members) in enumerate(combo)}
        leaf = ev_value(tree, env)
        if is_ok(leaf):
            # every member combination of these classes is accepted; the value may depend on the code points
            for pts in itertools.product(*[members for sig, members in combo]):
                if len(out) > 5000:
                    raise CannotEval('more than 5000 accepted strings of length %d' % n)
                env2 = {'c%d' % i: p for i, p in enumerate(pts)}
                out[pts] = ev_value(tree, env2)
    return tree, out, cls


def is_ok(leaf):
    return isinstance(leaf, Enum) and leaf.ty.startswith('std::result::Result') and leaf.var == 0


def concrete(v, env):
    """fold a returned value to python: enum variant names / ints"""
    v = ev_value(v, env)
    if isinstance(v, Enum):
        return ('E', v.ty.split('<')[0], v.var, tuple(concrete(x, env) for x in v.fields))
    if isinstance(v, Struct):
        return ('S', v.ty.split('<')[0], tuple(concrete(x, env) for x in v.fields))
    if isinstance(v, (BV, Term)):
        return ev_term(v, env)
    raise CannotEval('value %r' % (v,))


class _Tag(list):
    def __init__(self, tag, out):
        list.__init__(self)
        self.tag, self.out = tag, out

    def append(self, x):
        self.out.append((self.tag, x))


def printed_text(prog, I, dfn, value, known=None):
    """Text a Display impl writes for a constant value: literal pieces, characters, integers (decimal) and nested values whose
    own printed form is in `known` {(type, python key): text}.  Strings produced by an inner format!/to_string are skipped
    (their content was already observed when it was produced).  '?' marks anything else."""
    ev = []
    I.watch = {'new_display': _Tag('disp', ev), '<T as std::string::ToString>::to_string': _Tag('tostr', ev),
               "Arguments::<'a>::from_str": _Tag('lit', ev), "Arguments::<'a>::new": _Tag('new', ev)}
    st = State({})
    I.memo.clear()
    try:
        v = inputs.ref_to(I, st, 'v', value)
        f = inputs.ref_to(I, st, 'f', Tok('fmt', 'std::fmt::Formatter'))
        I.call_fn(dfn, [v, Ref(f.cell, (), True)], st)
    finally:
        I.watch = {}
    from .rules_text import as_text, decode_template
    out = []
    pending = []

    def item(o):
        while isinstance(o, Ref):
            o2 = I.static_cells.get(o.cell)
            if o2 is None:
                break
            o = o2
        if isinstance(o, BV) and o.known():
            return chr(o.uval()) if o.w == 32 else str(o.uval())
        if isinstance(o, Struct) and o.ty == '$str':
            return o.fields[0]
        if known is not None:
            k = key_of(o)
            if k in known:
                return known[k]
        if isinstance(o, (Tok, Struct)) and (getattr(o, 'ty', None) or '').startswith(('std::string::String', '$String')) or isinstance(o, Tok):
            return ''          # an already formatted String
        return '?'
    for tag, (caller, args) in ev:
        if tag == 'disp':
            pending.append(item(args[0]))
        elif tag == 'tostr':
            t = item(args[0])
            if t not in ('', '?'):
                out.append(t)
        elif tag == 'lit':
            t = as_text(args[0])
            out.append(t if t is not None else '?')
        else:
            t0 = args[0]
            hexb = ''.join('%02x' % it[1].uval() for it in t0.items) if isinstance(t0, Seq) else None
            tmpl = decode_template(hexb) if hexb else None
            if tmpl is None:
                out.append('?')
                pending = []
                continue
            for kind, txt in tmpl:
                if kind == 'lit':
                    out.append(txt)
                elif pending:
                    out.append(pending.pop(0))
                else:
                    out.append('?')
            pending = []
    return ''.join(out)


def key_of(o):
    if isinstance(o, Struct) and o.ty == 'square::Square' and isinstance(o.fields[0], BV) and o.fields[0].known():
        return ('square::Square', o.fields[0].uval())
    if isinstance(o, Enum) and not o.fields:
        return (o.ty, o.var)
    return None


def printed_forms(prog, I, ty, values, known=None):
    """{name: printed text} through the Display impl (constant values only)"""
    dfn = find_impl(prog, 'std::fmt::Display', ty, 'fmt')
    return {name: printed_text(prog, I, dfn, val, known) for name, val in values}


def check_notation(ctx, prog):
    R = 'C16.N'
    ctx.rule(R, 'decision table of every notation parser over symbolic characters (lengths 0..6): the accepted strings are exactly '
                'the printed forms (piece letters also in upper case) and each parses to the value it prints; every other string is '
                'rejected')
    sigma = alphabet()
    I = inputs.make_interp(prog, fuel=20000000)
    I.strict_unknown = False
    I.precise_charparse = True
    saveK = B.K
    B.K = 14          # a letter table is a disjunction of up to 13 equality tests on one character: keep it an exact table
    try:
        _check(ctx, prog, I, R, sigma)
    except (CannotEval, Undecided) as e:
        ctx.ob('notation parsers decidable as tables over symbolic characters', False)
        ctx.finding(R, 'notation parsers', 'undecided', 'cannot decide the notation parsers as decision tables: %s' % e)
    finally:
        B.K = saveK


def _check(ctx, prog, I, R, sigma):
    pieces = [(p, inputs.piece(prog, p)) for p in G.STRENGTH]
    dirs = [(d, inputs.direction(prog, d)) for d in inputs.DIRS]
    pvar = {p: inputs.enum_variant(prog, 'piece::Piece', p) for p in G.STRENGTH}
    dvar = {d: inputs.enum_variant(prog, 'direction::Direction', d) for d in inputs.DIRS}
    Ip = inputs.make_interp(prog, fuel=5000000)
    pprint = printed_forms(prog, Ip, 'piece::Piece', pieces)
    dprint = printed_forms(prog, Ip, 'direction::Direction', dirs)
    sprint = printed_forms(prog, Ip, 'square::Square', [(i, inputs.square(i)) for i in range(64)])
    ok = all(len(t) == 1 for t in list(pprint.values()) + list(dprint.values())) and all(sprint[i] == G.name(i) for i in range(64))
    ctx.ob('printed forms: piece / direction letters are single characters, squares print as file + rank', ok, sample=True)
    if not ok:
        ctx.finding(R, 'Display', 'printed-forms', 'printed forms are %r %r %r' % (pprint, dprint, [sprint[i] for i in (0, 63)]))
        return

    def want_piece():
        w = {}
        for p, t in pprint.items():
            w[(ord(t),)] = ('E', 'piece::Piece', pvar[p], ())
            w[(ord(t.upper()),)] = ('E', 'piece::Piece', pvar[p], ())
        return w

    def want_dir():
        return {(ord(t),): ('E', 'direction::Direction', dvar[d], ()) for d, t in dprint.items()}

    def want_square():
        return {(ord(G.name(i)[0]), ord(G.name(i)[1])): ('S', 'square::Square', (i,)) for i in range(64)}

    act = prog.types['action::Action']
    avar = {v['name']: k for k, v in enumerate(act['variants'])}
    # printed forms of actions, composed from the printed forms of their parts
    known = {}
    for p_, t_ in pprint.items():
        known[('piece::Piece', pvar[p_])] = t_
    for d_, t_ in dprint.items():
        known[('direction::Direction', dvar[d_])] = t_
    for i_ in range(64):
        known[('square::Square', i_)] = sprint[i_]
    avals = [(('Pass',), Enum('action::Action', avar['Pass']))]
    avals += [(('Place', p_), Enum('action::Action', avar['Place'], (inputs.piece(prog, p_),))) for p_ in G.STRENGTH]
    avals += [(('Move', i_, d_), Enum('action::Action', avar['Move'], (inputs.square(i_), inputs.direction(prog, d_))))
              for i_ in range(64) for d_ in inputs.DIRS if G.step(i_, d_) is not None or True]
    aprint = printed_forms(prog, Ip, 'action::Action', avals, known)
    bad_print = [(k, t) for k, t in aprint.items() if '?' in t or not t]
    ctx.ob('Action prints as a composition of literal text and the printed forms of its parts (%d values)' % len(aprint), not bad_print, sample=True)
    if bad_print:
        ctx.finding(R, 'Display for Action', 'printed-forms', 'cannot compose the printed form of %r: %r' % bad_print[0])
        return

    def action_value(k):
        if k[0] == 'Pass':
            return ('E', 'action::Action', avar['Pass'], ())
        if k[0] == 'Place':
            return ('E', 'action::Action', avar['Place'], (('E', 'piece::Piece', pvar[k[1]], ()),))
        return ('E', 'action::Action', avar['Move'], (('S', 'square::Square', (k[1],)), ('E', 'direction::Direction', dvar[k[2]], ())))

    def want_action(n):
        w = {}
        for k, t in aprint.items():
            if len(t) == n:
                w[tuple(ord(c) for c in t)] = action_value(k)
                if k[0] == 'Place':
                    w[tuple(ord(c) for c in t.upper())] = action_value(k)      # piece letters may be upper case
        return w
    specs = [('piece::Piece', {1: want_piece()}), ('direction::Direction', {1: want_dir()}), ('square::Square', {2: want_square()}),
             ('action::Action', {n_: want_action(n_) for n_ in range(0, 7) if want_action(n_)})]
    for ty, wants in specs:
        pfn = find_impl(prog, 'std::str::FromStr', ty, 'from_str')
        if not ctx.anchor('impl FromStr for ' + ty, pfn is not None):
            continue
        short = ty.split('::')[-1]
        for n in range(0, 7):
            want = wants.get(n, {})
            tree, acc, cls = accepted(prog, I, pfn, n, sigma)
            got = {}
            for pts, leaf in acc.items():
                env = {'c%d' % i: p for i, p in enumerate(pts)}
                got[pts] = concrete(leaf.fields[0], env)
            extra = sorted(set(got) - set(want))
            missing = sorted(set(want) - set(got))
            wrong = sorted(k for k in set(got) & set(want) if got[k] != want[k])
            okn = not extra and not missing and not wrong
            ctx.ob('%s::from_str, texts of %d characters: accepts exactly the %d printed forms with their values' % (short, n, len(want)),
                   okn, sample=(n in wants))

            def show(k):
                return ''.join(chr(c) for c in k).encode('unicode_escape').decode()
            if extra:
                ctx.finding(R, pfn, '%s:accepts-extra:%d' % (short, n), '%s::from_str accepts %d strings of length %d that are not printed forms, '
                            'e.g. "%s" (as %r)' % (short, len(extra), n, show(extra[0]), got[extra[0]]))
            if missing:
                ctx.finding(R, pfn, '%s:rejects-printed:%d' % (short, n), '%s::from_str rejects the printed form "%s" (%d printed forms of length %d rejected)'
                            % (short, show(missing[0]), len(missing), n))
            if wrong:
                ctx.finding(R, pfn, '%s:wrong-value:%d' % (short, n), '%s::from_str parses "%s" as %r, printed by %r'
                            % (short, show(wrong[0]), got[wrong[0]], want[wrong[0]]))
        # longer texts: no accepting leaf may exist for 5 characters either (the parsers test the length, not a prefix)
    ctx.analysed['notation_alphabet'] = len(sigma)
