"""Fact generation and loading (DESIGN 2.1).

Runs the factgen rustc driver over /repo's *current working tree* and caches the
resulting JSON under /verif/.cache keyed by the SHA-256 of the tree contents,
so that 20 checks in a row cost one driver run while an edited tree is always
re-analysed.
"""
import fcntl
import hashlib
import json
import os
import shutil
import subprocess
import sys
import tempfile

VERIF = os.path.dirname(os.path.dirname(os.path.abspath(__file__)))
REPO = os.environ.get('VF_REPO', '/repo')
CACHE = os.path.join(VERIF, '.cache')
FACTGEN_DIR = os.path.join(VERIF, 'factgen')
FACTGEN_BIN = os.path.join(FACTGEN_DIR, 'target', 'debug', 'factgen')
CRATE = 'arimaa_engine_step'
GUARD = 'arimaa_engine_step_verif'


def _sha_tree(root, rels):
    h = hashlib.sha256()
    for rel in sorted(rels):
        p = os.path.join(root, rel)
        h.update(rel.encode())
        h.update(b'\0')
        with open(p, 'rb') as f:
            h.update(f.read())
        h.update(b'\0')
    return h.hexdigest()


def repo_files(repo=None):
    repo = repo or REPO
    rels = []
    for name in ('Cargo.toml', 'Cargo.lock'):
        if os.path.exists(os.path.join(repo, name)):
            rels.append(name)
    for d, _, fs in os.walk(os.path.join(repo, 'src')):
        for f in fs:
            rels.append(os.path.relpath(os.path.join(d, f), repo))
    return rels


def source_hash(repo=None):
    repo = repo or REPO
    return _sha_tree(repo, repo_files(repo))


def sysroot():
    return subprocess.check_output(['rustc', '+nightly', '--print', 'sysroot'], text=True).strip()


def ensure_factgen():
    """Build the driver if missing or older than its source."""
    src = os.path.join(FACTGEN_DIR, 'src', 'main.rs')
    if os.path.exists(FACTGEN_BIN) and os.path.getmtime(FACTGEN_BIN) >= os.path.getmtime(src):
        return
    env = dict(os.environ, CARGO_NET_OFFLINE='true')
    r = subprocess.run(['cargo', 'build', '--offline'], cwd=FACTGEN_DIR, env=env,
                       stdout=subprocess.PIPE, stderr=subprocess.STDOUT, text=True)
    if r.returncode != 0:
        sys.stderr.write(r.stdout)
        raise SystemExit('CHECKER-BROKEN: factgen does not build')


def factgen_hash():
    with open(os.path.join(FACTGEN_DIR, 'src', 'main.rs'), 'rb') as f:
        return hashlib.sha256(f.read()).hexdigest()[:16]


CONFIGS = {
    # name -> extra RUSTFLAGS
    'dev': '',
    'nochecks': '-C overflow-checks=off -C debug-assertions=off',
}


def _run_driver(crate_dir, crate_name, out_path, config='dev', lib=True):
    ensure_factgen()
    tgt = tempfile.mkdtemp(prefix='vf-target-')
    try:
        env = dict(os.environ)
        env['LD_LIBRARY_PATH'] = os.path.join(sysroot(), 'lib')
        env['RUSTFLAGS'] = ('-Zmir-opt-level=0 -Awarnings --cfg %s %s' % (GUARD, CONFIGS[config])).strip()
        env['RUSTC_WORKSPACE_WRAPPER'] = FACTGEN_BIN
        env['FACTS_OUT'] = out_path
        env['FACTS_CRATE'] = crate_name
        env['CARGO_TARGET_DIR'] = tgt
        env['CARGO_NET_OFFLINE'] = 'true'
        cmd = ['cargo', '+nightly', 'check', '--offline']
        if lib:
            cmd.append('--lib')
        r = subprocess.run(cmd, cwd=crate_dir, env=env, stdout=subprocess.PIPE,
                           stderr=subprocess.STDOUT, text=True)
        if r.returncode != 0 or not os.path.exists(out_path):
            return False, r.stdout
        return True, r.stdout
    finally:
        shutil.rmtree(tgt, ignore_errors=True)


def load(config='dev', repo=None):
    """Facts of /repo's current tree (cached by content hash). Returns (facts, meta)."""
    repo = repo or REPO
    os.makedirs(CACHE, exist_ok=True)
    key = '%s-%s-%s' % (source_hash(repo)[:24], factgen_hash(), config)
    path = os.path.join(CACHE, 'facts-%s.json' % key)
    lock = open(os.path.join(CACHE, '.lock'), 'w')
    fcntl.flock(lock, fcntl.LOCK_EX)
    try:
        fresh = False
        if not os.path.exists(path):
            tmp = path + '.tmp.%d' % os.getpid()
            ok, log = _run_driver(repo, CRATE, tmp, config)
            if not ok:
                sys.stderr.write(log[-4000:])
                raise SystemExit('CHECKER-BROKEN: /repo does not compile under the fact generator (config %s)' % config)
            os.replace(tmp, path)
            fresh = True
            _prune_cache(keep=path)
    finally:
        fcntl.flock(lock, fcntl.LOCK_UN)
        lock.close()
    with open(path) as f:
        facts = json.load(f)
    if facts.get('crate') != CRATE:
        raise SystemExit('CHECKER-BROKEN: fact file does not describe crate %s' % CRATE)
    meta = {'facts_path': path, 'source_hash': key, 'fresh': fresh, 'config': config}
    return facts, meta


def load_controls(config='dev'):
    cdir = os.path.join(VERIF, 'controls')
    rels = []
    for d, _, fs in os.walk(cdir):
        if 'target' in d.split(os.sep):
            continue
        for f in fs:
            rels.append(os.path.relpath(os.path.join(d, f), cdir))
    key = '%s-%s-%s' % (_sha_tree(cdir, rels)[:24], factgen_hash(), config)
    os.makedirs(CACHE, exist_ok=True)
    path = os.path.join(CACHE, 'controls-%s.json' % key)
    lock = open(os.path.join(CACHE, '.lock'), 'w')
    fcntl.flock(lock, fcntl.LOCK_EX)
    try:
        if not os.path.exists(path):
            tmp = path + '.tmp.%d' % os.getpid()
            ok, log = _run_driver(cdir, 'vf_controls', tmp, config)
            if not ok:
                sys.stderr.write(log[-4000:])
                raise SystemExit('CHECKER-BROKEN: controls crate does not compile')
            os.replace(tmp, path)
    finally:
        fcntl.flock(lock, fcntl.LOCK_UN)
        lock.close()
    with open(path) as f:
        return json.load(f)


def _prune_cache(keep, maxfiles=12):
    fs = [os.path.join(CACHE, f) for f in os.listdir(CACHE) if f.endswith('.json')]
    fs.sort(key=os.path.getmtime, reverse=True)
    for f in fs[maxfiles:]:
        if f != keep:
            try:
                os.remove(f)
            except OSError:
                pass
