"""C01 - offered steps are the legal steps (necessary structural clauses, DESIGN 4 C01).

  .3  strength relation: lesser_pieces / threatened_pieces tables against the official order
  .4  strictness of the two strength comparisons (decision table over piece-type pairs)
  .5  sinks: shape, must-literals and footprints of every item of valid_actions_(false) per mode
"""
from . import bits as B
from .bits import C0, C1
from .values import BV, Struct, Enum, Ref, Seq, Term, TRUE, FALSE
from .mai import State, Undecided
from . import inputs
from .common import proj, fmt_deps, fmt_lits, real_lits, mover_lits
from spec import geometry as G

TYPE_VAR = {'Elephant': 'e', 'Camel': 'm', 'Horse': 'h', 'Dog': 'd', 'Cat': 'c', 'Rabbit': 'r'}


def stronger(a, b):
    return G.STRENGTH.index(a) > G.STRENGTH.index(b)


def any_state(prog, gold=True, step=0):
    return inputs.play_state(prog, gold, step)


def board_only(prog, type_names, colour_vars=True):
    """Board where only the given type boards are free variables (others constant 0)."""
    order = inputs.pbs_field_order(prog)
    fs = []
    for n in order:
        short = inputs.SHORT[n]
        if short in ('p1', 'all'):
            fs.append(BV.var(short))
        elif short in [TYPE_VAR[t] for t in type_names]:
            fs.append(BV.var(short))
        else:
            fs.append(BV.const(0, 64))
    return Struct('engine::PieceBoardState', fs)


def check_strength_tables(ctx, prog, I):
    ctx.rule('C01.3', 'lesser_pieces(v) is the union of exactly the boards of types weaker than v; in '
                      'threatened_pieces type w threatens type v exactly when w is stronger than v '
                      '(official order rabbit < cat < dog < horse < camel < elephant)')
    fn = prog.one('GameState::lesser_pieces')
    if ctx.anchor('fn lesser_pieces', fn is not None):
        for v in G.STRENGTH:
            st = State({})
            gs = inputs.ref_to(I, st, 'gs', any_state(prog))
            pb = inputs.ref_to(I, st, 'pb', inputs.board(prog))
            r, _ = I.call_fn(fn, [gs, inputs.piece(prog, v), pb], st)
            want_types = {TYPE_VAR[t] for t in G.STRENGTH if stronger(v, t)}
            bad = None
            for i in range(64):
                d = B.deps(r.bits[i]) if isinstance(r, BV) else None
                want = {(t, i) for t in want_types}
                if d != want:
                    bad = (i, d, want)
                    break
            ok = bad is None
            ctx.ob('lesser_pieces(%s) = union of %s' % (v, sorted(want_types)), ok, sample=(v == 'Dog'))
            if not ok:
                i, d, want = bad
                ctx.finding('C01.3', fn, 'lesser:' + v,
                            'pieces weaker than %s: bit %s depends on %s, expected %s'
                            % (v, G.name(i), fmt_deps(d), fmt_deps(want)))
    fn = prog.one('GameState::threatened_pieces')
    if ctx.anchor('fn threatened_pieces', fn is not None):
        for v in G.STRENGTH:          # prey
            for w in G.STRENGTH:      # predator
                st = State({})
                gs = inputs.ref_to(I, st, 'gs', any_state(prog))
                pbv = board_only(prog, [v, w])
                pb = inputs.ref_to(I, st, 'pb', pbv)
                r, _ = I.call_fn(fn, [gs, BV.var('pred'), BV.var('prey'), pb], st)
                # does predator type w at a neighbour of i influence prey type v at i?
                i = G.sq('d', 4)
                threatens = False
                for i in (G.sq('d', 4), G.sq('a', 1), G.sq('h', 8)):
                    d = B.deps(r.bits[i])
                    nb = {(TYPE_VAR[w], n) for n in G.neighbours(i)}
                    here = (TYPE_VAR[v], i) in d and ('prey', i) in d
                    got = bool(d & nb) and here and all(('pred', n) in d for n in G.neighbours(i))
                    want = stronger(w, v)
                    if v == w:
                        # same type: the type board is shared; threat must be absent
                        got = bool(d & nb) and here
                    ok = got == want
                    ctx.ob('%s threatens %s at %s: %s' % (w, v, G.name(i), got), ok, sample=(v == 'Cat' and w == 'Dog' and i == 27))
                    if not ok:
                        ctx.finding('C01.3', fn, 'threat:%s>%s' % (w, v),
                                    '%s adjacent to an enemy %s: threatened=%s in the code, %s by the official order'
                                    % (v, w, got, want))
                        break


def check_strictness(ctx, prog, I):
    ctx.rule('C01.4', 'push completion and pull recognition compare piece strengths strictly: with mover type w '
                      'and displaced type v the step is accepted exactly when w > v (equal strength rejected)')
    fn = prog.one('GameState::must_complete_push_actions')
    sq = G.sq('d', 4)
    if ctx.anchor('fn must_complete_push_actions', fn is not None):
        for v in G.STRENGTH:
            if v == 'Elephant':
                continue
            for w in G.STRENGTH:
                st = State({})
                gsv = inputs.play_state(prog, True, 1, 'MustCompletePush', sq, v)
                pbv = board_only(prog, [w])
                # the candidate pushers next to the vacated square are of type w (decides piece_type_at_bit)
                for n in G.neighbours(sq):
                    pbv = force_type(prog, pbv, w, n)
                gsv = with_board(prog, gsv, pbv)
                gs = inputs.ref_to(I, st, 'gs', gsv)
                pb = inputs.ref_to(I, st, 'pb', pbv)
                r, _ = I.call_fn(fn, [gs, pb], st)
                got = present(r)
                want = stronger(w, v)
                ctx.ob('push of %s completed by %s accepted=%s' % (v, w, got), got == want, sample=(v == w == 'Dog'))
                if got != want:
                    ctx.finding('C01.4', fn, 'push:%s-by-%s' % (v, w),
                                'a pushed %s can%s be followed by a %s stepping in; official rule: %s'
                                % (v, '' if got else 'not', w, 'allowed' if want else 'not allowed (must be strictly stronger)'))
    # pull recognition, observed through the public transition: with PossiblePull(sq, mine) pending, an enemy piece of type
    # `their` stepping from below into sq completes the pull (status None) exactly when mine > their; otherwise the step is
    # a push that must be completed
    fn = prog.one('GameState::take_action')
    if ctx.anchor('fn GameState::take_action', fn is not None):
        from .rules_c03 import take, move_action, play_of, fld
        src = G.step(sq, 'Down')
        none_v = inputs.enum_variant(prog, 'engine::PushPullState', 'None')
        mcp_v = inputs.enum_variant(prog, 'engine::PushPullState', 'MustCompletePush')
        for mine in G.STRENGTH:
            if mine == 'Rabbit':
                continue
            for their in G.STRENGTH:
                gsv = inputs.play_state(prog, True, 1, 'PossiblePull', sq, mine)
                pbv = constant_board(prog, {src: (their, False)})
                gsv = with_board(prog, gsv, pbv)
                try:
                    r = take(I, prog, gsv, move_action(prog, src, 'Up'))
                except Undecided as e:
                    ctx.finding('UNDECIDED', fn, 'pull-strictness', 'cannot decide the status after a pull step: %s' % e)
                    continue
                pl = play_of(prog, r)
                stv = fld(prog, 'engine::PlayPhase', pl, 'push_pull_state') if pl is not None else None
                got = None
                if isinstance(stv, Enum):
                    got = True if stv.var == none_v else (False if stv.var == mcp_v else None)
                want = stronger(mine, their)
                ctx.ob('%s pulls %s accepted=%s' % (mine, their, got), got == want, sample=(mine == their == 'Cat'))
                if got != want:
                    ctx.finding('C01.4', fn, 'pull:%s-by-%s' % (their, mine),
                                'a %s that just stepped away can%s pull a %s (status afterwards: %r); official rule: %s'
                                % (mine, '' if got else 'not', their, stv, 'allowed' if want else 'not allowed'))


def constant_board(prog, pieces):
    """A fully known board: {square: (type name, is_gold)}."""
    order = inputs.pbs_field_order(prog)
    vals = {}
    for n in order:
        vals[inputs.SHORT[n]] = 0
    for sqi, (t, gold) in pieces.items():
        vals['all'] |= 1 << sqi
        if gold:
            vals['p1'] |= 1 << sqi
        vals[TYPE_VAR[t]] |= 1 << sqi
    return Struct('engine::PieceBoardState', [BV.const(vals[inputs.SHORT[n]], 64) for n in order])


def force_type(prog, pbv, tname, sqi):
    order = inputs.pbs_field_order(prog)
    fs = list(pbv.fields)
    for k, n in enumerate(order):
        if inputs.SHORT[n] == TYPE_VAR[tname]:
            bits_ = list(fs[k].bits)
            bits_[sqi] = C1
            fs[k] = BV(bits_)
    return Struct(pbv.ty, fs)


def with_board(prog, gsv, pbv):
    k = inputs.field_index(prog, 'engine::GameState', 'piece_board')
    fs = list(gsv.fields)
    fs[k] = Struct('engine::PieceBoard', (pbv,))
    return Struct(gsv.ty, fs)


def present(seq):
    """can any item of the abstract list be present?"""
    for it in seq.items:
        if it[0] == 'elem':
            return True
        if it[0] == 'cond' and it[1] is not C0:
            return True
        if it[0] == 'bulk' and any(b is not C0 for b in it[1].bits):
            return True
    return False


# ---------------------------------------------------------------------------------------------- sinks
def action_parts(prog, v):
    """('Move', square value, dirname) | ('Pass',) | ('Place', piece)"""
    name = prog.types['action::Action']['variants'][v.var]['name']
    if name == 'Move':
        sqv = v.fields[0].fields[0]
        dname = prog.types['direction::Direction']['variants'][v.fields[1].var]['name']
        return ('Move', sqv, dname)
    if name == 'Pass':
        return ('Pass',)
    pn = prog.types['piece::Piece']['variants'][v.fields[0].var]['name']
    return ('Place', pn)


def ball(i, r):
    s = {i}
    for _ in range(r):
        s |= {n for x in s for n in G.neighbours(x)}
    return s


def kinds(squares, ks='COT'):
    return {(s, k) for s in squares for k in ks}


def classify_items(prog, seq):
    out = []
    for it in seq.items:
        gate = C1
        cur = it
        while cur[0] == 'cond':
            gate = B.band(gate, cur[1])
            cur = cur[2]
        if cur[0] == 'elem':
            out.append(('elem', gate, action_parts(prog, cur[1]), it))
        elif cur[0] == 'bulk':
            out.append(('bulk', gate, action_parts(prog, cur[2]), cur[1], it))
        else:
            out.append(('other', gate, None, it))
    return out


def run_valid_actions(I, prog, gsv, check_rep):
    st = State({})
    gs = inputs.ref_to(I, st, 'gs', gsv)
    fn = prog.one('GameState::valid_actions_')
    r, _ = I.call_fn(fn, [gs, TRUE if check_rep else FALSE], st)
    return r


def check_sinks_mode(ctx, prog, I, gold, step, kind, sqi=None, pc=None, detail_squares=None):
    """One mode of valid_actions_(false)."""
    mode = '%s step%d %s%s' % ('gold' if gold else 'silver', step, kind,
                               ('(%s,%s)' % (G.name(sqi), pc)) if sqi is not None else '')
    fn = prog.one('GameState::valid_actions_')
    gsv = inputs.play_state(prog, gold, step, kind, sqi, pc)
    try:
        r = run_valid_actions(I, prog, gsv, False)
    except Undecided as e:
        ctx.ob('mode %s interpretable' % mode, False)
        ctx.finding('UNDECIDED', fn, mode, 'abstract interpretation gave up: %s' % e)
        return
    if not isinstance(r, Seq):
        ctx.finding('UNDECIDED', fn, mode, 'result is not a list: %r' % (r,))
        return
    items = classify_items(prog, r)
    ctx.count('modes')
    ctx.count('items', len(items))
    back = 'Down' if gold else 'Up'
    squares = detail_squares if detail_squares is not None else range(64)

    def viol(inst, msg):
        ctx.finding('C01.5', fn, '%s:%s' % (mode_key(gold, step, kind, pc), inst), 'mode [%s]: %s' % (mode, msg))

    passes = [x for x in items if x[2] == ('Pass',)]
    own = {}
    push = {}
    elems = []
    for x in items:
        if x[0] == 'bulk' and x[2][0] == 'Move':
            bv = x[3]
            # own or enemy source? read the colour literal of any live bit
            live = [i for i, b in enumerate(bv.bits) if b is not C0]
            if not live:
                continue
            i0 = live[len(live) // 2]
            m = B.must(bv.bits[i0])
            is_own = all(l in m for l in mover_lits(gold, i0))
            is_opp = all(l in m for l in mover_lits(not gold, i0))
            if is_own == is_opp:
                viol('bulk-colour:' + x[2][2], 'cannot tell whose pieces the bulk item moves (must-literals %s)'
                     % fmt_lits(real_lits(bv.bits[i0])))
                continue
            (own if is_own else push).setdefault(x[2][2], []).append(x)
        elif x[0] == 'elem' and x[2][0] == 'Move':
            elems.append(x)
        elif x[2] == ('Pass',):
            pass
        else:
            viol('item', 'unexpected item %r' % (x[-1],))
    # ---- Pass
    want_pass = step >= 1 and kind != 'MustCompletePush'
    okp = (len(passes) == 1 and passes[0][1] is C1) if want_pass else (len(passes) == 0)
    ctx.ob('[%s] Pass offered=%s (expected %s)' % (mode, len(passes), want_pass), okp, sample=(step == 1 and kind == 'None'))
    if not okp:
        viol('pass', 'Pass is %s; it must be offered exactly when at least one step was made and no push is pending'
             % ('offered %d time(s), gate %r' % (len(passes), passes[0][1] if passes else None)))
    if kind == 'MustCompletePush':
        ok = not own and not push
        ctx.ob('[%s] no ordinary steps or push starts while a push is pending' % mode, ok)
        if not ok:
            viol('pending', 'ordinary steps / push starts are offered while a push must be completed')
        # completing steps
        want = {}
        for d in inputs.DIRS:
            src = G.step(sqi, G.OPPOSITE[d])
            if src is not None:
                want[(src, d)] = True
        seen = set()
        for x in elems:
            _, gate, (_, sqv, d), _it = x
            if not (isinstance(sqv, BV) and sqv.known()):
                viol('complete:' + d, 'completing step from a non-constant square %r' % (sqv,))
                continue
            s = sqv.uval()
            key = (s, d)
            if key not in want or key in seen:
                viol('complete:%s%s' % (G.name(s), d), 'step %s%s offered but it does not enter the vacated square %s (or is a duplicate)'
                     % (G.name(s), d, G.name(sqi)))
                continue
            seen.add(key)
            okm = all(l in B.must(gate) for l in mover_lits(gold, s))
            pd = proj(B.deps(gate))
            okd = pd <= kinds(ball(s, 1)) and kinds([s], 'CO') <= pd and all((n, 'C') in pd for n in G.neighbours(s))
            ctx.ob('[%s] completing step %s%s: mover literal, footprint within N(%s)' % (mode, G.name(s), d, G.name(s)),
                   okm and okd, sample=(d == 'Up'))
            if not okm:
                viol('complete-colour:%s' % d, 'completing step %s%s is not restricted to the mover\'s own pieces (must-literals %s)'
                     % (G.name(s), d, fmt_lits(real_lits(gate))))
            if not okd:
                viol('complete-footprint:%s' % d, 'completing step %s%s depends on %s; expected own square and neighbours'
                     % (G.name(s), d, sorted(pd - kinds(ball(s, 1)))[:6] or 'too little'))
        missing = set(want) - seen
        # a source square may be impossible only if its gate folded to 0: never the case for on-board sources
        ctx.ob('[%s] one completing step per on-board neighbour of %s (%d)' % (mode, G.name(sqi), len(want)), not missing)
        for (s, d) in sorted(missing):
            viol('complete-missing:%s' % d, 'no completing step %s%s is ever offered' % (G.name(s), d))
        return
    # ---- own steps
    for d in inputs.DIRS:
        xs = own.get(d, [])
        ok = len(xs) == 1 and xs[0][1] is C1
        ctx.ob('[%s] exactly one own-step generator for direction %s' % (mode, d), ok)
        if not ok:
            viol('own-count:' + d, '%d own-step items for direction %s (expected 1, unconditional)' % (len(xs), d))
            continue
        bv = xs[0][3]
        for i in squares:
            dst = G.step(i, d)
            b = bv.bits[i]
            if dst is None:
                ok = b is C0
                ctx.ob('[%s] own step %s%s off-board is impossible' % (mode, G.name(i), d), ok, nontrivial=False)
                if not ok:
                    viol('own-offboard:%s' % d, 'step %s%s leaves the board but can be offered' % (G.name(i), d))
                continue
            need = set(mover_lits(gold, i)) | {(('all', dst), False)}
            m = B.must(b)
            okm = need <= m
            rb = (('r', i), False) in m
            okr = rb == (d == back)
            pd = proj(B.deps(b))
            want_d = kinds(ball(i, 1))
            okd = pd == want_d
            ctx.ob('[%s] own step %s%s: M>=%s, rabbit-backward=%s, footprint=N(%s)' % (mode, G.name(i), d, fmt_lits(need), rb, G.name(i)),
                   okm and okr and okd, sample=(i == 27 and d == 'Up' and step == 0))
            if not okm:
                viol('own-lits:%s' % d, 'own step %s%s lacks a guard: must-literals %s, required %s'
                     % (G.name(i), d, fmt_lits(real_lits(b)), fmt_lits(need)))
            if not okr:
                viol('own-rabbit:%s' % d, 'own step %s%s: "not a rabbit" is %srequired but direction %s is %sthe mover\'s backward direction'
                     % (G.name(i), d, '' if rb else 'not ', d, '' if d == back else 'not '))
            if not okd:
                viol('own-footprint:%s' % d, 'own step %s%s depends on %s beyond / %s missing from the freezing footprint'
                     % (G.name(i), d, sorted(pd - want_d)[:6], sorted(want_d - pd)[:6]))
    # ---- push starts
    want_push = step < 3
    for d in inputs.DIRS:
        xs = push.get(d, [])
        if not want_push:
            ok = not xs
            ctx.ob('[%s] no push start on the last step (%s)' % (mode, d), ok)
            if not ok:
                viol('push-last:' + d, 'a push can be started on the last step of the turn (it could not be completed)')
            continue
        ok = len(xs) == 1 and xs[0][1] is C1
        ctx.ob('[%s] exactly one push-start generator for direction %s' % (mode, d), ok)
        if not ok:
            viol('push-count:' + d, '%d push-start items for direction %s (expected 1)' % (len(xs), d))
            continue
        bv = xs[0][3]
        for i in squares:
            dst = G.step(i, d)
            b = bv.bits[i]
            if dst is None:
                if b is not C0:
                    viol('push-offboard:%s' % d, 'push of %s towards %s leaves the board but can be offered' % (G.name(i), d))
                continue
            need = set(mover_lits(not gold, i)) | {(('all', dst), False)}
            okm = need <= B.must(b)
            pd = proj(B.deps(b))
            core = kinds([i]) | kinds(G.neighbours(i)) | {(dst, 'O')}
            okd = core <= pd and pd <= kinds(ball(i, 2))
            ctx.ob('[%s] push start %s%s: M>=%s, footprint within distance 2' % (mode, G.name(i), d, fmt_lits(need)),
                   okm and okd, sample=(i == 27 and d == 'Left' and step == 0))
            if not okm:
                viol('push-lits:%s' % d, 'push start %s%s lacks a guard: must-literals %s, required %s'
                     % (G.name(i), d, fmt_lits(real_lits(b)), fmt_lits(need)))
            if not okd:
                viol('push-footprint:%s' % d, 'push start %s%s: footprint missing %s / unexpected %s'
                     % (G.name(i), d, sorted(core - pd)[:6], sorted(pd - kinds(ball(i, 2)))[:6]))
    # ---- pulls
    if kind == 'PossiblePull':
        want = {}
        for d in inputs.DIRS:
            src = G.step(sqi, G.OPPOSITE[d])
            if src is not None:
                want[(src, d)] = True
        seen = set()
        for x in elems:
            _, gate, (_, sqv, d), _it = x
            if not (isinstance(sqv, BV) and sqv.known()):
                viol('pull:' + d, 'pull from a non-constant square %r' % (sqv,))
                continue
            s = sqv.uval()
            if (s, d) not in want or (s, d) in seen:
                viol('pull:%s%s' % (G.name(s), d), 'pull step %s%s does not enter the square %s just vacated (or duplicate)'
                     % (G.name(s), d, G.name(sqi)))
                continue
            seen.add((s, d))
            okm = all(l in B.must(gate) for l in mover_lits(not gold, s))
            pd = proj(B.deps(gate))
            okd = kinds([s], 'CO') <= pd and pd <= kinds(ball(s, 2))
            # no duplicate with a push start from the same square in the same direction
            okdup = True
            if want_push and d in push and len(push[d]) == 1:
                pb_ = push[d][0][3].bits[s]
                if pb_ is not C0:
                    okdup = ((('#', pb_.n), False) in B.must(gate)) or B.band(gate, pb_) is C0
                    if not okdup:
                        # the same exclusion written differently (e.g. a mask test instead of a list lookup): compare the bits
                        dd = I.decide(B.band(gate, pb_), ())
                        okdup = dd is False
                        if not okdup:
                            neg = [v[1] for (v, p_) in B.must(gate) if v[0] == '#' and not p_]
                            ctx.notes.append('GATE must %r' % (sorted(B.must(gate), key=repr),))
                            ctx.notes.append('pull-dup debug: neg %r conj %r ; pb conj %r pb.n %r; M(band) has %r' % (
                                neg, [sorted(B.CONJ.get(n_, ()), key=repr) for n_ in neg], sorted(B._conjset(pb_), key=repr), pb_.n,
                                sorted([l for l in B.must(B.band(gate, pb_)) if l[0][0] == '#'], key=repr)))
            ctx.ob('[%s] pull %s%s: enemy literal, footprint, not duplicating the push start' % (mode, G.name(s), d),
                   okm and okd and okdup, sample=(d == 'Right'))
            if not okm:
                viol('pull-colour:%s' % d, 'pull %s%s is not restricted to enemy pieces (must-literals %s)'
                     % (G.name(s), d, fmt_lits(real_lits(gate))))
            if not okd:
                viol('pull-footprint:%s' % d, 'pull %s%s: footprint %s' % (G.name(s), d, sorted(pd - kinds(ball(s, 2)))[:6] or 'lacks the source square'))
            if not want_push:
                # no push start is offered in this mode, so nothing can duplicate the pull: whether it is offered may only depend
                # on the pulled piece itself (an enemy piece weaker than the piece that just moved away)
                extra = sorted(pd - kinds([s]))
                oks = not extra
                ctx.ob('[%s] pull %s%s depends on the pulled piece only (no push starts in this mode)' % (mode, G.name(s), d), oks)
                if not oks:
                    viol('pull-overconstrained:%s' % d, 'pull %s%s is withheld depending on other squares (%s) although no push start '
                         'can duplicate it at this step' % (G.name(s), d, extra[:6]))
            if not okdup:
                viol('pull-dup:%s' % d, 'pull %s%s can be listed although the same step is already offered as a push start (duplicate action)'
                     % (G.name(s), d))
        missing = set(want) - seen
        ctx.ob('[%s] one pull candidate per on-board neighbour of %s' % (mode, G.name(sqi)), not missing)
        for (s, d) in sorted(missing):
            # a pull by the weakest possible puller (Cat) of nothing but rabbits still exists; by Rabbit never recorded
            viol('pull-missing:%s' % d, 'no pull step %s%s is ever offered' % (G.name(s), d))
    else:
        ok = not elems
        ctx.ob('[%s] no single-square conditional steps outside pull/push-completion modes' % mode, ok)
        if not ok:
            viol('stray-elem', 'conditional single steps offered without a pending status: %r' % (elems[0][-1],))


def mode_key(gold, step, kind, pc):
    return '%s/s%d/%s%s' % ('G' if gold else 'S', step, kind, ('/' + pc) if pc else '')


def check_pull_types(ctx, prog, I):
    """Pull offered exactly for strictly weaker enemy types (table over puller x pulled)."""
    fn = prog.one('GameState::valid_actions_')
    sq = G.sq('e', 5)
    src = G.step(sq, 'Left')   # enemy piece left of e5, pulled Right into e5
    for mine in G.STRENGTH:
        if mine == 'Rabbit':
            continue
        for their in G.STRENGTH:
            gsv = inputs.play_state(prog, True, 3, 'PossiblePull', sq, mine)   # step 3: no push starts
            pbv = board_only(prog, [their])
            gsv = with_board(prog, gsv, pbv)
            r = run_valid_actions(I, prog, gsv, False)
            got = False
            for x in classify_items(prog, r):
                if x[0] == 'elem' and x[2][0] == 'Move' and x[1] is not C0:
                    got = True
            want = stronger(mine, their)
            ctx.ob('pull of %s by %s offered=%s' % (their, mine, got), got == want, sample=(mine == 'Dog' and their == 'Cat'))
            if got != want:
                ctx.finding('C01.3', fn, 'pulltable:%s-by-%s' % (their, mine),
                            'after a %s stepped away, pulling an adjacent enemy %s is %soffered; official: %s'
                            % (mine, their, '' if got else 'not ', 'legal' if want else 'illegal'))


def check_support_argument(ctx, prog):
    """Support is counted from friendly pieces only: every call of supported_pieces receives a single-colour mask."""
    ctx.rule('C01.2s', 'supported_pieces is only ever applied to the pieces of one colour (each bit of its argument requires that '
                       'colour\'s literal): friendly support, never support by any piece')
    from .mai import State
    I = inputs.make_interp(prog, fuel=5000000)
    sink = []
    I.watch = {'supported_pieces': sink}
    fn = prog.one('GameState::curr_player_non_frozen_pieces')
    fn2 = prog.one('PieceBoardState::trapped_piece_bits')
    if not (ctx.anchor('fn curr_player_non_frozen_pieces', fn is not None) and ctx.anchor('fn PieceBoardState::trapped_piece_bits', fn2 is not None)):
        return
    if prog.one('supported_pieces') is None:
        # no such helper (any more): nothing to observe; the exact tables (LT.freeze / LT.capture) decide the support clauses
        ctx.notes.append('C01.2s: the crate has no supported_pieces helper; support is decided by the LT tables only')
        I.watch = {}
        return
    for gold in (True, False):
        st = State({})
        gs = inputs.ref_to(I, st, 'gs', inputs.play_state(prog, gold, 0))
        pb = inputs.ref_to(I, st, 'pb', inputs.board(prog))
        I.memo.clear()
        I.call_fn(fn, [gs, pb], st)
    n_freeze = len(sink)
    st = State({})
    pb = inputs.ref_to(I, st, 'pb', inputs.board(prog))
    I.memo.clear()
    I.call_fn(fn2, [pb], st)      # the capture pass may or may not be written with the helper
    I.watch = {}
    if n_freeze == 0:
        # the freezing rule is written without the helper (e.g. `threatened & !influenced_squares(own)`): nothing to observe
        # here; LT.freeze decides whose neighbours unfreeze a piece on exact tables
        ctx.notes.append('C01.2s: the freezing rule does not call supported_pieces; support in freezing is decided by LT.freeze only')
    else:
        ctx.floor('calls of supported_pieces observed from the freezing rule', n_freeze, 2)
    for caller, args in sink:
        bv = args[0]
        colours = set()
        ok = isinstance(bv, BV)
        if ok:
            for i, b in enumerate(bv.bits):
                m = B.must(b)
                if all(l in m for l in mover_lits(True, i)):
                    colours.add('gold')
                elif all(l in m for l in mover_lits(False, i)):
                    colours.add('silver')
                else:
                    colours.add('?')
        ok = ok and len(colours) == 1 and '?' not in colours
        ctx.ob('supported_pieces called from %s with a %s-only mask' % (caller, sorted(colours)), ok, sample=True)
        if not ok:
            ctx.finding('C01.2s', caller, 'support-argument', 'supported_pieces is applied to a mask that is not restricted to one colour '
                        '(%s): support would be counted from enemy pieces' % sorted(colours))
