"""Bit domain of the mode-wise abstract interpreter (DESIGN 3.C).

Bit = K0 | K1 | Small(exact truth table over <= K variables) | Dep(D, M, S)
  D  may-depend set of variables
  M  must-literals: hold whenever the bit is 1
  S  sufficient literals: each one alone forces the bit to 1
A variable is a hashable tuple: ('p1', 17) for an input bit, ('@', n) for atom n
(an opaque predicate such as `B != 0`, registered in ATOMS with its own M / S / deps).
Bits are hash-consed: equality is identity.
"""
K = 4

_INTERN = {}


class Bit(object):
    __slots__ = ('kind', 'sup', 'tt', 'D', 'M', 'S', '_m', '_s', '_d', 'n')

    def __repr__(self):
        if self.kind == 'c':
            return str(self.tt)
        if self.kind == 's':
            return 'S%s:%s' % (list(self.sup), ''.join(map(str, self.tt)))
        return 'Dep(D=%d,M=%s,S=%s)' % (len(self.D), sorted(self.M), sorted(self.S))


_BY_N = {}


def _mk(kind, sup=(), tt=(), D=frozenset(), M=frozenset(), S=frozenset(), tag=None):
    # `tag` keeps apart abstract elements whose (D, M, S) carry no trace of their operands (wide XOR): the pseudo-literal
    # naming a bit must name one formula
    key = (kind, sup, tt, D, M, S, tag)
    b = _INTERN.get(key)
    if b is None:
        b = Bit()
        b.kind, b.sup, b.tt, b.D, b.M, b.S = kind, sup, tt, D, M, S
        b._m = b._s = b._d = None
        b.n = len(_INTERN)          # creation serial: deterministic name for pseudo-literals
        _INTERN[key] = b
        _BY_N[b.n] = b
    return b


C0 = _mk('c', tt=0)
C1 = _mk('c', tt=1)


def const(v):
    return C1 if v else C0


def lit(var, pol=True):
    return _mk('s', (var,), (0, 1) if pol else (1, 0))


# ---------------------------------------------------------------- atoms
class Atom(object):
    __slots__ = ('id', 'kind', 'payload', 'deps', 'M', 'S', 'key', '_pl')

    def __repr__(self):
        return '@%d:%s' % (self.id, self.kind)


ATOMS = []
_ATOM_BY_KEY = {}


def atom(kind, key, payload=None, deps=frozenset(), M=frozenset(), S=frozenset()):
    """Register (or find) an opaque predicate. `key` must identify it structurally."""
    k = (kind, key)
    a = _ATOM_BY_KEY.get(k)
    if a is None:
        a = Atom()
        a.id = len(ATOMS)
        a.kind, a.key, a.payload, a.deps, a.M, a.S = kind, key, payload, frozenset(deps), frozenset(M), frozenset(S)
        a._pl = None
        ATOMS.append(a)
        _ATOM_BY_KEY[k] = a
    return a


def atom_bit(a, pol=True):
    return lit(('@', a.id), pol)


def is_atom_var(v):
    return v[0] == '@'


def reset_atoms():
    """Atoms are per-process global; analyses never need to reset them, but tests may."""
    del ATOMS[:]
    _ATOM_BY_KEY.clear()


# ---------------------------------------------------------------- derived sets
def deps(b):
    """May-depend set over *input* variables (atoms expanded to their deps)."""
    if b._d is not None:
        return b._d
    if b.kind == 'c':
        r = frozenset()
    else:
        raw = b.sup if b.kind == 's' else b.D
        out = set()
        for v in raw:
            if v[0] == '@':
                out |= ATOMS[v[1]].deps
            elif v[0] != '#':
                out.add(v)
        r = frozenset(out)
    b._d = r
    return r


def rawvars(b):
    if b.kind == 'c':
        return frozenset()
    return frozenset(b.sup) if b.kind == 's' else b.D


def _close(lits, which):
    """Transitive closure through atoms: +A in M  =>  M(A) in M ; +A in S => S(A) in S."""
    out = set(lits)
    work = list(lits)
    while work:
        (v, pol) = work.pop()
        if v[0] == '@':
            a = ATOMS[v[1]]
            if pol:
                extra = a.M if which == 'M' else a.S
            else:
                # not A: necessary lits = negations of sufficient lits of A, and vice versa
                src = a.S if which == 'M' else a.M
                extra = frozenset((w, not p) for (w, p) in src)
            for l in extra:
                if l not in out:
                    out.add(l)
                    work.append(l)
    return frozenset(out)


def must(b):
    if b._m is not None:
        return b._m
    if b.kind == 'c':
        r = frozenset()
    elif b.kind == 'd':
        r = b.M
    else:
        out = set()
        n = len(b.sup)
        for j, v in enumerate(b.sup):
            vals = set((i >> j) & 1 for i in range(1 << n) if b.tt[i])
            if len(vals) == 1:
                out.add((v, bool(vals.pop())))
        r = _close(out, 'M')
    b._m = r
    return r


def suff(b):
    if b._s is not None:
        return b._s
    if b.kind == 'c':
        r = frozenset()
    elif b.kind == 'd':
        r = b.S
    else:
        out = set()
        n = len(b.sup)
        for j, v in enumerate(b.sup):
            for pol in (0, 1):
                if all(b.tt[i] for i in range(1 << n) if ((i >> j) & 1) == pol):
                    out.add((v, bool(pol)))
        r = _close(out, 'S')
    b._s = r
    return r


# ---------------------------------------------------------------- small tables
def _ev(b, asg):
    if b.kind == 'c':
        return b.tt
    i = 0
    for j, v in enumerate(b.sup):
        i |= asg[v] << j
    return b.tt[i]


def _small(sup, fn):
    sup = sorted(set(sup))
    n = len(sup)
    tt = []
    for i in range(1 << n):
        asg = {v: (i >> j) & 1 for j, v in enumerate(sup)}
        tt.append(fn(asg))
    # drop irrelevant variables
    changed = True
    while changed:
        changed = False
        n = len(sup)
        for j in range(n):
            if all(tt[i] == tt[i ^ (1 << j)] for i in range(1 << n)):
                tt = [tt[((i2 >> j) << (j + 1)) | (i2 & ((1 << j) - 1))] for i2 in range(1 << (n - 1))]
                sup = sup[:j] + sup[j + 1:]
                changed = True
                break
    if not sup:
        return C1 if tt[0] else C0
    return _mk('s', tuple(sup), tuple(tt))


_MEMO = {}
_NEG = {}


CONJ = {}      # serial of a conjunction bit -> frozenset of literals whose conjunction is *equivalent* to it
CONJ_CAP = 24


def _conjset(x):
    if x.kind == 'd':
        c = CONJ.get(x.n)
        if c is not None:
            return c
    if x.kind == 's' and len(x.sup) == 1:
        return frozenset([(x.sup[0], x.tt == (0, 1))])
    if x.kind == 's' and sum(x.tt) == 1:
        # an exact table with a single true row is the conjunction of that row's literals
        i = x.tt.index(1)
        return frozenset((v, bool((i >> j) & 1)) for j, v in enumerate(x.sup))
    return frozenset([(('#', x.n), True)])


def _bit_of_literal(l):
    (v, pol) = l
    if v[0] == '#':
        b = _BY_N.get(v[1])
        if b is None:
            return None
        return b if pol else bnot(b)
    return lit(v, pol)


def _and_of(lits):
    r = C1
    for l in sorted(lits, key=repr):
        b = _bit_of_literal(l)
        if b is None:
            return None
        r = band(r, b)
    return r


def _contradict(M, must=True):
    """must=True: M is a set of literals that all hold (conjunction definitions may be used); must=False: a set of literals each of
    which is sufficient - only a literal together with its negation is conclusive there."""
    negs = None
    for (v, p) in M:
        if (v, not p) in M:
            return True
        if must and not p and v[0] == '#' and v[1] in CONJ:
            negs = negs or []
            negs.append(v[1])
    if negs:
        # "the conjunction named n is false" although every one of its conjuncts is required; a required conjunction
        # requires its own conjuncts (closure through the definitions)
        Mx = set(M)
        work = [v[1] for (v, p) in M if p and v[0] == '#' and v[1] in CONJ]
        seen = set()
        while work:
            n = work.pop()
            if n in seen:
                continue
            seen.add(n)
            for l in CONJ[n]:
                if l not in Mx:
                    Mx.add(l)
                    if l[1] and l[0][0] == '#' and l[0][1] in CONJ:
                        work.append(l[0][1])
        for n in negs:
            if CONJ[n] <= Mx:
                return True
        for (v, p) in Mx:
            if (v, not p) in Mx:
                return True
    return False


PSEUDO_CAP = 48


def _cap(lits, keep=()):
    """Dropping must / sufficient literals is sound (weaker knowledge). Pseudo-literals naming sub-terms accumulate along
    long conjunction chains; the names of the direct operands (`keep`) always stay, inherited ones are capped."""
    ps = [l for l in lits if l[0][0] == '#' and l not in keep]
    if len(ps) <= PSEUDO_CAP:
        return frozenset(lits)
    ps.sort(key=lambda l: l[0][1])
    drop = set(ps[:-PSEUDO_CAP])
    return frozenset(l for l in lits if l not in drop)


def _dep(D, M, S, keep=()):
    M = frozenset(M)
    if _contradict(M):
        return C0
    S = frozenset(S)
    if _contradict(S, must=False):
        return C1
    return _mk('d', D=frozenset(D), M=_cap(M, keep), S=_cap(S, keep))


def bnot(a):
    if a.kind == 'c':
        return C0 if a.tt else C1
    if a.kind == 's':
        return _mk('s', a.sup, tuple(1 - t for t in a.tt))
    # "not a" holds  =>  a itself is false (pseudo-literal), and every literal sufficient for a is false
    r = _NEG.get(id(a))
    if r is None:
        r = _dep(a.D, [(v, not p) for (v, p) in a.S] + [(('#', a.n), False)],
                 [(v, not p) for (v, p) in a.M])
        _NEG[id(a)] = r
        if r.kind == 'd':
            _NEG.setdefault(id(r), a)   # involution: not(not a) is a
    return r


def band(a, b):
    if a is C0 or b is C0:
        return C0
    if a is C1:
        return b
    if b is C1:
        return a
    if a is b:
        return a
    key = ('&', K, id(a), id(b)) if id(a) < id(b) else ('&', K, id(b), id(a))      # K: results are coarser under a smaller table width
    r = _MEMO.get(key)
    if r is not None:
        return r
    r = None
    # p & !(p & q) = p & !q   (exact, through the conjunction definitions)
    for x, y in ((a, b), (b, a)):
        if y.kind == 'd':
            inner = _NEG.get(id(y))
            if inner is not None and inner.kind == 'd' and inner.n in CONJ:
                cx = _conjset(x)
                ci = CONJ[inner.n]
                if cx < ci and len(ci - cx) <= 4:
                    rest = _and_of(ci - cx)
                    if rest is not None:
                        r = band(x, bnot(rest))
                        break
    if r is None:
        # a set bit of X implies "X != 0": an operand that is (or implies) a bit of X fixes the 'nz' atom of X in the other operand
        for x, y in ((a, b), (b, a)):
            if y.kind == 's' and x.kind != 'c':
                for v in y.sup:
                    if v[0] == '@' and ATOMS[v[1]].kind == 'nz' and _implies_payload_bit(x, ATOMS[v[1]]):
                        r = band(x, restrict(y, v, 1))
                        break
                if r is not None:
                    break
    if r is None:
        # (x == c2) & (x != c1) = (x == c2) for different constants: "Y == 0" makes X = Y ^ k (k != 0) non-zero
        for x, y in ((a, b), (b, a)):
            if _nz_excluded_by(x, y):
                r = y
                break
    if r is None:
        # thresholds on one quantity: (n >= i) & (n >= j) = n >= max(i, j)
        ga, gb = _ge_atom(a), _ge_atom(b)
        if ga is not None and gb is not None and (ga[0] is gb[0] or ga[0] == gb[0]):
            r = a if ga[1] >= gb[1] else b
    if r is None:
        # "X != 0" & y = "X != 0" when every possibly-set bit of X forces a literal under which the small function y is true
        for x, y in ((a, b), (b, a)):
            if y.kind == 's' and x.kind == 's' and len(x.sup) == 1 and x.sup[0][0] == '@' and x.tt == (0, 1):
                ax = ATOMS[x.sup[0][1]]
                if ax.kind == 'nz' and hasattr(ax.payload, 'bits'):
                    live = [q for q in ax.payload.bits if q is not C0]
                    if live and all(_forces_small(q, y) for q in live):
                        r = x
                        break
    if r is None:
        r = _band(a, b)
    _MEMO[key] = r
    return r


def _nz_lit(x):
    """(atom, polarity) when x is a literal of an 'X != 0' atom"""
    if x.kind == 's' and len(x.sup) == 1 and x.sup[0][0] == '@':
        at = ATOMS[x.sup[0][1]]
        if at.kind == 'nz' and hasattr(at.payload, 'bits'):
            return at, x.tt == (0, 1)
    return None


def _nz_excluded_by(x, y):
    """x is "X != 0", y is "Y == 0", and X differs from Y exactly by complementing some bits (X = Y ^ k, k != 0): y implies x"""
    lx, ly = _nz_lit(x), _nz_lit(y)
    if lx is None or ly is None or not lx[1] or ly[1] or lx[0] is ly[0]:
        return False
    xb, yb = lx[0].payload.bits, ly[0].payload.bits
    if len(xb) != len(yb):
        return False
    flipped = False
    for p_, q_ in zip(xb, yb):
        if p_ is q_:
            continue
        if p_ is bnot(q_):
            flipped = True
            continue
        return False
    return flipped


def _ge_atom(x):
    """(term, k) when x is the positive literal of a comparison atom `term >= k` with a constant k"""
    if x.kind == 's' and len(x.sup) == 1 and x.sup[0][0] == '@' and x.tt == (0, 1):
        at = ATOMS[x.sup[0][1]]
        if at.kind == 'cmp' and isinstance(at.payload, tuple) and len(at.payload) == 3 and at.payload[0] == 'Ge':
            k = at.payload[2]
            if hasattr(k, 'known') and k.known():
                return at.payload[1], k.uval()
    return None


def _forces_small(q, y):
    """q => y for a small truth table y, through one literal q requires"""
    if q is C1:
        return False
    if q is y:
        return True
    lits = list(must(q))
    if q.kind == 's' and len(q.sup) == 1:
        lits.append((q.sup[0], q.tt == (0, 1)))
    for (v, p) in lits:
        if v in y.sup and restrict(y, v, 1 if p else 0) is C1:
            return True
    return False


def _implies_payload_bit(x, at, depth=0):
    if depth == 0 and x.kind == 's' and len(x.sup) == 1 and x.sup[0][0] == '@' and x.tt == (0, 1):
        # x is itself "X != 0": it implies "Y != 0" when every possibly-set bit of X implies a bit of Y
        ax = ATOMS[x.sup[0][1]]
        if ax.kind == 'nz' and ax is not at and hasattr(ax.payload, 'bits'):
            live = [b for b in ax.payload.bits if b.kind != 'c' or b is C1]
            if live and all(b is not C1 and _implies_payload_bit(b, at, 1) for b in live):
                return True
    pl = at._pl
    if pl is None:
        live = [b for b in at.payload.bits if b.kind != 'c']
        byvar = {}
        for b in live:
            if b.kind == 's':
                for v in b.sup:
                    byvar.setdefault(v, []).append(b)
        pl = at._pl = (frozenset(id(b) for b in live), frozenset((('#', b.n), True) for b in live), byvar)
    if id(x) in pl[0]:
        return True
    if x.kind == 'd':
        return bool(x.M & pl[1])
    if x.kind == 's':
        # x => one of the payload bits, decided on the truth table of x
        seen = set()
        xs = set(x.sup)
        for v in x.sup:
            for pb in pl[2].get(v, ()):
                if id(pb) in seen or not set(pb.sup) <= xs:
                    continue
                seen.add(id(pb))
                if _small(xs, lambda asg: _ev(x, asg) & (1 - _ev(pb, asg))) is C0:
                    return True
    return False


def selflit(a):
    """Pseudo-literal naming the bit itself: lets `T & U` be recognised as implying `T` (and `T != 0`)
    when T is too wide for a truth table. Never part of D."""
    return (('#', a.n), True)


def mustx(a):
    return must(a) | frozenset([selflit(a)])


def suffx(a):
    return suff(a) | frozenset([selflit(a)])


def _band(a, b):
    a0, b0 = a, b
    if a.kind == 's' and b.kind == 's':
        sup = set(a.sup) | set(b.sup)
        if len(sup) <= K:
            return _small(sup, lambda asg: _ev(a, asg) & _ev(b, asg))
    # unit propagation: literals forced by one operand simplify a Small other operand
    if a.kind == 's' and b.kind == 'd':
        a, b = b, a
    if a.kind == 'd' and b.kind == 's':
        b2 = b
        for (v, p) in a.M:
            if b2.kind == 's' and v in b2.sup:
                b2 = restrict(b2, v, p)
        if b2 is C0:
            return C0
        if b2 is C1:
            return a
        b = b2
    ma, mb, sa, sb = mustx(a), mustx(b), suffx(a), suffx(b)
    # absorption: a => l => b   gives a & b = a
    if ma & sb:
        return a
    if mb & sa:
        return b
    # the operands as given are implied too (a Small operand may have been simplified under the other's literals above)
    M = ma | mb | frozenset([selflit(a0), selflit(b0)])
    if _contradict(M):
        return C0
    r = _dep(rawvars(a) | rawvars(b), M, sa & sb, keep=(selflit(a), selflit(b), selflit(a0), selflit(b0)))
    if r.kind == 'd' and r.n not in CONJ:
        cj = _conjset(a0) | _conjset(b0)      # the operands as given (a restricted operand is equivalent only under the other)
        if len(cj) <= CONJ_CAP:
            CONJ[r.n] = cj
    return r


def bor(a, b):
    if a is C1 or b is C1:
        return C1
    if a is C0:
        return b
    if b is C0:
        return a
    if a is b:
        return a
    key = ('|', K, id(a), id(b)) if id(a) < id(b) else ('|', K, id(b), id(a))
    r = _MEMO.get(key)
    if r is not None:
        return r
    r = _bor(a, b)
    _MEMO[key] = r
    return r


def _bor(a, b):
    if a.kind == 's' and b.kind == 's':
        sup = set(a.sup) | set(b.sup)
        if len(sup) <= K:
            return _small(sup, lambda asg: _ev(a, asg) | _ev(b, asg))
    ma, mb, sa, sb = mustx(a), mustx(b), suffx(a), suffx(b)
    # a => b  gives a | b = b
    if ma & sb:
        return b
    if mb & sa:
        return a
    S = sa | sb
    if _contradict(S, must=False):
        return C1
    return _dep(rawvars(a) | rawvars(b), ma & mb, S, keep=(selflit(a), selflit(b)))


def bxor(a, b):
    if a.kind == 'c':
        return b if a.tt == 0 else bnot(b)
    if b.kind == 'c':
        return a if b.tt == 0 else bnot(a)
    if a is b:
        return C0
    key = ('^', K, id(a), id(b)) if id(a) < id(b) else ('^', K, id(b), id(a))
    r = _MEMO.get(key)
    if r is not None:
        return r
    if a.kind == 's' and b.kind == 's' and len(set(a.sup) | set(b.sup)) <= K:
        r = _small(set(a.sup) | set(b.sup), lambda asg: _ev(a, asg) ^ _ev(b, asg))
    else:
        r = None
        # x ^ (x & c) = x & !c   (exact, through the conjunction definitions)
        ca, cb = _conjset(a), _conjset(b)
        for x, cx, cy in ((a, ca, cb), (b, cb, ca)):
            if cx < cy and len(cy - cx) <= 4:
                rest = _and_of(cy - cx)
                if rest is not None:
                    r = band(x, bnot(rest))
                    break
        if r is None:
            r = _mk('d', D=frozenset(rawvars(a) | rawvars(b)), tag=('^',) + tuple(sorted((a.n, b.n))))
    _MEMO[key] = r
    return r


def bite(c, a, b):
    """if c then a else b"""
    if a is b:
        return a
    if c is C1:
        return a
    if c is C0:
        return b
    # constant branches are plain conjunctions / disjunctions (which know more identities than a raw truth table)
    if b is C0:
        return band(c, a)
    if a is C0:
        return band(bnot(c), b)
    if c.kind == 's' and len(c.sup) == 1 and c.sup[0][0] == '@' and ATOMS[c.sup[0][1]].kind == 'nz':
        # if X != 0 then (q & !X[j]) else q   =   q & !X[j]      (X == 0 makes every X[j] false)
        at = ATOMS[c.sup[0][1]]
        hi, lo = (a, b) if c.tt == (0, 1) else (b, a)
        if hasattr(at.payload, 'bits'):
            for xj in at.payload.bits:
                if xj.kind != 'c' and band(lo, bnot(xj)) is hi:
                    return hi
    if c.kind == 's' and a.kind in 'sc' and b.kind in 'sc':
        sup = set(c.sup) | set(rawvars(a)) | set(rawvars(b))
        if len(sup) <= K:
            return _small(sup, lambda asg: _ev(a, asg) if _ev(c, asg) else _ev(b, asg))
    # if c then (q & rest) else q  =  q & !(c & !rest)      (exact, through the conjunction definitions)
    for p_, q_, cond in ((a, b, c), (b, a, None)):
        if p_.kind == 'd' and p_.n in CONJ:
            cq = _conjset(q_)
            cp = CONJ[p_.n]
            if cq < cp and len(cp - cq) <= 4:
                rest = _and_of(cp - cq)
                if rest is not None:
                    cc = cond if cond is not None else bnot(c)
                    return band(q_, bnot(band(cc, bnot(rest))))
    return bor(band(c, a), band(bnot(c), b))


def bigor(bits):
    r = C0
    for b in bits:
        r = bor(r, b)
        if r is C1:
            break
    return r


def bigand(bits):
    r = C1
    for b in bits:
        r = band(r, b)
        if r is C0:
            break
    return r


def restrict(b, var, val):
    """Cofactor b[var := val] (exact for Small, conservative for Dep)."""
    if b.kind == 'c':
        return b
    if b.kind == 's':
        if var not in b.sup:
            return b

        def f(asg):
            a2 = dict(asg)
            a2[var] = 1 if val else 0
            return _ev(b, a2)
        return _small(b.sup, f)
    if (var, val) in b.S:
        return C1
    if (var, not val) in b.M:
        return C0
    return b


def implies_lit(b, l):
    return l in must(b)


# ---------------------------------------------------------------- exact equivalence of two conjunctions
def _closure(b):
    """literals that hold whenever b holds: its must-literals, itself, and (through the conjunction definitions) the
    conjuncts of every required conjunction"""
    M = set(mustx(b)) | set(_conjset(b))
    work = [v[1] for (v, p) in M if p and v[0] == '#' and v[1] in CONJ]
    seen = set()
    while work:
        n = work.pop()
        if n in seen:
            continue
        seen.add(n)
        for l in CONJ[n]:
            if l not in M:
                M.add(l)
                if l[1] and l[0][0] == '#' and l[0][1] in CONJ:
                    work.append(l[0][1])
        x = _BY_N.get(n)
        if x is not None:
            M |= set(must(x))
    return M


def implies_literal(b, l, clo=None):
    clo = clo if clo is not None else _closure(b)
    if l in clo:
        return True
    x = _bit_of_literal(l)
    if x is None:
        return False
    # l is implied when something sufficient for it is required by b
    return bool(suffx(x) & clo)


def equiv_conj(a, b):
    """True when a and b are provably the same Boolean function: both are (definitionally) conjunctions and each one's
    conjuncts are implied by the other. False means 'not shown', not 'different'."""
    if a is b:
        return True
    if a.kind == 'c' or b.kind == 'c':
        return False
    ca, cb = _conjset(a), _conjset(b)
    cla, clb = _closure(a), _closure(b)
    return all(implies_literal(b, l, clb) for l in ca) and all(implies_literal(a, l, cla) for l in cb)
