from . import rules_c11, rules_geom, rules_c01, rules_c02, rules_c03, rules_c04, inputs
from .check_c01 import QUICK_SQUARES
from spec import geometry as G


def run(ctx, prog, facts, tier):
    I = inputs.make_interp(prog, fuel=20000000)
    rules_c11.check_constants(ctx, prog)
    rules_geom.check_constants(ctx, prog, which=['LEFT_COLUMN_MASK', 'RIGHT_COLUMN_MASK', 'TOP_ROW_MASK', 'BOTTOM_ROW_MASK', 'TRAP_MASK',
                                                 'P1_OBJECTIVE_MASK', 'P2_OBJECTIVE_MASK'], rule='C11.1')
    rules_c11.check_equivariance(ctx, prog, I)
    # every clause below is checked against a specification that is itself symmetric, for both colours, all four
    # directions and all squares: an edit confined to one colour / direction / rank / file breaks one of them
    rules_geom.check_helper_footprints(ctx, prog, I, rule='C01.2')
    rules_c01.check_strength_tables(ctx, prog, I)
    for gold in (True, False):
        for step in range(4):
            rules_c01.check_sinks_mode(ctx, prog, I, gold, step, 'None')
        for s in (QUICK_SQUARES[:6] if tier == 'quick' else range(64)):
            rules_c01.check_sinks_mode(ctx, prog, I, gold, 2, 'PossiblePull', s, 'Horse', detail_squares=[])
            rules_c01.check_sinks_mode(ctx, prog, I, gold, 2, 'MustCompletePush', s, 'Dog', detail_squares=[])
    sym_squares = sorted(set(QUICK_SQUARES + [G.mirror_file(s) for s in QUICK_SQUARES] + [G.flip_rank(s) for s in QUICK_SQUARES]))
    mvs = rules_c02.moves(True, sym_squares if tier == 'quick' else None)
    rules_c02.check_move_footprint(ctx, prog, I, mvs)
    rules_c02.check_capture_footprint(ctx, prog, I)
    from . import rules_local
    rules_local.check_capture_tables(ctx, prog, I)
    rules_local.check_freeze_tables(ctx, prog, I, tier == 'quick')
    rules_local.check_push_tables(ctx, prog, I)
    rules_c04.check_terminal(ctx, prog, I)
    # which turn-ending actions the repetition rules withhold depends on the hash telling positions apart: table and row-index
    # injectivity (C17 clauses) is a necessary condition of the symmetry of those decisions
    from . import rules_hash
    rules_hash.check_tables(ctx, prog)
    rules_hash.check_index_maps(ctx, prog, I)
    rules_c03.check_status_machine(ctx, prog, I, [G.sq('d', 4), G.sq('e', 5)] if tier == 'quick' else list(range(64)))
    ctx.exhaustive = tier != 'quick'
    ctx.assumptions += ['NOT decided: symmetry of the repetition filter\'s outcomes and of the order of the offered list (the order is '
                        'not symmetric and the property does not ask for it); only the structural facets computed by the analyses '
                        'are shown equivariant, not the Boolean formulas themselves']
    return ('Equivariance of constants and of the computed generator tables under file mirror and colour swap + rank flip, plus all '
            'colour/direction/square-quantified clauses of C01, C02, C04, C12 re-checked against their (symmetric) specification.',
            ['factgen MIR export', 'std summaries'])
