"""C20 - long games do not exhaust the stack (DESIGN 4, C20).

Decides, from the monomorphic call graph (local bodies + std generics whose MIR
rustc exports + elaborated drop glue):
  R1 no recursion (SCC) through a local function reachable from clone / drop /
     query entry points;
  R2 every drop-glue cycle (a type owning itself through a pointer) is
     neutralised: each edge entering the cycle comes either from the glue of a
     type with an `impl Drop` whose body leaves the link field emptied on every
     return, or from a `Drop` terminator in a local body that is reached only
     after the dropped value's link fields were emptied (`Option::take`,
     `mem::take`, `mem::replace`) - so each glue call is depth 1;
  R3 that Drop impl contains a loop that takes unique ownership of the next
     node (Arc::into_inner / try_unwrap / get_mut) - otherwise it would not
     release the chain at all (leak) or would leave the work to the glue.
"""
import re

from .program import tarjan, successors, dominators

TAKE_FNS = ('std::option::Option::<T>::take', 'std::mem::take', 'std::mem::replace',
            'core::mem::take', 'core::mem::replace')
UNIQUE_FNS = ('std::sync::Arc::<T, A>::into_inner', 'std::sync::Arc::<T, A>::try_unwrap',
              'std::sync::Arc::<T, A>::get_mut', 'std::sync::Arc::<T, A>::unwrap_or_clone',
              'std::rc::Rc::<T, A>::into_inner', 'std::rc::Rc::<T, A>::try_unwrap')


def _strip_generics(name):
    """'<linked_list::List<T> as std::ops::Drop>::drop<zobrist::Zobrist>' -> def path."""
    return name


def check(ctx, prog, facts, is_control=False):
    ctx.rule('C20.R1', 'no SCC through a local function in the monomorphic call graph reachable from '
                       'clone/drop/query entry points (derived Debug excluded)')
    ctx.rule('C20.R2', 'every edge entering a drop-glue cycle is neutralised (link field emptied before '
                       'the drop on every path)')
    ctx.rule('C20.R3', 'the neutralising Drop impl loops and takes unique ownership of each node')
    mono = facts['mono']
    N = mono['nodes']
    if mono.get('truncated'):
        ctx.finding('UNDECIDED', 'mono-walk', 'truncated', 'monomorphic call-graph walk hit its node cap')
    ctx.setcount('mono_instances', len(N))
    ctx.setcount('mono_leaves_without_mir', sum(1 for n in N if n['edges'] is None))
    # entry roots: everything except derived Debug impls
    fns = prog.fns
    roots = []
    for name, idx in mono['roots']:
        f = fns.get(name)
        if f is not None and f.get('trait_impl') and f['trait_impl'].endswith('fmt::Debug'):
            continue
        roots.append(idx)
    ctx.setcount('entry_roots', len(roots))
    if not is_control:
        ctx.floor('C20 entry roots (non-generic local fns + drop glue of state types)', len(roots), 120)
        for need in ('drop_in_place<engine::GameState>', 'drop_in_place<linked_list::List<zobrist::Zobrist>>',
                     '<engine::GameState as std::clone::Clone>::clone', 'engine::GameState::take_action',
                     'engine::GameState::valid_actions', 'engine::GameState::is_terminal'):
            ctx.anchor('entry root ' + need, any(n == need for n, _ in mono['roots']))

    def succ(i):
        return [e[0] for e in (N[i]['edges'] or [])]

    # reachable set
    seen = set()
    st = list(roots)
    while st:
        i = st.pop()
        if i in seen:
            continue
        seen.add(i)
        st.extend(succ(i))
    ctx.setcount('reachable_instances', len(seen))
    comps = tarjan(sorted(seen), succ)
    ctx.setcount('sccs', len(comps))
    # local generic bodies are not mono roots (List<T> methods never called by the crate):
    # cover them with the polymorphic local call graph as well.
    for comp in prog.sccs():
        if all(fns[c].get('trait_impl', '') and fns[c]['trait_impl'].endswith('fmt::Debug') for c in comp if c in fns):
            continue
        ctx.ob('local call graph SCC %s' % sorted(comp), False)
        ctx.finding('RECURSION', sorted(comp)[0], 'local-scc',
                    'recursion among local functions: %s' % ' -> '.join(sorted(comp)),
                    at='%s:%s' % (fns[sorted(comp)[0]]['file'], fns[sorted(comp)[0]]['line']))
    ctx.ob('polymorphic local call graph (%d bodies) has no SCC outside derived Debug' % len(fns), True)

    for comp in comps:
        names = [N[i]['name'] for i in comp]
        cs = set(comp)
        if all('dyn ' in n and n.startswith('drop_in_place<') for n in names):
            # virtual drop of a trait object, modelled as a self edge; not a cycle of this crate
            ctx.count('virtual_drop_selfloops')
            continue
        has_local_fn = [N[i] for i in comp if N[i]['local'] and N[i]['kind'] == 'Item']
        is_drop_cycle = any(n.startswith('drop_in_place<') for n in names)
        mentions_local = [n for n in names if _mentions_local_type(n, prog)]
        if has_local_fn:
            ctx.ob('SCC %s' % names, False)
            ctx.finding('RECURSION', has_local_fn[0]['path'], 'mono-scc',
                        'recursion through local function(s): %s' % ' -> '.join(names))
            continue
        if not is_drop_cycle:
            if mentions_local:
                ctx.ob('SCC %s' % names, False)
                ctx.finding('RECURSION', mentions_local[0], 'std-scc-over-local-type',
                            'std generic recursion instantiated with a local type: %s' % ' -> '.join(names))
            else:
                ctx.count('pure_std_sccs')
                ctx.notes.append('std-internal SCC (trusted base, no local type): %s' % names[:3])
            continue
        # ---- drop-glue cycle
        ctx.count('drop_cycles')
        cyc_types = set()
        for n in names:
            m = re.match(r'drop_in_place<(.*)>$', n)
            if m:
                cyc_types.add(m.group(1))
        entries = []
        for i in sorted(seen):
            if i in cs:
                continue
            for e in (N[i]['edges'] or []):
                if e[0] in cs:
                    entries.append((i, e[0], e[1]))
        if not entries:
            ctx.notes.append('drop cycle %s has no entry' % names)
        for (src, dst, isdrop) in entries:
            sname, dname = N[src]['name'], N[dst]['name']
            desc = 'drop-cycle entry %s -> %s' % (sname, dname)
            m = re.match(r'drop_in_place<(.*)>$', sname)
            if m:
                # glue of an outer type: must have a Drop impl that empties the field
                outer = m.group(1)
                ok, why = _glue_entry_ok(ctx, prog, N, src, outer, cyc_types)
                ctx.ob(desc + ' [glue of %s: %s]' % (outer, why), ok, sample=True)
                if not ok:
                    ctx.finding('DROP-CYCLE', outer, 'glue-entry',
                                'dropping %s runs the recursive drop glue of %s: %s' % (outer, dname, why),
                                detail={'cycle': names})
            elif N[src]['local']:
                ok, why = _body_entry_ok(prog, N[src]['path'], dname, cyc_types)
                ctx.ob(desc + ' [body: %s]' % why, ok, sample=True)
                if not ok:
                    ctx.finding('DROP-CYCLE', N[src]['path'], 'body-entry:' + _short(dname),
                                'a value whose drop glue is recursive (%s) is dropped while still linked: %s'
                                % (dname, why), detail={'cycle': names})
            else:
                # a std function dropping a cycle type on behalf of local code
                ctx.ob(desc + ' [std caller]', False, sample=True)
                ctx.finding('DROP-CYCLE', sname, 'std-entry:' + _short(dname),
                            'std function %s drops %s (recursive glue) - not neutralised' % (sname, dname))
    return


def _short(n):
    return re.sub(r'[a-z_]+::', '', n)[:60]


def _mentions_local_type(name, prog):
    for p in prog.adts:
        if p in name:
            return True
    for k in prog.fns:
        if '{closure' in k and k in name:
            return True
    return False


def _adt_of_type(prog, ty):
    base = ty.split('<')[0]
    return prog.adts.get(base)


def _link_fields(prog, tyname, cyc_types):
    """Indices of fields of ADT `tyname` whose type's drop glue is in the cycle."""
    adt = _adt_of_type(prog, tyname)
    if not adt or len(adt['variants']) != 1:
        return None
    out = []
    cyc_generic = {_genericise(t) for t in cyc_types}
    for i, f in enumerate(adt['variants'][0]['fields']):
        if _genericise(f['ty']) in cyc_generic or f['ty'] in cyc_types:
            out.append(i)
        elif _resolve_alias_match(f['ty'], cyc_types):
            out.append(i)
    return out


def _genericise(t):
    """Compare field types (written with T) against instantiated cycle types structurally:
    replace every path-like leaf argument by '_'."""
    return re.sub(r'<[^<>]*>', '<_>', re.sub(r'<[^<>]*>', '<_>', t))


def _resolve_alias_match(fty, cyc_types):
    g = _genericise(fty)
    return any(_genericise(c) == g for c in cyc_types)


def _glue_entry_ok(ctx, prog, N, src, outer, cyc_types):
    adt = _adt_of_type(prog, outer)
    if not adt:
        return False, 'outer type is not a local ADT'
    if not adt.get('drop_impl'):
        return False, 'no `impl Drop` neutralises the chain (derived glue recurses once per node)'
    dfn = adt['drop_impl']
    if dfn not in prog.fns:
        return False, 'Drop impl body not found'
    links = _link_fields(prog, outer, cyc_types)
    if not links:
        return False, 'could not identify the link field of %s' % outer
    body = prog.fns[dfn]
    # R3: loop + unique ownership
    # the loop may live in the Drop impl itself or in a local helper it hands the taken link to
    cands = [dfn]
    seen_f = {dfn}
    work = [dfn]
    while work:
        f_ = work.pop()
        for _, t_ in prog.calls(f_):
            c_ = prog.callee(t_)
            if c_ in prog.fns and c_ not in seen_f:
                seen_f.add(c_)
                cands.append(c_)
                work.append(c_)
    has_loop, uniq, where = False, [], dfn
    for f_ in cands:
        hl = _has_back_edge(prog.fns[f_])
        uq = [prog.callee(t) for _, t in prog.calls(f_) if prog.callee(t) in UNIQUE_FNS]
        uq += [p_ for p_ in _fn_items(prog, f_) if p_ in UNIQUE_FNS]       # passed as a function value (`.and_then(Arc::into_inner)`)
        if hl and uq:
            has_loop, uniq, where = True, uq, f_
            break
    ctx.ob('%s releases the chain in a loop (%s)' % (dfn, where), has_loop)
    ctx.ob('%s takes unique ownership via %s' % (where, uniq), bool(uniq))
    if not has_loop or not uniq:
        ctx.finding('DROP-CYCLE', dfn, 'no-iterative-release',
                    'Drop impl does not iteratively release the chain (loop=%s, unique-ownership calls=%s)'
                    % (has_loop, uniq))
    # self.<link> emptied at every return
    st = _emptied_dataflow(prog, dfn)
    bad = []
    for bi, b in enumerate(body['blocks']):
        if b.get('cleanup'):
            continue
        if b['term']['k'] == 'return':
            for lf in links:
                if ('self', lf) not in st.get(bi, set()):
                    bad.append((bi, lf))
    if bad:
        return False, 'Drop impl can return with the link field still full (blocks %s)' % bad
    # and every Drop terminator inside the impl is itself fine
    return True, 'impl Drop empties field(s) %s on every return' % links


def _has_back_edge(body):
    dom = dominators(body)
    for i, b in enumerate(body['blocks']):
        if b.get('cleanup'):
            continue
        for s in successors(b['term']):
            if s in dom[i]:
                return True
    return False


def _emptied_dataflow(prog, fname):
    """Forward must-analysis. Fact ('self'|local, field) = the link stored there has been
    moved out by take/replace and not written since. Returns IN-state at block *end* (before terminator
    effects of Return)."""
    body = prog.fns[fname]
    n = len(body['blocks'])
    blocks = body['blocks']
    ALL = None
    IN = {i: ALL for i in range(n)}
    IN[0] = set()
    OUT = {}
    # map: ref temp local -> (base, field) it points to (block-local, flow-insensitive is fine:
    # each temp is assigned once in MIR built from safe code)
    refs = {}
    for b in blocks:
        for s in b['st']:
            rv = s.get('rv')
            if rv and rv['k'] == 'ref' and rv['mut'] and not s['dst']['p']:
                tgt = _field_place(rv['pl'])
                if tgt:
                    refs[s['dst']['l']] = tgt

    def transfer(bi, state):
        st = set(state)
        b = blocks[bi]
        for s in b['st']:
            if 'dst' in s:
                st = _kill(st, s['dst'])
        t = b['term']
        if t['k'] == 'call':
            c = prog.callee(t)
            if c in TAKE_FNS and t['a'] and t['a'][0]['k'] in ('move', 'copy') and not t['a'][0]['pl']['p']:
                tgt = refs.get(t['a'][0]['pl']['l'])
                if tgt:
                    st.add(tgt)
            else:
                # passing &mut to anything else may refill
                for a in t['a']:
                    if a['k'] in ('move', 'copy') and not a['pl']['p'] and a['pl']['l'] in refs:
                        st.discard(refs[a['pl']['l']])
            st = _kill(st, t['dst'])
        return st

    work = [0]
    while work:
        bi = work.pop()
        if IN[bi] is None:
            continue
        out = transfer(bi, IN[bi])
        OUT[bi] = out
        for s in successors(blocks[bi]['term']):
            if blocks[s].get('cleanup'):
                continue
            new = out if IN[s] is None else (IN[s] & out)
            if IN[s] is None or new != IN[s]:
                IN[s] = set(new)
                work.append(s)
    # state just before the terminator's own effect: recompute without call effect for drops/returns
    res = {}
    for bi in range(n):
        if IN[bi] is None:
            continue
        st = set(IN[bi])
        for s in blocks[bi]['st']:
            if 'dst' in s:
                st = _kill(st, s['dst'])
        res[bi] = st
    return res


def _field_place(pl):
    """(*_1).f -> ('self', f) when _1 is the receiver; _k.f -> (k, f)."""
    p = pl['p']
    if len(p) == 2 and p[0] == 'deref' and isinstance(p[1], dict) and 'f' in p[1] and pl['l'] == 1:
        return ('self', p[1]['f'])
    if len(p) == 1 and isinstance(p[0], dict) and 'f' in p[0]:
        return (pl['l'], p[0]['f'])
    return None


def _kill(st, dst):
    out = set()
    for (base, f) in st:
        if base == 'self':
            if dst['l'] == 1 and dst['p'] and dst['p'][0] == 'deref':
                rest = dst['p'][1:]
                if not rest or (isinstance(rest[0], dict) and rest[0].get('f') == f):
                    continue
        else:
            if dst['l'] == base:
                rest = dst['p']
                if not rest:
                    # whole local (re)assigned: a fresh value, no longer known-empty
                    continue
                if isinstance(rest[0], dict) and rest[0].get('f') == f:
                    continue
        out.add((base, f))
    return out


def _body_entry_ok(prog, fname, dname, cyc_types):
    if fname not in prog.fns:
        return False, 'body of %s not exported' % fname
    body = prog.fns[fname]
    st = _emptied_dataflow(prog, fname)
    m = re.match(r'drop_in_place<(.*)>$', dname)
    dty = m.group(1) if m else dname
    checked = 0
    for bi, b in enumerate(body['blocks']):
        if b.get('cleanup'):
            continue
        t = b['term']
        if t['k'] != 'drop':
            continue
        if _genericise(t['ty']) != _genericise(dty):
            continue
        checked += 1
        links = _link_fields(prog, t['ty'], cyc_types)
        if links is None or t['pl']['p']:
            return False, 'drop of %s (a link / partial place) at %s while possibly still linked' % (t['ty'], t['at'])
        if not links:
            return False, 'no link field identified in %s' % t['ty']
        for lf in links:
            if (t['pl']['l'], lf) not in st.get(bi, set()):
                return False, 'field %d of the dropped %s is not emptied on every path to %s' % (lf, t['ty'], t['at'])
    if checked == 0:
        return False, 'no matching Drop terminator found in %s' % fname
    return True, '%d Drop terminator(s) of %s reached only with link field emptied' % (checked, dty)


def _fn_items(prog, fname):
    """paths of functions used as values (not called directly) in the body"""
    out = []

    def visit(o):
        if isinstance(o, dict):
            if o.get('k') == 'fn' and o.get('path'):
                out.append(o['path'])
            elif o.get('k') == 'zst':
                ti = prog.types.get(o.get('ty')) or {}
                if ti.get('k') == 'fndef':
                    out.append(ti.get('path'))
            for v in o.values():
                visit(v)
        elif isinstance(o, list):
            for v in o:
                visit(v)
    for b in prog.fns[fname]['blocks']:
        for s_ in b['st']:
            visit(s_.get('rv'))
        t = b['term']
        if t['k'] == 'call':
            visit(t.get('a'))
    return out
