from . import rules_c09, rules_geom, rules_rep, inputs


def self_controls(prog, facts):
    from . import perturb
    from spec import geometry as G

    def rule(c, p2):
        rules_c09.check_place_transitions(c, p2, inputs.make_interp(p2))
    return perturb.run_controls([('play starts after g7',
                                  lambda f: perturb.perturb_const(f, 'LAST_P2_PLACEMENT_MASK', 1 << G.sq('g', 7)), rule, 'C09.3')], facts)

def run(ctx, prog, facts, tier):
    I = inputs.make_interp(prog, fuel=5000000)
    rules_geom.check_constants(ctx, prog, which=['P1_PLACEMENT_MASK', 'P2_PLACEMENT_MASK', 'LAST_P1_PLACEMENT_MASK',
                                                 'LAST_P2_PLACEMENT_MASK'], rule='C09.1')
    rules_c09.check_placement_bit(ctx, prog, I)
    rules_c09.check_place_transitions(ctx, prog, I)
    rules_rep.check_setup_actions(ctx, prog, I)
    ctx.floor('C09 placement modes', ctx.analysed.get('place_modes', 0), 12)
    ctx.exhaustive = True
    ctx.assumptions += ['NOT decided: the count over all 64 864 800 x 64 864 800 placement orders; it follows from the per-placement '
                        'clauses by induction (argument, not mechanised)',
                        'that a home square is free whenever a placement is requested is an invariant of setup (C19 invariant table)']
    return ('Bit-level abstract interpretation of placement_bit (lowest-set-bit semantics exposed as must-literals), of '
            'take_action(Place) for every side and piece type with the three switch cases decoded from the result, and of the '
            'placement guards.', ['factgen MIR export', 'std summaries'])
