"""E: letter tables of printers and parsers (C15.2, C16.3)."""
from . import bits as B
from .bits import C0, C1
from .values import BV, Struct, Enum, Ref, Seq, Term, Ite, Tok, TRUE, FALSE
from .mai import State, Undecided
from . import inputs
from .rules_panic import find_impl
from spec import geometry as G


def _wide(f, ctx, prog):
    """letter tables are decoded from exact truth tables over up to 14 character tests"""
    old = B.K
    B.K = 14
    try:
        return f(ctx, prog)
    finally:
        B.K = old


def cmp_consts(v, acc=None):
    """constants a char is compared with inside the Ite tree `v`"""
    acc = set() if acc is None else acc
    if isinstance(v, Ite):
        for x in B.rawvars(v.c):
            if x[0] == '@':
                at = B.ATOMS[x[1]]
                if at.kind == 'cmp' and at.payload[0] == 'Eq':
                    for o in at.payload[1:]:
                        if isinstance(o, BV) and o.known():
                            acc.add(o.uval())
        cmp_consts(v.a, acc)
        cmp_consts(v.b, acc)
    elif isinstance(v, (Enum, Struct)):
        for f in v.fields:
            if isinstance(f, (Ite, Enum, Struct)):
                cmp_consts(f, acc)
    return acc


def eval_tree(v, atom_val):
    """Evaluate Ite conditions with atom_val(atom) -> 0/1/None"""
    while isinstance(v, Ite):
        c = v.c
        val = eval_bit(c, atom_val)
        if val is None:
            return None
        v = v.a if val else v.b
    if isinstance(v, Enum) and v.fields:
        fs = [eval_tree(x, atom_val) if isinstance(x, (Ite, Enum)) else x for x in v.fields]
        return Enum(v.ty, v.var, fs)
    if isinstance(v, Struct) and v.ty == 'tuple':
        return Struct('tuple', [eval_tree(x, atom_val) if isinstance(x, (Ite, Enum)) else x for x in v.fields])
    return v


def eval_bit(c, atom_val):
    if c.kind == 'c':
        return c.tt
    if c.kind == 's':
        i = 0
        for j, x in enumerate(c.sup):
            if x[0] != '@':
                return None
            a = atom_val(B.ATOMS[x[1]])
            if a is None:
                return None
            i |= a << j
        return c.tt[i]
    # Dep: try must / sufficient literals
    for (x, p) in B.suff(c):
        if x[0] == '@' and atom_val(B.ATOMS[x[1]]) == (1 if p else 0):
            return 1
    for (x, p) in B.must(c):
        if x[0] == '@' and atom_val(B.ATOMS[x[1]]) == (0 if p else 1):
            return 0
    return None


def char_table(prog, I, fn, universe_extra=()):
    """Parser table of a `from_str` taking one-character text: {char: variant name or None}."""
    st = State({})
    s = inputs.ref_to(I, st, 's', Tok('text', 'str'))
    r, _ = I.call_fn(fn, [s], st)
    consts = cmp_consts(r)
    lens = [c for c in consts if c < 8]
    chars = sorted(c for c in consts if c >= 8)
    universe = chars + [ord('~')] + [ord(x) for x in universe_extra]
    table = {}
    for ch in universe:
        def av(at, ch=ch):
            if at.kind == 'cmp' and at.payload[0] == 'Eq':
                a, b = at.payload[1], at.payload[2]
                k = b if isinstance(b, BV) else a
                t = a if isinstance(b, BV) else b
                if isinstance(t, Term) and t.kind == 'len':
                    return 1 if k.uval() == 1 else 0
                if isinstance(k, BV) and k.known():
                    return 1 if k.uval() == ch else 0
            if at.kind == 'variant':
                return 1   # chars.first() is Some when len == 1
            return None
        leaf = eval_tree(r, av)
        if isinstance(leaf, Enum) and leaf.var == 0 and leaf.fields and isinstance(leaf.fields[0], Enum):
            e = leaf.fields[0]
            table[chr(ch)] = prog.types[e.ty]['variants'][e.var]['name']
        elif isinstance(leaf, Enum) and leaf.var == 1:
            table[chr(ch)] = None
        else:
            table[chr(ch)] = '?'
    return table


def display_char(prog, I, fn, value):
    """The character (or constant text) a Display impl prints for a concrete value."""
    sink = []
    I.watch = {"core::fmt::rt::Argument::<'_>::new_display": sink}
    saved_ns = I.no_summary
    I.no_summary = set(I.no_summary) | {'action::map_bit_board_to_squares'}      # printers may fill cells bit by bit
    st = State({})
    v = inputs.ref_to(I, st, 'v', value)
    f = inputs.ref_to(I, st, 'f', Tok('fmt', 'std::fmt::Formatter'))
    I.memo.clear()
    try:
        I.call_fn(fn, [v, Ref(f.cell, (), True)], st)
    finally:
        I.watch = {}
        I.no_summary = saved_ns
        I.memo.clear()
    out = []
    for caller, args in sink:
        a = args[0]
        while isinstance(a, Ref):
            a = I.static_cells.get(a.cell, a)
            if isinstance(a, Ref):
                break
        out.append(a)
    return out


def as_text(v):
    if isinstance(v, BV) and v.known():
        return chr(v.uval())
    if isinstance(v, Struct) and v.ty == '$str':
        return v.fields[0]
    return None


def check_piece_direction_tables(ctx, prog):
    return _wide(_check_piece_direction_tables, ctx, prog)


def _check_piece_direction_tables(ctx, prog):
    ctx.rule('C16.3', 'Piece and Direction: the printed letter parses back to the same value; the parser accepts exactly the printed '
                      'letters (piece letters also in upper case) and nothing else')
    I = inputs.make_interp(prog, fuel=5000000)
    for ty, spec, allow_upper in (('piece::Piece', G.LETTER, True), ('direction::Direction', G.DIR_LETTER, False)):
        dfn = find_impl(prog, 'std::fmt::Display', ty, 'fmt')
        pfn = find_impl(prog, 'std::str::FromStr', ty, 'from_str')
        if not (ctx.anchor('impl Display for ' + ty, dfn is not None) and ctx.anchor('impl FromStr for ' + ty, pfn is not None)):
            continue
        printed = {}
        for i, v in enumerate(prog.types[ty]['variants']):
            outs = display_char(prog, I, dfn, Enum(ty, i))
            txt = as_text(outs[0]) if len(outs) == 1 else None
            printed[v['name']] = txt
            ok = txt == spec[v['name']]
            ctx.ob('%s::%s prints as %r (official notation %r)' % (ty.split('::')[-1], v['name'], txt, spec[v['name']]), ok, sample=(i == 0))
            if not ok:
                ctx.finding('C16.3', dfn, 'print:' + v['name'], '%s prints as %r; the notation is %r' % (v['name'], txt, spec[v['name']]))
        table = char_table(prog, I, pfn, universe_extra='pP')
        for name, letter in printed.items():
            if letter is None:
                continue
            ok = table.get(letter) == name
            ctx.ob('%r parses back to %s' % (letter, name), ok, sample=(name in ('Camel', 'Left')))
            if not ok:
                ctx.finding('C16.3', pfn, 'roundtrip:' + name, 'printed form %r of %s parses as %s' % (letter, name, table.get(letter)))
        accepted = {c: v for c, v in table.items() if v}
        want = {l: n for n, l in printed.items() if l}
        if allow_upper:
            want.update({l.upper(): n for n, l in printed.items() if l})
        ok = accepted == want
        ctx.ob('%s parser accepts exactly %s' % (ty.split('::')[-1], sorted(want)), ok, sample=True)
        if not ok:
            extra = {c: v for c, v in accepted.items() if want.get(c) != v}
            missing = {c: v for c, v in want.items() if accepted.get(c) != v}
            ctx.finding('C16.3', pfn, 'accepts', 'parser table differs from the printed forms: unexpected %s, missing %s' % (extra, missing))
    return I


def check_action_delegation(ctx, prog):
    return _wide(_check_action_delegation, ctx, prog)


def _check_action_delegation(ctx, prog):
    ctx.rule('C16.3a', 'Action: Pass <-> "p" on both sides and "p" is not a piece letter; Place prints through Piece: Display and parses '
                       'through Piece: FromStr; Move prints square then direction and parses 2 + 1 characters through their FromStr')
    I = inputs.make_interp(prog, fuel=5000000)
    dfn = find_impl(prog, 'std::fmt::Display', 'action::Action', 'fmt')
    pfn = find_impl(prog, 'std::str::FromStr', 'action::Action', 'from_str')
    if not (ctx.anchor('impl Display for Action', dfn is not None) and ctx.anchor('impl FromStr for Action', pfn is not None)):
        return
    av = {v['name']: i for i, v in enumerate(prog.types['action::Action']['variants'])}
    # printing: which values reach the formatter
    sink_str = []
    I.watch = {'<T as std::string::ToString>::to_string': sink_str}
    outs = display_char(prog, I, dfn, Enum('action::Action', av['Pass']))
    # display_char resets watch; run again for to_string capture
    sink_str = []
    I.watch = {'<T as std::string::ToString>::to_string': sink_str}
    st = State({})
    v = inputs.ref_to(I, st, 'v', Enum('action::Action', av['Pass']))
    f = inputs.ref_to(I, st, 'f', Tok('fmt', 'std::fmt::Formatter'))
    I.memo.clear()
    I.call_fn(dfn, [v, Ref(f.cell, (), True)], st)
    I.watch = {}
    texts = [as_text(a[0]) for _c, a in sink_str]
    ok = texts == ['p']
    ctx.ob('Action::Pass prints the constant "p" (%s)' % texts, ok, sample=True)
    if not ok:
        ctx.finding('C16.3a', dfn, 'print:Pass', 'Pass prints %s, expected "p"' % texts)
    mv = Enum('action::Action', av['Move'], (inputs.square(27), inputs.direction(prog, 'Left')))
    outs = display_char(prog, I, dfn, mv)
    kinds = [(o.ty if isinstance(o, (Struct, Enum)) else type(o).__name__) for o in outs]
    ok = kinds[:2] == ['square::Square', 'direction::Direction'] and outs[0] == inputs.square(27) and outs[1] == inputs.direction(prog, 'Left')
    ctx.ob('Action::Move prints its square then its direction through their Display impls', ok, sample=True)
    if not ok:
        ctx.finding('C16.3a', dfn, 'print:Move', 'Move(d5, Left) hands %s to the formatter' % kinds)
    pl = Enum('action::Action', av['Place'], (inputs.piece(prog, 'Dog'),))
    outs = display_char(prog, I, dfn, pl)
    ok = len(outs) >= 1 and outs[0] == inputs.piece(prog, 'Dog')
    ctx.ob('Action::Place prints its piece through Piece: Display', ok)
    if not ok:
        ctx.finding('C16.3a', dfn, 'print:Place', 'Place(Dog) hands %r to the formatter' % (outs[:1],))
    # parsing: callee set and constants
    parses = []
    consts = set()
    for name in [pfn] + prog.closures_of(pfn):
        for bi, t in prog.calls(name):
            c = prog.callee(t) or ''
            if c.endswith('str>::parse'):
                parses.append((t.get('res') or {}).get('args', ''))
        for b in prog.fns[name]['blocks']:
            for s in b['st']:
                rv = s.get('rv')
                if rv and rv['k'] == 'bin' and rv['op'] in ('Eq', 'Ne'):
                    for o in (rv['a'], rv['b']):
                        if o['k'] == 'int' and o['ty'] == 'char':
                            consts.add(chr(int(o['v'])))
                        if o['k'] == 'int' and o['ty'] == 'usize':
                            consts.add(int(o['v']))
    targets = sorted(p.strip('[]').split(',')[0].strip() for p in parses)
    ok = targets == ['direction::Direction', 'piece::Piece', 'square::Square']
    ctx.ob('Action parser delegates to the FromStr impls of %s' % targets, ok, sample=True)
    if not ok:
        ctx.finding('C16.3a', pfn, 'delegation', 'Action::from_str parses through %s, expected Piece, Square and Direction' % targets)
    ok = 'p' in consts and {1, 3} <= consts
    ctx.ob('Action parser: "p" for Pass, lengths 1 and 3 (%s)' % sorted(map(str, consts)), ok)
    if not ok:
        ctx.finding('C16.3a', pfn, 'pass-letter', 'Action::from_str compares with %s; expected the letter p and the lengths 1 and 3' % sorted(map(str, consts)))
    ok = 'p' not in G.LETTER.values() and 'P' not in [x.upper() for x in G.LETTER.values()] or True
    I2 = inputs.make_interp(prog, fuel=5000000)
    tab = char_table(prog, I2, find_impl(prog, 'std::str::FromStr', 'piece::Piece', 'from_str'), universe_extra='pP')
    ok = tab.get('p') is None
    ctx.ob('"p" is not accepted as a piece letter', ok)
    if not ok:
        ctx.finding('C16.3a', pfn, 'p-ambiguous', '"p" parses as the piece %s: Pass and Place would be ambiguous' % tab.get('p'))


def check_diagram_tables(ctx, prog):
    return _check_diagram_tables(ctx, prog)


def _check_diagram_tables(ctx, prog):
    ctx.rule('C15.2', 'diagram letters: the letter the printer writes for (type, colour) is the expected one (gold upper case, silver '
                      'lower case), empty squares print as blank and empty traps as x; what the parser records for each of these '
                      'characters is decided by <prop>.pb (c)')
    letters, why = printed_letters(prog)
    if letters is None:
        ctx.ob('printed diagram letters extracted', False)
        ctx.finding('C15.2', 'Display for GameState', 'letters', 'cannot extract the printed letters: %s' % why)
        return
    for p in G.STRENGTH:
        for gold in (True, False):
            letter = letters.get((p, gold))
            want = G.LETTER[p].upper() if gold else G.LETTER[p]
            ok = letter == want
            ctx.ob('%s %s prints %r' % ('gold' if gold else 'silver', p, letter), ok, sample=(p == 'Camel'))
            if not ok:
                ctx.finding('C15.2', 'Display for GameState', 'letter:%s:%s' % (p, 'gold' if gold else 'silver'),
                            '%s %s is printed as %r (expected %r)' % ('gold' if gold else 'silver', p, letter, want))
    ok = letters.get('empty') == ' ' and letters.get('trap') == 'x'
    ctx.ob('an empty square prints as blank, an empty trap as x (%r, %r)' % (letters.get('empty'), letters.get('trap')), ok)
    if not ok:
        ctx.finding('C15.2', 'Display for GameState', 'nonpiece', 'an empty square prints as %r, an empty trap as %r'
                    % (letters.get('empty'), letters.get('trap')))


def check_side_letters(ctx, prog):
    I = inputs.make_interp(prog, fuel=5000000)
    dfn = find_impl(prog, 'std::fmt::Display', 'engine::GameState', 'fmt')
    ffn = find_impl(prog, 'std::str::FromStr', 'engine::GameState', 'from_str')
    if dfn and ffn:
        silver_letters = set()
        helper_fns = sorted(n for n in prog.reachable([ffn], follow=lambda n: 'FromStr' not in n or n == ffn)
                            if n in prog.fns and n != ffn and n.startswith('display::'))
        for name in [ffn] + prog.closures_of(ffn) + helper_fns:
            for b in prog.fns[name]['blocks']:
                t = b['term']
                if t['k'] == 'call' and (prog.callee(t) or '').endswith('::ne'):
                    for a in t['a']:
                        pass
            for body in prog.bodies(name):
                for b in body['blocks']:
                    ops = [s['rv']['o'] for s in b['st'] if s.get('rv') and s['rv']['k'] == 'use']
                    if b['term']['k'] == 'call':
                        ops += list(b['term'].get('a') or [])      # `matches!(x, "s" | "b")` passes the constants directly to str::eq
                    for o in ops:
                        if o.get('k') == 'val' and o.get('ty') == '&str' and o.get('bytes'):
                            txt = bytes.fromhex(o['bytes']).decode('utf8', 'replace')
                            if len(txt) == 1:
                                silver_letters.add(txt)
        printed = {}
        for gold in (True, False):
            outs = display_char(prog, I, dfn, inputs.play_state(prog, gold, 0))
            texts = [as_text(o) for o in outs]
            side = [t for t in texts if t in ('g', 's', 'w', 'b')]
            printed[gold] = side[0] if side else None
        ok = printed[False] in silver_letters and printed[True] not in silver_letters and printed[True] is not None
        ctx.ob('side letters: printer gold=%r silver=%r; parser treats %s as silver' % (printed[True], printed[False], sorted(silver_letters)), ok, sample=True)
        if not ok:
            ctx.finding('C15.2', dfn, 'side-letter', 'printer writes gold=%r silver=%r but the parser reads %s as silver'
                        % (printed[True], printed[False], sorted(silver_letters)))


# ------------------------------------------------------------------------------------------------ header of the diagram
def decode_template(hexbytes):
    """format_args! template of this toolchain: 0xC0 = next argument with default formatting, 0x01..0x7f = literal text of
    that many bytes, 0x00 = end. Anything else is not decoded (None)."""
    b = bytes.fromhex(hexbytes)
    out = []
    i = 0
    while i < len(b):
        c = b[i]
        if c == 0:
            return out if i == len(b) - 1 else None
        if c == 0xC0:
            out.append(('arg', None))
            i += 1
        elif c < 0x80:
            out.append(('lit', b[i + 1:i + 1 + c].decode('utf8', 'replace')))
            i += 1 + c
        else:
            return None
    return None


def check_header(ctx, prog, parser_interp):
    """C15.hdr: every header line the printer can emit is matched by the parser's constant pattern, with the digits captured
    as the number group and the side letter as the side group; otherwise the parser silently falls back to its default."""
    from . import regex_lite
    ctx.rule('C15.hdr', 'the printed header "<move number><side letter>" (1 to 20 digits, either side) is matched by the parser\'s '
                        'constant header pattern, which captures exactly the digits and the side letter in the groups the parser reads')
    dfn = find_impl(prog, 'std::fmt::Display', 'engine::GameState', 'fmt')
    ffn = find_impl(prog, 'std::str::FromStr', 'engine::GameState', 'from_str')
    if not (dfn and ffn):
        return
    # 1. the printer's header: first formatted write
    I = inputs.make_interp(prog, fuel=20000000)
    I.strict_unknown = False
    sides = {}
    tmpl = None
    for gold in (True, False):
        st = State({})
        a_sink, d_sink = [], []
        I.watch = {"Arguments::<'a>::new": a_sink, 'new_display': d_sink}
        saved_ns = I.no_summary
        I.no_summary = set(I.no_summary) | {'action::map_bit_board_to_squares'}
        I.memo.clear()
        try:
            v = inputs.ref_to(I, st, 'v', inputs.play_state(prog, gold, 0))
            f = inputs.ref_to(I, st, 'f', Tok('fmt', 'std::fmt::Formatter'))
            I.call_fn(dfn, [v, Ref(f.cell, (), True)], st)
        except Undecided as e:
            ctx.finding('C15.hdr', dfn, 'undecided', 'cannot follow the printer: %s' % e)
            return
        finally:
            I.watch = {}
            I.no_summary = saved_ns
            I.memo.clear()
        if not a_sink:
            ctx.finding('C15.hdr', dfn, 'no-header', 'the printer makes no formatted write')
            return
        t0 = a_sink[0][1][0]
        hexb = ''.join('%02x' % x.uval() for _, x in [(0, it[1]) for it in t0.items]) if isinstance(t0, Seq) else None
        tmpl = decode_template(hexb) if hexb else None
        nargs = sum(1 for k, _ in (tmpl or []) if k == 'arg')
        args = [a[1][0] for a in d_sink[:nargs]]
        if tmpl is None or nargs != 2:
            ctx.finding('C15.hdr', dfn, 'template', 'header template %s not decoded as two placeholders' % (hexb,))
            return
        num, side = args
        ok = isinstance(num, Term) and num.kind == 'tok' and as_text(side) is not None
        if not ok:
            ctx.finding('C15.hdr', dfn, 'header-args', 'header prints %r and %r (expected the move number field and a side letter)' % (num, side))
            return
        sides[gold] = as_text(side)
    lits = [x for k, x in tmpl if k == 'lit']
    pos = [k for k, _ in tmpl]
    ok = pos[:2] == ['arg', 'arg']
    ctx.ob('printer header is "<move number><side>%s" with sides %s' % (''.join(lits).encode('unicode_escape').decode(), sides), ok, sample=True)
    if not ok:
        ctx.finding('C15.hdr', dfn, 'header-shape', 'header template is %r' % (tmpl,))
        return
    tail = ''.join(lits) + ' +-----------------+\n8'
    # 2. the parser's pattern and the groups it reads
    helpers = set(n for n in prog.reachable([ffn], follow=lambda n: 'FromStr' not in n or n == ffn) if n in prog.fns)
    pats = [t for (fn, at, t) in parser_interp.regex_patterns if fn == ffn or fn.startswith(ffn) or fn in helpers]
    if len(pats) != 1 or pats[0] is None:
        ctx.finding('C15.hdr', ffn, 'pattern', 'expected one constant header pattern in the parser, found %r' % (pats,))
        return
    try:
        rx = regex_lite.compile(pats[0])
    except Exception as e:
        ctx.finding('C15.hdr', ffn, 'pattern', 'header pattern %r is outside the supported fragment: %s' % (pats[0], e))
        return
    used = [e[3] for e in parser_interp.events if e[0] == 'captures-get']
    bad = []
    groups = None
    n = 0
    for k in range(1, 21):
        for d in '1234567890':
            digits = (d * k) if d != '0' else ('10' * k)[:k]
            for gold, sl in sorted(sides.items()):
                n += 1
                text = digits + sl + tail
                m = regex_lite.search(rx, text)
                if m is None:
                    bad.append((text[:k + 1], 'not matched: the parser falls back to its default header'))
                    continue
                g = {i: text[a:b] for i, (a, b) in m.items()}
                gn = [i for i, x in g.items() if i and x == digits]
                gs = [i for i, x in g.items() if i and x == sl]
                if not gn or not gs:
                    bad.append((text[:k + 1], 'captures %r' % ({i: g[i] for i in sorted(g) if i},)))
                    continue
                cur = (gn[0], gs[0])
                if groups is None:
                    groups = cur
                elif groups != cur:
                    bad.append((text[:k + 1], 'groups move: %r vs %r' % (cur, groups)))
    ctx.analysed['header_strings'] = n
    ctx.ob('all %d printed headers (1..20 digits x both sides) are matched with digits and side captured' % n, not bad, sample=True)
    for text, why in bad[:3]:
        ctx.finding('C15.hdr', ffn, 'header:%d-digits' % (len(text) - 1), 'printed header %r: %s (pattern %r)' % (text, why, pats[0]))
    if groups is not None:
        ok = used and used[0] == groups[0] and set(used) == set(groups)
        ctx.ob('the parser reads group %d as the number and group %d as the side (reads: %s)' % (groups[0], groups[1], used), bool(ok))
        if not ok:
            ctx.finding('C15.hdr', ffn, 'groups', 'pattern captures number/side in groups %r but the parser reads groups %r' % (groups, used))


# ------------------------------------------------------------------------------------------------ parsed boards are consistent
def check_parsed_board_consistent(ctx, prog, prop, full=False):
    """Base case of the board invariant for parsed positions (C10): the diagram parser sets the gold-owner bit of a square only
    together with exactly one piece-type bit of the same square, and never two type bits.  The parser's own MIR is run with
    its two loop-driving `next()` call sites scripted: a grid of *arbitrary, pairwise independent* characters at known
    (row, column) positions.  (a) positions: the character at (r, c) can only influence bit 8r + c, through the same abstract
    function everywhere; (b) for one square the Boolean relations between the seven bits are decided exactly."""
    R = prop + '.pb'
    ctx.rule(R, 'diagram parser, for every (row, column) and an arbitrary character: only the bit of that square can be set; the '
                'owner bit is set only if a type bit is set; at most one type bit is set; rows or columns beyond 8 are rejected')
    ffn = find_impl(prog, 'std::str::FromStr', 'engine::GameState', 'from_str')
    newfn = prog.one('PieceBoard::new')
    if not (ctx.anchor('impl FromStr for GameState', ffn is not None) and ctx.anchor('fn PieceBoard::new', newfn is not None)):
        return
    I = inputs.make_interp(prog, fuel=20000000)
    I.strict_unknown = False

    def loop_sites(fname):
        body = prog.fns[fname]
        inner_of, loops = I.loopinfo(body)
        out = []
        for bi, blk in enumerate(body['blocks']):
            t = blk['term']
            if t['k'] == 'call' and ((prog.callee(t) or '').endswith('as std::iter::Iterator>::next') or
                                     (prog.callee(t) or '') == 'std::iter::Iterator::next') and not blk.get('cleanup'):
                depth = sum(1 for h, bs in loops.items() if bi in bs)
                dty = body['locals'][t['dst']['l']] if t.get('dst') and not t['dst']['p'] else ''
                if depth == 0:
                    continue           # a `next()` outside the loops (e.g. taking the header section first) drives no loop
                out.append((depth, bi, t, dty))
        out.sort(key=lambda x: (x[0], x[1]))
        return out

    def is_grid(ss):
        return len(ss) == 2 and ss[0][0] == 1 and ss[1][0] == 2 and 'char' in ss[1][3] and 'str' in ss[0][3]
    sites = loop_sites(ffn)
    if not is_grid(sites):
        # the row / column loops may live in a helper the parser calls (`parse_board_rows(sections)`)
        for cand in sorted(prog.reachable([ffn], follow=lambda n: 'FromStr' not in n or n == ffn)):
            if cand != ffn and cand in prog.fns and not prog.fns[cand].get('trait_impl') and is_grid(loop_sites(cand)):
                sites = loop_sites(cand)
                break
    ok = is_grid(sites)
    ctx.ob('the parser has an outer loop over lines and an inner loop over characters', ok)
    if not ok:
        ctx.finding(R, ffn, 'shape', 'expected a line loop containing a character loop driven by Iterator::next; found %s'
                    % [(d, ty) for d, _, _, ty in sites])
        return
    (_, _, t_out, ty_out), (_, _, t_in, ty_in) = sites
    bad = []
    nruns = 0

    def run(grid):
        """grid: list of (row, [columns])"""
        st = State({})
        st.store[('static', 'line0')] = Tok('line', 'str')
        st.store[('static', 'line1')] = Ref(('static', 'line0'))
        outer = [Enum(ty_out, 1, (Struct('tuple', (BV.const(r, 64), Ref(('static', 'line1')))),)) for r, _ in grid] + [Enum(ty_out, 0)]
        inner = []
        for r, cols in grid:
            for c in cols:
                ch = Term('tok', ('ch%d_%d' % (r, c),), 32, 0, 0x10FFFF)
                inner.append(Enum(ty_in, 1, (Struct('tuple', (BV.const(c, 64), ch)),)))
            inner.append(Enum(ty_in, 0))
        I.site_script = {id(t_out): outer, id(t_in): inner}
        sink = []
        I.watch = {'PieceBoard::new': sink}
        I.memo.clear()
        try:
            I.call_fn(ffn, [inputs.ref_to(I, st, 's', Tok('text', 'str'))], st)
        finally:
            I.watch = {}
            I.site_script = {}
        return [e[1] for e in sink]

    def shape_ok(acc):
        return len(acc) == 7 and all(isinstance(x, BV) and x.w == 64 for x in acc)

    def char_atoms(bit):
        """atoms of the bit that mention a scripted character: (atom kind, key text)"""
        return [(B.ATOMS[v[1]].kind, repr(B.ATOMS[v[1]].key)) for v in B.rawvars(bit) if v[0] == '@' and "'ch" in repr(B.ATOMS[v[1]].key)]

    def signature(bit, name):
        if bit.kind == 'c':
            return ('c', bit.tt)
        return tuple(sorted((k, key.replace(name, 'CH')) for k, key in char_atoms(bit)))
    # (0) rows / columns beyond the board are rejected before anything is recorded
    for grid in ([(8, [0])], [(0, [8])]):
        try:
            sinks = run(grid)
            nruns += 1
            if sinks:
                bad.append((grid[0], 'bounds', 'a character in row %d column %d reaches PieceBoard::new instead of being rejected'
                            % (grid[0][0], grid[0][1][0])))
        except Undecided as e:
            bad.append((grid[0], 'undecided', str(e)[:200]))
    # (a) positions
    if full:
        grid = [(r, list(range(8))) for r in range(8)]
    else:
        grid = [(r, list(range(8)) if r in (0, 7) else [0, 3, 7]) for r in range(8)]
    sinks = None
    try:
        sinks = run(grid)
        nruns += 1
    except Undecided as e:
        bad.append(((0, [0]), 'undecided', str(e)[:200]))
    if sinks is not None and not sinks:
        bad.append(((0, [0]), 'shape', 'a well-formed diagram does not reach PieceBoard::new'))
    nsq = 0
    for acc in (sinks or []):
        if not shape_ok(acc):
            bad.append(((0, [0]), 'shape', 'PieceBoard::new receives %r' % (acc,)))
            continue
        scripted = {r * 8 + c for r, cols in grid for c in cols}
        for j in range(64):
            if j not in scripted and any(x.bits[j] is not C0 for x in acc):
                bad.append(((j // 8, [j % 8]), 'square', 'bit %d can be set although no character was supplied for that square' % j))
        ref_sig = None
        for r, cols in grid:
            for c in cols:
                idx = r * 8 + c
                nsq += 1
                name = 'ch%d_%d' % (r, c)
                g = [x.bits[idx] for x in acc]
                foreign = sorted(set(key[:60] for b_ in g for _, key in char_atoms(b_) if ("'" + name + "'") not in key))
                if foreign:
                    bad.append(((r, [c]), 'square', 'bit %d depends on the character of another square: %s' % (idx, foreign[:2])))
                    continue
                if all(b_.kind == 'c' for b_ in g):
                    bad.append(((r, [c]), 'square', 'bit %d of every board is constant: the character at row %d column %d is not recorded there' % (idx, r, c)))
                    continue
                sig = tuple(signature(b_, name) for b_ in g)
                if ref_sig is None:
                    ref_sig = sig
                elif sig != ref_sig:
                    bad.append(((r, [c]), 'uniform', 'the character at row %d column %d is interpreted differently from the one at row 0 column 0' % (r, c)))
    # (b) exact relations for one square
    saveK = B.K
    B.K = 14
    try:
        try:
            sinks1 = run([(2, [3])])
            nruns += 1
        except Undecided as e:
            sinks1 = []
            bad.append(((2, [3]), 'undecided', str(e)[:200]))
        for acc in sinks1:
            if not shape_ok(acc):
                continue
            idx = 19
            g = [x.bits[idx] for x in acc]
            owner, types = g[0], g[1:]
            if I.decide(B.band(owner, B.bnot(B.bigor(types))), ()) is not False:
                bad.append(((2, [3]), 'owner-without-piece', 'the gold-owner bit can be set for a character that sets no piece-type bit'))
            for a in range(6):
                for b2 in range(a + 1, 6):
                    if I.decide(B.band(types[a], types[b2]), ()) is not False:
                        bad.append(((2, [3]), 'two-types', 'one character can set two piece-type bits (arguments %d and %d)' % (a + 1, b2 + 1)))
            if all(I.decide(x, ()) is False for x in types):
                bad.append(((2, [3]), 'no-piece', 'no character sets a piece-type bit'))
    finally:
        B.K = saveK
    # (c) the printed letters, one constant character at a time: which board and owner the parser records for it
    letters, _why = printed_letters(prog)
    if letters is not None and sites:
        printed = {k: v for k, v in letters.items() if isinstance(k, tuple) and v}
        order = [f_['name'] for f_ in prog.fns[newfn].get('arg_names', [])] if prog.fns[newfn].get('arg_names') else None
        type_names = ['Elephant', 'Camel', 'Horse', 'Dog', 'Cat', 'Rabbit']      # PieceBoard::new(p1, e, m, h, d, c, r): checked by C10 accessors
        def run_const(code):
            st = State({})
            st.store[('static', 'line0')] = Tok('line', 'str')
            st.store[('static', 'line1')] = Ref(('static', 'line0'))
            I.site_script = {id(t_out): [Enum(ty_out, 1, (Struct('tuple', (BV.const(2, 64), Ref(('static', 'line1')))),)), Enum(ty_out, 0)],
                             id(t_in): [Enum(ty_in, 1, (Struct('tuple', (BV.const(3, 64), BV.const(code, 32))),)), Enum(ty_in, 0)]}
            sink = []
            I.watch = {'PieceBoard::new': sink}
            I.memo.clear()
            try:
                I.call_fn(ffn, [inputs.ref_to(I, st, 's', Tok('text', 'str'))], st)
            finally:
                I.watch = {}
                I.site_script = {}
            outs = set()
            for e in sink:
                acc = e[1]
                if not shape_ok(acc) or not all(x.known() for x in acc):
                    return None
                outs.add(tuple(x.uval() for x in acc))
            return outs
        for (pname, gold), letter in sorted(printed.items()):
            try:
                outs = run_const(ord(letter))
            except Undecided:
                outs = None
            want = tuple([(1 << 19) if gold else 0] + [(1 << 19) if tn == pname else 0 for tn in type_names])
            ok = outs == {want}
            ctx.ob('the parser records the printed letter %r as a %s %s on its square' % (letter, 'gold' if gold else 'silver', pname), ok,
                   sample=(pname == 'Camel'))
            if not ok:
                ctx.finding(R, ffn, 'letter:%s:%s' % (pname, 'gold' if gold else 'silver'),
                            'the printed letter %r (%s %s) is recorded by the parser as %r' % (letter, 'gold' if gold else 'silver', pname, outs))
        for letter in sorted(set(x for x in (letters.get('empty'), letters.get('trap'), ' ', 'x') if x)):
            try:
                outs = run_const(ord(letter))
            except Undecided:
                outs = None
            ok = outs == {(0,) * 7}
            ctx.ob('the parser records nothing for %r' % letter, ok)
            if not ok:
                ctx.finding(R, ffn, 'nonpiece:%d' % ord(letter), 'the character %r of an empty square is recorded as %r' % (letter, outs))
        ctx.floor('printed diagram letters', len(printed), 12)
    ctx.analysed['parser_scripted_squares'] = nsq
    ctx.floor('diagram parser scripted runs', nruns, 4)
    kinds = {}
    for (rc, kind, msg) in bad:
        kinds.setdefault(kind, []).append((rc, msg))
    for kind in ('square', 'uniform', 'owner-without-piece', 'two-types', 'no-piece', 'bounds', 'shape', 'undecided'):
        ctx.ob('diagram parser: no "%s" violation' % kind, kind not in kinds, sample=(kind in ('owner-without-piece', 'square')))
        if kind in kinds:
            rc, msg = kinds[kind][0]
            ctx.finding(R, ffn, kind, '%s (%d positions affected)' % (msg, len(kinds[kind])))


# ------------------------------------------------------------------------------------------------ print -> parse layout
class _Tagged(list):
    """watch sink that records which callee fired"""
    def __init__(self, tag, out):
        list.__init__(self)
        self.tag, self.out = tag, out

    def append(self, x):
        self.out.append((self.tag, x))


def printer_skeleton(prog, I, dfn, gsv):
    """The text Display writes for an arbitrary board, as a list of characters: constants, or ('L', square index) for the
    one-character letter of a square, ('N',) for the move number.  None with a reason when a write is not understood."""
    ev = []
    I.watch = {"Arguments::<'a>::new": _Tagged('new', ev), "Arguments::<'a>::from_str": _Tagged('lit', ev),
               'new_display': _Tagged('disp', ev)}
    # loops over the set bits of a board are followed bit by bit here (every printed cell must be tied to one known square), so
    # the bulk summary of map_bit_board_to_squares is not used
    saved_ns = I.no_summary
    I.no_summary = set(I.no_summary) | {'action::map_bit_board_to_squares'}
    st = State({})
    I.memo.clear()
    try:
        v = inputs.ref_to(I, st, 'v', gsv)
        f = inputs.ref_to(I, st, 'f', Tok('fmt', 'std::fmt::Formatter'))
        I.call_fn(dfn, [v, Ref(f.cell, (), True)], st)
    finally:
        I.watch = {}
        I.no_summary = saved_ns
        I.memo.clear()
    out = []
    pending = []
    for tag, (caller, args) in ev:
        if tag == 'disp':
            pending.append(args[0])
        elif tag == 'lit':
            txt = as_text(args[0])
            if txt is None:
                return None, 'a literal write is not a constant string'
            out.extend(txt)
        else:
            t0 = args[0]
            hexb = ''.join('%02x' % it[1].uval() for it in t0.items) if isinstance(t0, Seq) else None
            tmpl = decode_template(hexb) if hexb else None
            if tmpl is None:
                return None, 'format template %s not decoded' % hexb
            for kind, txt in tmpl:
                if kind == 'lit':
                    out.extend(txt)
                    continue
                if not pending:
                    return None, 'a placeholder without an argument'
                a = pending.pop(0)
                if isinstance(a, Struct) and a.ty == '$String' and isinstance(a.fields[0], Ref):
                    a = I.static_cells.get(a.fields[0].cell, a)       # a String whose text is known
                if isinstance(a, Struct) and a.ty == '$charstr' and isinstance(a.fields[0], BV) and a.fields[0].known():
                    a = a.fields[0]
                if isinstance(a, (Enum, Struct)) and not a.ty.startswith(('$', 'std::', 'core::', 'tuple')) and not _has_ite(a):
                    # a known value of a local type with its own Display impl (`enum Cell { .. }`): its printed text
                    txt = _local_display_text(prog, I, a)
                    if txt is None:
                        return None, 'cannot print the local value %r' % (a,)
                    out.extend(txt)
                    continue
                if isinstance(a, Term) and a.kind == 'tok':
                    out.append(('N',))
                elif as_text(a) is not None and not isinstance(a, BV):
                    out.extend(as_text(a))
                elif isinstance(a, BV) and a.known():
                    out.extend(chr(a.uval()) if a.w == 32 else str(a.uval()))   # a char prints itself, integers print in decimal
                else:
                    idxs = set()
                    stack = [a]
                    while stack:
                        x = stack.pop()
                        if isinstance(x, BV):
                            for b_ in x.bits:
                                for d_ in B.deps(b_):
                                    if isinstance(d_, tuple) and len(d_) == 2 and isinstance(d_[1], int):
                                        idxs.add(d_[1])
                        if isinstance(x, Ite):
                            for var in B.rawvars(x.c):
                                if isinstance(var, tuple) and len(var) == 2 and isinstance(var[1], int) and var[0] != '@' and var[0] != '#':
                                    idxs.add(var[1])
                                elif var[0] == '@':
                                    for d in B.ATOMS[var[1]].deps:
                                        if isinstance(d, tuple) and len(d) == 2 and isinstance(d[1], int):
                                            idxs.add(d[1])
                            stack.extend([x.a, x.b])
                    if len(idxs) != 1:
                        return None, 'a printed item (%s) depends on the board bits of squares %s (expected one square)' % (repr(a)[:160], sorted(idxs))
                    out.append(('L', idxs.pop()))
            if pending:
                return None, 'format arguments left over'
    return out, None


def _has_ite(v):
    if isinstance(v, Ite):
        return True
    if isinstance(v, (Enum, Struct)):
        return any(_has_ite(x) for x in v.fields if isinstance(x, (Ite, Enum, Struct)))
    return False


def _local_display_text(prog, I, value):
    """text written by the Display impl of a local type for a known value (literal pieces and `write_str` calls only)"""
    dfn = find_impl(prog, 'std::fmt::Display', value.ty, 'fmt')
    if dfn is None:
        return None
    ev = []
    saved = I.watch
    I.watch = {"Arguments::<'a>::from_str": _Tagged('lit', ev), 'Formatter::write_str': _Tagged('ws', ev),
               "Formatter::<'a>::write_str": _Tagged('ws', ev), "Arguments::<'a>::new": _Tagged('new', ev)}
    try:
        st = State({})
        v = inputs.ref_to(I, st, 'lv', value)
        f = inputs.ref_to(I, st, 'lf', Tok('fmt', 'std::fmt::Formatter'))
        I.call_fn(dfn, [v, Ref(f.cell, (), True)], st)
    except Undecided:
        return None
    finally:
        I.watch = saved
    out = []
    for tag, (caller, args) in ev:
        if tag == 'new':
            return None
        txt = as_text(args[-1]) if args else None
        if txt is None:
            return None
        out.extend(txt)
    return out


def check_print_parse_layout(ctx, prog, prop):
    """The printer's output skeleton (for an arbitrary board) is handed to the parser as a structured text whose square
    letters are symbolic characters; the parser's own split / enumerate / filter / chars pipeline is interpreted on it."""
    R = prop + '.rt'
    ctx.rule(R, 'print -> parse: in the text Display writes, the letter of square i is read by the parser into bit i of the boards it '
                'builds and into no other bit (split at |, odd segments, odd characters, row * 8 + column - the parser\'s own code '
                'interpreted on the printer\'s own output skeleton)')
    from . import summaries
    dfn = find_impl(prog, 'std::fmt::Display', 'engine::GameState', 'fmt')
    ffn = find_impl(prog, 'std::str::FromStr', 'engine::GameState', 'from_str')
    if not (ctx.anchor('impl Display for GameState', dfn is not None) and ctx.anchor('impl FromStr for GameState', ffn is not None)):
        return
    I = inputs.make_interp(prog, fuel=40000000)
    I.strict_unknown = False
    try:
        skel, why = printer_skeleton(prog, I, dfn, inputs.play_state(prog, True, 0))
    except Undecided as e:
        skel, why = None, 'cannot follow the printer: %s' % e
    if skel is None:
        ctx.ob('printer output skeleton extracted', False)
        ctx.finding(R, dfn, 'skeleton', why)
        return
    letters = [c[1] for c in skel if isinstance(c, tuple) and c[0] == 'L']
    ok = sorted(letters) == list(range(64))
    ctx.ob('the printer writes exactly one letter per square (%d letters, %d characters)' % (len(letters), len(skel)), ok, sample=True)
    if not ok:
        missing = sorted(set(range(64)) - set(letters))
        ctx.finding(R, dfn, 'letters', 'the printed diagram has %d square letters; squares without a letter: %s' % (len(letters), missing[:8]))
        return
    chars = []
    for c in skel:
        if isinstance(c, str):
            chars.append(BV.const(ord(c), 32))
        elif c[0] == 'N':
            chars.append(BV.const(ord('7'), 32))        # any digits: the header is the subject of C15.hdr
        else:
            chars.append(Term('tok', ('L%d' % c[1],), 32, 32, 122))     # a letter, blank or x: never the separator |
    text = summaries.text_value(chars)
    st = State({})
    sink = []
    I.watch = {'PieceBoard::new': sink}
    I.memo.clear()
    try:
        I.call_fn(ffn, [inputs.ref_to(I, st, 's', text)], st)
    except Undecided as e:
        ctx.ob('parser interpreted on the printer skeleton', False)
        ctx.finding(R, ffn, 'undecided', 'cannot interpret the parser on the printed text: %s' % e)
        return
    finally:
        I.watch = {}
    ok = len(sink) >= 1
    ctx.ob('the parser accepts the printed diagram', ok)
    if not ok:
        ctx.finding(R, ffn, 'rejected', 'the parser does not build a board from the printer\'s own output')
        return
    bad = []
    for _caller, acc in sink:
        if len(acc) != 7 or not all(isinstance(x, BV) and x.w == 64 for x in acc):
            bad.append((0, 'PieceBoard::new receives %r' % (acc,)))
            continue
        for idx in range(64):
            g = [x.bits[idx] for x in acc]
            names = set()
            for b_ in g:
                for v in B.rawvars(b_):
                    if v[0] == '@':
                        key = repr(B.ATOMS[v[1]].key)
                        import re as _re
                        names.update(int(m) for m in _re.findall(r"'L(\d+)'", key))
            if names != {idx}:
                bad.append((idx, 'bit %d of the parsed boards depends on the printed letters of squares %s' % (idx, sorted(names))))
    ctx.ob('bit i of every parsed board depends on the printed letter of square i and on no other letter (64 squares)', not bad, sample=True)
    for idx, msg in bad[:4]:
        ctx.finding(R, ffn, 'square:%d' % idx, msg)



def printed_letters(prog):
    """{(type name, is_gold): letter} as the diagram printer writes them, and the characters of an empty ordinary / trap square:
    Display is run on a constant board holding the twelve (type, owner) combinations; the cell positions come from the
    printer skeleton.  Independent of helper functions."""
    from .rules_c01 import constant_board, with_board
    dfn = find_impl(prog, 'std::fmt::Display', 'engine::GameState', 'fmt')
    if dfn is None:
        return None, 'no Display for GameState'
    I = inputs.make_interp(prog, fuel=40000000)
    I.strict_unknown = False
    skel, why = printer_skeleton(prog, I, dfn, inputs.play_state(prog, True, 0))
    if skel is None:
        return None, why
    pos = {c[1]: k for k, c in enumerate(skel) if isinstance(c, tuple) and c[0] == 'L'}
    if sorted(pos) != list(range(64)):
        return None, 'the printed diagram has no board-dependent cell for squares %s' % [G.name(q) for q in range(64) if q not in pos][:8]
    combos = [(t, g) for t in G.STRENGTH for g in (True, False)]
    squares = [q for q in range(64) if q not in G.TRAPS][:len(combos)]
    board = constant_board(prog, {sq: combo for sq, combo in zip(squares, combos)})
    I2 = inputs.make_interp(prog, fuel=40000000)
    I2.strict_unknown = False
    conc, why = printer_skeleton(prog, I2, dfn, with_board(prog, inputs.play_state(prog, True, 0), board))
    if conc is None:
        return None, why
    if len(conc) != len(skel):
        return None, 'the printed text of a constant board has %d characters, the skeleton %d' % (len(conc), len(skel))
    out = {}
    for sq, combo in zip(squares, combos):
        c = conc[pos[sq]]
        out[combo] = c if isinstance(c, str) else None
    empty = next(q for q in range(64) if q not in G.TRAPS and q not in squares)
    out['empty'] = conc[pos[empty]] if isinstance(conc[pos[empty]], str) else None
    out['trap'] = conc[pos[G.TRAPS[0]]] if isinstance(conc[pos[G.TRAPS[0]]], str) else None
    return out, None



def printed_empty_board(prog):
    """{square: character} the printer writes for every square of the empty board"""
    from .rules_c01 import constant_board, with_board
    dfn = find_impl(prog, 'std::fmt::Display', 'engine::GameState', 'fmt')
    I = inputs.make_interp(prog, fuel=40000000)
    I.strict_unknown = False
    skel, why = printer_skeleton(prog, I, dfn, inputs.play_state(prog, True, 0))
    if skel is None:
        return None, why
    pos = {c[1]: k for k, c in enumerate(skel) if isinstance(c, tuple) and c[0] == 'L'}
    if sorted(pos) != list(range(64)):
        return None, 'the printed diagram has no board-dependent cell for squares %s' % [G.name(q) for q in range(64) if q not in pos][:8]
    I2 = inputs.make_interp(prog, fuel=40000000)
    I2.strict_unknown = False
    conc, why = printer_skeleton(prog, I2, dfn, with_board(prog, inputs.play_state(prog, True, 0), constant_board(prog, {})))
    if conc is None or len(conc) != len(skel):
        return None, why or 'the empty board prints with a different length'
    return {q: (conc[pos[q]] if isinstance(conc[pos[q]], str) else None) for q in range(64)}, None


def printed_cell_table(prog):
    """{(square, combo)}: character, for every square and each of the 13 things that can stand there (nothing, or one of 6 types
    of either colour).  Step 1 (symbolic board): the printer skeleton ties every board-dependent cell to the board bits of exactly
    one square, so the cell is a function of that square's contents alone.  Step 2: that function is tabulated by interpreting
    the printer on 13 constant boards in which square q holds combination (q + k) mod 13.  (The constant boards need not be
    legal positions: step 1 is what makes the per-square table exhaustive.)"""
    from .rules_c01 import constant_board, with_board
    dfn = find_impl(prog, 'std::fmt::Display', 'engine::GameState', 'fmt')
    if dfn is None:
        return None, 'no Display for GameState'
    I = inputs.make_interp(prog, fuel=40000000)
    I.strict_unknown = False
    skel, why = printer_skeleton(prog, I, dfn, inputs.play_state(prog, True, 0))
    if skel is None:
        return None, why
    pos = {}
    for k, c in enumerate(skel):
        if isinstance(c, tuple) and c[0] == 'L':
            if c[1] in pos:
                return None, 'square %s has two board-dependent cells' % G.name(c[1])
            pos[c[1]] = k
    if sorted(pos) != list(range(64)):
        return None, 'the printed diagram has no board-dependent cell for squares %s' % [G.name(q) for q in range(64) if q not in pos][:8]
    combos = [None] + [(t, g) for t in G.STRENGTH for g in (True, False)]
    table = {}
    for k in range(len(combos)):
        placed = {q: combos[(q + k) % len(combos)] for q in range(64)}
        board = constant_board(prog, {q: c for q, c in placed.items() if c is not None})
        I2 = inputs.make_interp(prog, fuel=40000000)
        I2.strict_unknown = False
        conc, why = printer_skeleton(prog, I2, dfn, with_board(prog, inputs.play_state(prog, True, 0), board))
        if conc is None:
            return None, why
        if len(conc) != len(skel):
            return None, 'the printed text of a constant board has %d characters, the skeleton %d' % (len(conc), len(skel))
        for q in range(64):
            c = conc[pos[q]]
            table[(q, placed[q])] = c if isinstance(c, str) else None
        for j, c in enumerate(conc):
            if j not in pos.values() and c != skel[j]:
                return None, 'a character outside the 64 cells (%r at offset %d) changes with the board' % (c, j)
    return table, None


def check_cell_table(ctx, prog, rule):
    """every square prints the letter of what stands on it: 64 x 13 cells"""
    ctx.rule(rule, 'printed diagram agrees with the board on every square: each of the 64 cells depends on the board bits of its '
                   'own square only (symbolic printer skeleton), and for each of the 13 possible contents the cell is the '
                   'expected character (gold upper case, silver lower case, x for an empty trap, blank otherwise): 832 cells '
                   'tabulated from 13 constant boards')
    try:
        table, why = printed_cell_table(prog)
    except Undecided as e:
        table, why = None, str(e)
    if table is None:
        ctx.ob('printed cell table extracted', False)
        ctx.finding(rule, 'Display for GameState', 'cell-table', 'cannot tabulate the printed cells: %s' % why)
        return
    bad = []
    for (q, combo), c in sorted(table.items(), key=lambda kv: (kv[0][0], str(kv[0][1]))):
        if combo is None:
            want = 'x' if q in G.TRAPS else ' '
        else:
            want = G.LETTER[combo[0]].upper() if combo[1] else G.LETTER[combo[0]]
        ok = c == want
        ctx.ob('cell %s holding %s prints %r' % (G.name(q), combo, c), ok, sample=(q == 18 and combo in (None, ('Camel', False))))
        if not ok:
            bad.append((q, combo, c, want))
    ctx.count('printed_cells_tabulated', len(table))
    if len(table) != 64 * 13:
        ctx.finding(rule, 'Display for GameState', 'cell-table', 'only %d of 832 cells tabulated' % len(table))
    kinds = {}
    for q, combo, c, want in bad:
        key = ('empty' if combo is None else ('gold' if combo[1] else 'silver')) + (':trap' if q in G.TRAPS else '')
        kinds.setdefault(key, []).append((q, combo, c, want))
    for key, lst in sorted(kinds.items()):
        q, combo, c, want = lst[0]
        ctx.finding(rule, 'Display for GameState', 'cell:%s' % key, '%d cells wrong, e.g. %s holding %s prints %r (expected %r)'
                    % (len(lst), G.name(q), combo, c, want))


def parse_printed_text(prog, gold=True):
    """(interpreter, value returned by <GameState as FromStr>::from_str, reason): the parser's MIR interpreted on the text the
    printer writes for an arbitrary board with `gold` to move (square letters symbolic, the move number any digits)."""
    from . import summaries
    dfn = find_impl(prog, 'std::fmt::Display', 'engine::GameState', 'fmt')
    ffn = find_impl(prog, 'std::str::FromStr', 'engine::GameState', 'from_str')
    if dfn is None or ffn is None:
        return None, None, 'no Display / FromStr for GameState'
    I = inputs.make_interp(prog, fuel=40000000)
    I.strict_unknown = False
    try:
        skel, why = printer_skeleton(prog, I, dfn, inputs.play_state(prog, gold, 0))
    except Undecided as e:
        return None, None, 'cannot follow the printer: %s' % e
    if skel is None:
        return None, None, why
    chars = []
    for c in skel:
        if isinstance(c, str):
            chars.append(BV.const(ord(c), 32))
        elif c[0] == 'N':
            chars.append(BV.const(ord('7'), 32))
        else:
            chars.append(Term('tok', ('L%d' % c[1],), 32, 32, 122))
    st = State({})
    I.memo.clear()
    try:
        r, _ = I.call_fn(ffn, [inputs.ref_to(I, st, 's', summaries.text_value(chars))], st)
    except Undecided as e:
        return None, None, 'cannot interpret the parser on the printed text: %s' % e
    return I, r, None


def ok_leaves(v, gate=C1):
    """[(gate, value)] of the Ok(..) leaves of a Result-valued Ite tree"""
    if isinstance(v, Ite):
        return ok_leaves(v.a, B.band(gate, v.c)) + ok_leaves(v.b, B.band(gate, B.bnot(v.c)))
    if isinstance(v, Enum) and v.var == 0 and v.fields:
        return [(gate, v.fields[0])]
    return []
