"""E: letter tables of printers and parsers (C15.2, C16.3)."""
from . import bits as B
from .bits import C0, C1
from .values import BV, Struct, Enum, Ref, Seq, Term, Ite, Tok, TRUE, FALSE
from .mai import State, Undecided
from . import inputs
from .rules_panic import find_impl
from spec import geometry as G


def _wide(f, ctx, prog):
    """letter tables are decoded from exact truth tables over up to 14 character tests"""
    old = B.K
    B.K = 14
    try:
        return f(ctx, prog)
    finally:
        B.K = old


def cmp_consts(v, acc=None):
    """constants a char is compared with inside the Ite tree `v`"""
    acc = set() if acc is None else acc
    if isinstance(v, Ite):
        for x in B.rawvars(v.c):
            if x[0] == '@':
                at = B.ATOMS[x[1]]
                if at.kind == 'cmp' and at.payload[0] == 'Eq':
                    for o in at.payload[1:]:
                        if isinstance(o, BV) and o.known():
                            acc.add(o.uval())
        cmp_consts(v.a, acc)
        cmp_consts(v.b, acc)
    elif isinstance(v, (Enum, Struct)):
        for f in v.fields:
            if isinstance(f, (Ite, Enum, Struct)):
                cmp_consts(f, acc)
    return acc


def eval_tree(v, atom_val):
    """Evaluate Ite conditions with atom_val(atom) -> 0/1/None"""
    while isinstance(v, Ite):
        c = v.c
        val = eval_bit(c, atom_val)
        if val is None:
            return None
        v = v.a if val else v.b
    if isinstance(v, Enum) and v.fields:
        fs = [eval_tree(x, atom_val) if isinstance(x, (Ite, Enum)) else x for x in v.fields]
        return Enum(v.ty, v.var, fs)
    if isinstance(v, Struct) and v.ty == 'tuple':
        return Struct('tuple', [eval_tree(x, atom_val) if isinstance(x, (Ite, Enum)) else x for x in v.fields])
    return v


def eval_bit(c, atom_val):
    if c.kind == 'c':
        return c.tt
    if c.kind == 's':
        i = 0
        for j, x in enumerate(c.sup):
            if x[0] != '@':
                return None
            a = atom_val(B.ATOMS[x[1]])
            if a is None:
                return None
            i |= a << j
        return c.tt[i]
    # Dep: try must / sufficient literals
    for (x, p) in B.suff(c):
        if x[0] == '@' and atom_val(B.ATOMS[x[1]]) == (1 if p else 0):
            return 1
    for (x, p) in B.must(c):
        if x[0] == '@' and atom_val(B.ATOMS[x[1]]) == (0 if p else 1):
            return 0
    return None


def char_table(prog, I, fn, universe_extra=()):
    """Parser table of a `from_str` taking one-character text: {char: variant name or None}."""
    st = State({})
    s = inputs.ref_to(I, st, 's', Tok('text', 'str'))
    r, _ = I.call_fn(fn, [s], st)
    consts = cmp_consts(r)
    lens = [c for c in consts if c < 8]
    chars = sorted(c for c in consts if c >= 8)
    universe = chars + [ord('~')] + [ord(x) for x in universe_extra]
    table = {}
    for ch in universe:
        def av(at, ch=ch):
            if at.kind == 'cmp' and at.payload[0] == 'Eq':
                a, b = at.payload[1], at.payload[2]
                k = b if isinstance(b, BV) else a
                t = a if isinstance(b, BV) else b
                if isinstance(t, Term) and t.kind == 'len':
                    return 1 if k.uval() == 1 else 0
                if isinstance(k, BV) and k.known():
                    return 1 if k.uval() == ch else 0
            if at.kind == 'variant':
                return 1   # chars.first() is Some when len == 1
            return None
        leaf = eval_tree(r, av)
        if isinstance(leaf, Enum) and leaf.var == 0 and leaf.fields and isinstance(leaf.fields[0], Enum):
            e = leaf.fields[0]
            table[chr(ch)] = prog.types[e.ty]['variants'][e.var]['name']
        elif isinstance(leaf, Enum) and leaf.var == 1:
            table[chr(ch)] = None
        else:
            table[chr(ch)] = '?'
    return table


def display_char(prog, I, fn, value):
    """The character (or constant text) a Display impl prints for a concrete value."""
    sink = []
    I.watch = {"core::fmt::rt::Argument::<'_>::new_display": sink}
    st = State({})
    v = inputs.ref_to(I, st, 'v', value)
    f = inputs.ref_to(I, st, 'f', Tok('fmt', 'std::fmt::Formatter'))
    I.memo.clear()
    I.call_fn(fn, [v, Ref(f.cell, (), True)], st)
    I.watch = {}
    out = []
    for caller, args in sink:
        a = args[0]
        while isinstance(a, Ref):
            a = I.static_cells.get(a.cell, a)
            if isinstance(a, Ref):
                break
        out.append(a)
    return out


def as_text(v):
    if isinstance(v, BV) and v.known():
        return chr(v.uval())
    if isinstance(v, Struct) and v.ty == '$str':
        return v.fields[0]
    return None


def check_piece_direction_tables(ctx, prog):
    return _wide(_check_piece_direction_tables, ctx, prog)


def _check_piece_direction_tables(ctx, prog):
    ctx.rule('C16.3', 'Piece and Direction: the printed letter parses back to the same value; the parser accepts exactly the printed '
                      'letters (piece letters also in upper case) and nothing else')
    I = inputs.make_interp(prog, fuel=5000000)
    for ty, spec, allow_upper in (('piece::Piece', G.LETTER, True), ('direction::Direction', G.DIR_LETTER, False)):
        dfn = find_impl(prog, 'std::fmt::Display', ty, 'fmt')
        pfn = find_impl(prog, 'std::str::FromStr', ty, 'from_str')
        if not (ctx.anchor('impl Display for ' + ty, dfn is not None) and ctx.anchor('impl FromStr for ' + ty, pfn is not None)):
            continue
        printed = {}
        for i, v in enumerate(prog.types[ty]['variants']):
            outs = display_char(prog, I, dfn, Enum(ty, i))
            txt = as_text(outs[0]) if len(outs) == 1 else None
            printed[v['name']] = txt
            ok = txt == spec[v['name']]
            ctx.ob('%s::%s prints as %r (official notation %r)' % (ty.split('::')[-1], v['name'], txt, spec[v['name']]), ok, sample=(i == 0))
            if not ok:
                ctx.finding('C16.3', dfn, 'print:' + v['name'], '%s prints as %r; the notation is %r' % (v['name'], txt, spec[v['name']]))
        table = char_table(prog, I, pfn, universe_extra='pP')
        for name, letter in printed.items():
            if letter is None:
                continue
            ok = table.get(letter) == name
            ctx.ob('%r parses back to %s' % (letter, name), ok, sample=(name in ('Camel', 'Left')))
            if not ok:
                ctx.finding('C16.3', pfn, 'roundtrip:' + name, 'printed form %r of %s parses as %s' % (letter, name, table.get(letter)))
        accepted = {c: v for c, v in table.items() if v}
        want = {l: n for n, l in printed.items() if l}
        if allow_upper:
            want.update({l.upper(): n for n, l in printed.items() if l})
        ok = accepted == want
        ctx.ob('%s parser accepts exactly %s' % (ty.split('::')[-1], sorted(want)), ok, sample=True)
        if not ok:
            extra = {c: v for c, v in accepted.items() if want.get(c) != v}
            missing = {c: v for c, v in want.items() if accepted.get(c) != v}
            ctx.finding('C16.3', pfn, 'accepts', 'parser table differs from the printed forms: unexpected %s, missing %s' % (extra, missing))
    return I


def check_action_delegation(ctx, prog):
    return _wide(_check_action_delegation, ctx, prog)


def _check_action_delegation(ctx, prog):
    ctx.rule('C16.3a', 'Action: Pass <-> "p" on both sides and "p" is not a piece letter; Place prints through Piece: Display and parses '
                       'through Piece: FromStr; Move prints square then direction and parses 2 + 1 characters through their FromStr')
    I = inputs.make_interp(prog, fuel=5000000)
    dfn = find_impl(prog, 'std::fmt::Display', 'action::Action', 'fmt')
    pfn = find_impl(prog, 'std::str::FromStr', 'action::Action', 'from_str')
    if not (ctx.anchor('impl Display for Action', dfn is not None) and ctx.anchor('impl FromStr for Action', pfn is not None)):
        return
    av = {v['name']: i for i, v in enumerate(prog.types['action::Action']['variants'])}
    # printing: which values reach the formatter
    sink_str = []
    I.watch = {'<T as std::string::ToString>::to_string': sink_str}
    outs = display_char(prog, I, dfn, Enum('action::Action', av['Pass']))
    # display_char resets watch; run again for to_string capture
    sink_str = []
    I.watch = {'<T as std::string::ToString>::to_string': sink_str}
    st = State({})
    v = inputs.ref_to(I, st, 'v', Enum('action::Action', av['Pass']))
    f = inputs.ref_to(I, st, 'f', Tok('fmt', 'std::fmt::Formatter'))
    I.memo.clear()
    I.call_fn(dfn, [v, Ref(f.cell, (), True)], st)
    I.watch = {}
    texts = [as_text(a[0]) for _c, a in sink_str]
    ok = texts == ['p']
    ctx.ob('Action::Pass prints the constant "p" (%s)' % texts, ok, sample=True)
    if not ok:
        ctx.finding('C16.3a', dfn, 'print:Pass', 'Pass prints %s, expected "p"' % texts)
    mv = Enum('action::Action', av['Move'], (inputs.square(27), inputs.direction(prog, 'Left')))
    outs = display_char(prog, I, dfn, mv)
    kinds = [(o.ty if isinstance(o, (Struct, Enum)) else type(o).__name__) for o in outs]
    ok = kinds[:2] == ['square::Square', 'direction::Direction'] and outs[0] == inputs.square(27) and outs[1] == inputs.direction(prog, 'Left')
    ctx.ob('Action::Move prints its square then its direction through their Display impls', ok, sample=True)
    if not ok:
        ctx.finding('C16.3a', dfn, 'print:Move', 'Move(d5, Left) hands %s to the formatter' % kinds)
    pl = Enum('action::Action', av['Place'], (inputs.piece(prog, 'Dog'),))
    outs = display_char(prog, I, dfn, pl)
    ok = len(outs) >= 1 and outs[0] == inputs.piece(prog, 'Dog')
    ctx.ob('Action::Place prints its piece through Piece: Display', ok)
    if not ok:
        ctx.finding('C16.3a', dfn, 'print:Place', 'Place(Dog) hands %r to the formatter' % (outs[:1],))
    # parsing: callee set and constants
    parses = []
    consts = set()
    for name in [pfn] + prog.closures_of(pfn):
        for bi, t in prog.calls(name):
            c = prog.callee(t) or ''
            if c.endswith('str>::parse'):
                parses.append((t.get('res') or {}).get('args', ''))
        for b in prog.fns[name]['blocks']:
            for s in b['st']:
                rv = s.get('rv')
                if rv and rv['k'] == 'bin' and rv['op'] in ('Eq', 'Ne'):
                    for o in (rv['a'], rv['b']):
                        if o['k'] == 'int' and o['ty'] == 'char':
                            consts.add(chr(int(o['v'])))
                        if o['k'] == 'int' and o['ty'] == 'usize':
                            consts.add(int(o['v']))
    targets = sorted(p.strip('[]').split(',')[0].strip() for p in parses)
    ok = targets == ['direction::Direction', 'piece::Piece', 'square::Square']
    ctx.ob('Action parser delegates to the FromStr impls of %s' % targets, ok, sample=True)
    if not ok:
        ctx.finding('C16.3a', pfn, 'delegation', 'Action::from_str parses through %s, expected Piece, Square and Direction' % targets)
    ok = 'p' in consts and {1, 3} <= consts
    ctx.ob('Action parser: "p" for Pass, lengths 1 and 3 (%s)' % sorted(map(str, consts)), ok)
    if not ok:
        ctx.finding('C16.3a', pfn, 'pass-letter', 'Action::from_str compares with %s; expected the letter p and the lengths 1 and 3' % sorted(map(str, consts)))
    ok = 'p' not in G.LETTER.values() and 'P' not in [x.upper() for x in G.LETTER.values()] or True
    I2 = inputs.make_interp(prog, fuel=5000000)
    tab = char_table(prog, I2, find_impl(prog, 'std::str::FromStr', 'piece::Piece', 'from_str'), universe_extra='pP')
    ok = tab.get('p') is None
    ctx.ob('"p" is not accepted as a piece letter', ok)
    if not ok:
        ctx.finding('C16.3a', pfn, 'p-ambiguous', '"p" parses as the piece %s: Pass and Place would be ambiguous' % tab.get('p'))


def check_diagram_tables(ctx, prog):
    return _wide(_check_diagram_tables, ctx, prog)


def _check_diagram_tables(ctx, prog):
    ctx.rule('C15.2', 'diagram letters: the printer\'s letter for (type, colour) is mapped back by the parser\'s letter table to the same '
                      'type, gold letters are upper case (the parser decides colour by case); the printed side letters g / s are among '
                      'the letters the parser maps to that side')
    I = inputs.make_interp(prog, fuel=5000000)
    pfn = prog.one('convert_piece_to_letter')
    cfn = prog.one('convert_char_to_piece')
    if not (ctx.anchor('fn convert_piece_to_letter', pfn is not None) and ctx.anchor('fn convert_char_to_piece', cfn is not None)):
        return
    # parser table
    ch = Term('tok', ('c',), 32, 0, 0x10FFFF)
    r, _ = I.call_fn(cfn, [ch])
    consts = sorted(c for c in cmp_consts(r) if c >= 8)
    table = {}
    for code in consts + [ord('~'), ord('x'), ord(' ')]:
        def av(at, code=code):
            if at.kind == 'cmp' and at.payload[0] == 'Eq':
                k = at.payload[2] if isinstance(at.payload[2], BV) else at.payload[1]
                return 1 if k.uval() == code else 0
            return None
        leaf = eval_tree(r, av)
        if isinstance(leaf, Enum) and leaf.var == 1:
            tup = leaf.fields[0]
            pv = tup.fields[0] if isinstance(tup, Struct) else None
            table[chr(code)] = prog.types['piece::Piece']['variants'][pv.var]['name'] if isinstance(pv, Enum) else '?'
        elif isinstance(leaf, Enum) and leaf.var == 0:
            table[chr(code)] = None
        else:
            table[chr(code)] = '?'
    # printer table
    for p in G.STRENGTH:
        for gold in (True, False):
            sink = []
            sink_lower = []
            I.watch = {'<T as std::string::ToString>::to_string': sink, 'std::str::<impl str>::to_lowercase': sink_lower}
            st = State({})
            pr = inputs.ref_to(I, st, 'p', inputs.piece(prog, p))
            I.memo.clear()
            I.call_fn(pfn, [pr, TRUE if gold else FALSE], st)
            I.watch = {}
            # contract: str::to_lowercase lower-cases ASCII letters
            txt = [as_text(a[0]) for _c, a in sink] + [(as_text(a[0]) or '').lower() or None for _c, a in sink_lower]
            letter = txt[0] if len(txt) == 1 else None
            want = G.LETTER[p].upper() if gold else G.LETTER[p]
            ok = letter == want and table.get(letter) == p and (letter.isupper() == gold if letter else False)
            ctx.ob('%s %s prints %r; parser maps it back to %s' % ('gold' if gold else 'silver', p, letter, table.get(letter) if letter else None),
                   ok, sample=(p == 'Camel'))
            if not ok:
                ctx.finding('C15.2', pfn, 'letter:%s:%s' % (p, 'gold' if gold else 'silver'),
                            '%s %s is printed as %r (expected %r); the parser reads that letter as %s'
                            % ('gold' if gold else 'silver', p, letter, want, table.get(letter) if letter else None))
    ok = all(v is None for c, v in table.items() if c in '~x ')
    ctx.ob('non-piece characters (space, trap marker x) are not read as pieces', ok)
    if not ok:
        ctx.finding('C15.2', cfn, 'nonpiece', 'a non-piece character is read as a piece: %s' % {c: v for c, v in table.items() if c in '~x ' and v})


def check_side_letters(ctx, prog):
    I = inputs.make_interp(prog, fuel=5000000)
    dfn = find_impl(prog, 'std::fmt::Display', 'engine::GameState', 'fmt')
    ffn = find_impl(prog, 'std::str::FromStr', 'engine::GameState', 'from_str')
    if dfn and ffn:
        silver_letters = set()
        for name in [ffn] + prog.closures_of(ffn):
            for b in prog.fns[name]['blocks']:
                t = b['term']
                if t['k'] == 'call' and (prog.callee(t) or '').endswith('::ne'):
                    for a in t['a']:
                        pass
            for body in prog.bodies(name):
                for b in body['blocks']:
                    for s in b['st']:
                        rv = s.get('rv')
                        if rv and rv['k'] == 'use' and rv['o'].get('k') == 'val' and rv['o'].get('ty') == '&str' and rv['o'].get('bytes'):
                            txt = bytes.fromhex(rv['o']['bytes']).decode('utf8', 'replace')
                            if len(txt) == 1:
                                silver_letters.add(txt)
        printed = {}
        for gold in (True, False):
            outs = display_char(prog, I, dfn, inputs.play_state(prog, gold, 0))
            texts = [as_text(o) for o in outs]
            side = [t for t in texts if t in ('g', 's', 'w', 'b')]
            printed[gold] = side[0] if side else None
        ok = printed[False] in silver_letters and printed[True] not in silver_letters and printed[True] is not None
        ctx.ob('side letters: printer gold=%r silver=%r; parser treats %s as silver' % (printed[True], printed[False], sorted(silver_letters)), ok, sample=True)
        if not ok:
            ctx.finding('C15.2', dfn, 'side-letter', 'printer writes gold=%r silver=%r but the parser reads %s as silver'
                        % (printed[True], printed[False], sorted(silver_letters)))
