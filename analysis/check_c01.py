import os
from . import rules_c01, rules_geom, core, inputs
from spec import geometry as G

QUICK_SQUARES = [G.sq('a', 8), G.sq('h', 8), G.sq('a', 1), G.sq('h', 1), G.sq('d', 8), G.sq('a', 4), G.sq('h', 5),
                 G.sq('e', 1), G.sq('c', 3), G.sq('f', 3), G.sq('c', 6), G.sq('f', 6), G.sq('c', 4), G.sq('f', 4),
                 G.sq('b', 6), G.sq('g', 6), G.sq('d', 4), G.sq('e', 4), G.sq('d', 5), G.sq('e', 5)]


def modes(tier):
    sqs = QUICK_SQUARES if tier == 'quick' else list(range(64))
    out = []
    for gold in (True, False):
        for step in range(4):
            out.append((gold, step, 'None', None, None))
    pull_pieces = ['Cat', 'Dog', 'Horse', 'Camel', 'Elephant']
    push_pieces = ['Rabbit', 'Cat', 'Dog', 'Horse', 'Camel']
    for gold in (True, False):
        for step in (1, 2, 3):
            for s in sqs:
                # quick: vary the piece with the square, thorough: all pieces
                pp = pull_pieces if tier != 'quick' else [pull_pieces[s % 5]]
                for p in pp:
                    out.append((gold, step, 'PossiblePull', s, p))
                if step < 3 or True:
                    pp = push_pieces if tier != 'quick' else [push_pieces[s % 5]]
                    for p in pp:
                        out.append((gold, step, 'MustCompletePush', s, p))
    return out


CONTROL_PREFIXES = ['C01.2.shift/engine::shift_pieces_in_direction/Right:', 'C01.2.shift/engine::shift_pieces_in_opp_direction/Up:',
                    'C01.2.shift/engine::shift_in_direction/Left:', 'C01.2.influence/engine::influenced_squares/',
                    'C01.2.support/engine::supported_pieces/', 'C01.2.shift/engine::can_move_in_direction/']


def controls(cprog, cfacts):
    """the geometry rules must fire on the deliberately broken helpers of the controls crate"""
    from . import core
    c = core.Ctx('C01', 'control', 'other')
    I = inputs.make_interp(cprog)
    rules_geom.check_helper_footprints(c, cprog, I, rule='C01.2')
    keys = [f['key'] for f in c.findings]
    return [p for p in CONTROL_PREFIXES if not any(k.startswith(p) for k in keys)]

def run(ctx, prog, facts, tier):
    I = inputs.make_interp(prog, fuel=5000000)
    rules_geom.check_constants(ctx, prog, which=['LEFT_COLUMN_MASK', 'RIGHT_COLUMN_MASK', 'TOP_ROW_MASK',
                                                 'BOTTOM_ROW_MASK'], rule='C01.1')
    n = rules_geom.check_helper_footprints(ctx, prog, I, rule='C01.2')
    ctx.setcount('bitboard_helper_functions_checked', n)
    rules_c01.check_support_argument(ctx, prog)
    rules_c01.check_strength_tables(ctx, prog, I)
    rules_c01.check_strictness(ctx, prog, I)
    rules_c01.check_pull_types(ctx, prog, I)
    from . import rules_local
    rules_local.check_threat_tables(ctx, prog, I, tier == 'quick')
    rules_local.check_freeze_tables(ctx, prog, I, tier == 'quick')
    rules_local.check_push_tables(ctx, prog, I)
    rules_local.check_complete_tables(ctx, prog, I)
    ctx.rule('C01.5', 'per mode (side x step x push/pull status) the rule-only action list consists of: one own-step '
                      'generator per direction (mover literal, destination empty, freezing footprint, rabbits not '
                      'backward), push starts only before the last step (enemy literal, destination empty), pulls '
                      'only into the square just vacated and never duplicating a push start, only completing steps '
                      'while a push is pending, Pass iff step >= 1 and no push pending')
    ms = modes(tier)
    detail = None if tier != 'quick' else None
    for (gold, step, kind, s, p) in ms:
        # full 64-square detail for the status-free modes; status modes re-check generators on a sample
        dsq = None if kind == 'None' else QUICK_SQUARES[:8]
        rules_c01.check_sinks_mode(ctx, prog, I, gold, step, kind, s, p, detail_squares=dsq)
    ctx.floor('C01.5 modes', ctx.analysed.get('modes', 0), len(ms))
    bad = {k: v for k, v in I.asserts_bad.items()}
    ctx.analysed['undischarged_asserts_seen'] = sorted('%s:%s' % (k[0], k[2]) for k in bad)
    ctx.exhaustive = (tier != 'quick')
    ctx.assumptions += [
        'Boolean structure of the freezing / threat / push formulas is decided exactly only for local configurations with at most '
        'two neighbouring pieces of enumerated type and colour (LT tables); NOT decided beyond that: exactness of the offered set as a whole; continuation of every offered step to a complete turn; '
        'anything about sequences of more than one step',
        'a may-dependence is treated as a real dependence (no cancellation x ^ x, x & !x inside the formulas)',
        'board invariants p1 <= all, types pairwise disjoint (C10) are assumed for the colour-literal projection',
    ]
    return ('Abstract interpretation of valid_actions_(false) over MIR in every mode: per-bit dependency footprints '
            'and must-literals of each generated item compared with the per-square rules in spec/geometry.py; '
            'strength relation and strictness as decision tables over piece-type pairs.',
            ['factgen MIR export', 'std summaries in analysis/summaries.py'])
