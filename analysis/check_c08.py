from . import rules_hash, rules_c02, rules_rep, rules_c09, inputs
from .check_c01 import QUICK_SQUARES
from spec import geometry as G


def moves(tier):
    sqs = [G.sq('d', 4), G.sq('c', 4), G.sq('f', 5), G.sq('a', 8), G.sq('h', 1), G.sq('b', 3), G.sq('g', 6)] if tier == 'quick' \
        else list(range(64))
    return rules_c02.moves(True, sqs)


def controls(cprog, cfacts):
    """H1: a hash term combined with `|` must be reported"""
    from . import core
    from .values import BV, HF, TRUE
    from .bits import C1
    c = core.Ctx('C08', 'control', 'other')
    I = inputs.make_interp(cprog)
    fn = cprog.one('hash_with_or')
    I.call_fn(fn, [HF([(('OPAQUE', 'h'), C1)]), TRUE])
    rules_hash.check_h1(c, I, 'control')
    return [] if any(f['key'].startswith('C08.1/') for f in c.findings) else ['C08.1 (hash combined with |)']

def run(ctx, prog, facts, tier):
    I = inputs.make_interp(prog, fuel=20000000)
    rules_hash.check_from_piece_board(ctx, prog, I)
    rules_hash.check_move_hash(ctx, prog, I, moves(tier))
    rules_hash.check_pass_hash(ctx, prog, I)
    rules_hash.check_transposition(ctx, prog, I)
    rules_hash.check_eq_reads_hash_only(ctx, prog, I)
    rules_hash.check_parser_start_state(ctx, prog)
    # the start-of-turn hashes recorded for repetition detection: what is appended to the history is the new state hash
    ctx.rule('C05.3', 'every turn-ending successor stores one and the same value as state hash, turn-start hash and new history '
                      'head; the history tail is the old history, or empty only under the captured condition')
    rules_rep.check_history(ctx, prog, I)
    # hashing during setup: each placement adds its own term; the last one switches to the play-phase form (C09.3 hash clauses)
    rules_c09.check_place_transitions(ctx, prog, I)
    rules_hash.check_h1(ctx, I, 'from_piece_board / move / pass / transposition')
    ctx.floor('C08 move-hash modes', ctx.analysed.get('hash_move_modes', 0), 100)
    ctx.exhaustive = tier != 'quick'
    ctx.assumptions += [
        'NOT decided: equality of concrete 64-bit values on every path; it follows from the term inventory only if the gates are '
        'the exact bits, which the dependency-level domain does not prove (operator polarity inside a gate is out of reach)',
        'placement hashing (place_piece) is decided by the C09.3 clauses, included here']
    return ('XOR-linear abstract domain (HashForm) over symbolic table terms: term inventory of from_piece_board for all sides and '
            'steps, of the incremental update for every sampled (square, direction) x side x step against the row-wise '
            'difference of old and new board, of pass and of the push/pull status terms; equality reads only the hash.',
            ['factgen MIR export', 'std summaries'])
