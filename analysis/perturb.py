"""Fact-perturbation controls: the rules of a check are run on an in-memory copy of /repo's facts in which one
constant of one function has been changed; the rule must fire. This exercises the real rule code on the real
program shape in every run (DESIGN 6 / 10.5). A perturbation whose target is not found is skipped (the code may
legitimately have changed) and reported in the evidence; a rule that stays silent on an applied perturbation
means the checker is broken."""
import copy

from .program import Program


def _subst_operand(o, pred, new):
    if isinstance(o, dict):
        if o.get('k') == 'int' and pred(o):
            o['v'] = str(new)
            return 1
    return 0


def perturb_int(facts, fn_suffix, old, new, ty=None, named=None, nth=None):
    """Copy of `facts` where integer operand `old` (optionally of type `ty` / named constant suffix `named`) in the
    function whose path ends with fn_suffix is replaced by `new`. Returns (facts2, number of substitutions)."""
    names = [k for k in facts['fns'] if k == fn_suffix or k.endswith('::' + fn_suffix)]
    if len(names) != 1:
        return None, 0
    f2 = dict(facts)
    f2['fns'] = dict(facts['fns'])
    body = copy.deepcopy(facts['fns'][names[0]])
    f2['fns'][names[0]] = body
    n = [0]

    def pred(o):
        if int(o['v']) != old:
            return False
        if ty and o.get('ty') != ty:
            return False
        if named and not (isinstance(o.get('name'), str) and o['name'].endswith(named)):
            return False
        n[0] += 1
        return nth is None or n[0] == nth

    cnt = 0

    def walk(x):
        nonlocal cnt
        if isinstance(x, dict):
            cnt += _subst_operand(x, pred, new)
            for v in x.values():
                walk(v)
        elif isinstance(x, list):
            for v in x:
                walk(v)
    walk(body['blocks'])
    for p in body.get('promoted', []):
        walk(p['blocks'])
    return f2, cnt


def perturb_const(facts, const_suffix, new):
    """Copy of `facts` where the named constant has value `new` everywhere (const table and operands)."""
    f2 = dict(facts)
    f2['consts'] = dict(facts['consts'])
    hit = 0
    for k in list(f2['consts']):
        if k == const_suffix or k.endswith('::' + const_suffix):
            c = dict(f2['consts'][k])
            c['int'] = str(new)
            f2['consts'][k] = c
            hit += 1
    if not hit:
        return None, 0
    f2['fns'] = {}
    for name, body in facts['fns'].items():
        touched = [False]

        def walk(x):
            if isinstance(x, dict):
                if x.get('k') == 'int' and isinstance(x.get('name'), str) and (x['name'] == const_suffix or x['name'].endswith('::' + const_suffix)):
                    x['v'] = str(new)
                    touched[0] = True
                for v in x.values():
                    walk(v)
            elif isinstance(x, list):
                for v in x:
                    walk(v)
        import json
        s = json.dumps(body)
        if const_suffix in s:
            b2 = copy.deepcopy(body)
            walk(b2)
            f2['fns'][name] = b2
            hit += 1 if touched[0] else 0
        else:
            f2['fns'][name] = body
    return f2, hit


def run_controls(specs, facts):
    """specs: list of (label, perturbation thunk(facts) -> (facts2, n), rule thunk(ctx, prog2) , expected key prefix).
    Returns (problems, notes)."""
    from . import core
    problems, notes = [], []
    for label, mk, rule, expect in specs:
        f2, n = mk(facts)
        if not f2 or not n:
            notes.append('control %s skipped: perturbation target not found' % label)
            continue
        c = core.Ctx('control', 'control', 'other')
        try:
            rule(c, Program(f2))
        except Exception as e:  # an aborted analysis of the perturbed program also counts as "noticed"
            c.finding('UNDECIDED', 'control', label, str(e)[:200])
        keys = [f['key'] for f in c.findings]
        if any(k.startswith(expect) or k.startswith('UNDECIDED') for k in keys):
            notes.append('control %s fired (%d substitutions)' % (label, n))
        elif keys:
            # on a tree that already violates the rule family the perturbed run reports those findings instead
            notes.append('control %s: perturbed program reported other findings (%s...)' % (label, keys[0][:60]))
        else:
            problems.append('%s (expected a finding starting with %s, got none)' % (label, expect))
    return problems, notes
