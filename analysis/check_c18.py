from . import rules_c18, witness, core

CONTROL_KEYS = ['AUTO-TRAIT/g_types::RcList/Send', 'AUTO-TRAIT/g_types::RcList/Sync',
                'INTERIOR-MUT/g_types::Cached/UnsafeCell:std::cell::Cell',
                'INTERIOR-MUT/g_types::BoxedCache/UnsafeCell:std::cell::Cell',
                'GLOBAL-STATE/g_types::COUNTER/static', 'GLOBAL-STATE/g_types::SCRATCH/static',
                'UNSAFE/g_types::raw/block', 'MUT-ACCESS/g_types::State::poke/arg1',
                'EFFECT/g_types::now/std::time::', 'EFFECT/g_types::bump/std::sync::atomic::', 'REFCOUNT-OBSERVE/g_types::shared_elsewhere/strong_count']


def controls(cprog, cfacts):
    c = core.Ctx('C18', 'control', 'proof')
    rules_c18.PUBLIC_TYPES_SAVE = rules_c18.PUBLIC_TYPES
    try:
        rules_c18.PUBLIC_TYPES = ['g_types::State']
        rules_c18.check(c, cprog, cfacts, is_control=True)
    finally:
        rules_c18.PUBLIC_TYPES = rules_c18.PUBLIC_TYPES_SAVE
    keys = {f['key'] for f in c.findings}
    return [k for k in CONTROL_KEYS if k not in keys]


def run(ctx, prog, facts, tier):
    rules_c18.check(ctx, prog, facts)
    ctx.rule('C18.W', 'compile-pass witness: ok::<T: Send+Sync+\'static>() for 13 types and scoped threads sharing '
                      'one &GameState; its Rc twin must fail with E0277')
    toolchains = [None] if tier == 'quick' else [None, 'nightly']
    for tc in toolchains:
        ok, detail = witness.cargo_check('send_sync_pass', tc)
        ctx.ob('witness send_sync_pass compiles (%s)' % (tc or 'stable'), ok, sample=True)
        if not ok:
            ctx.finding('WITNESS', 'witness/send_sync_pass', tc or 'stable',
                        'client program requiring Send + Sync + scoped sharing no longer compiles', detail=detail)
    ok, detail = witness.cargo_check('send_sync_fail_twin', 'nightly', want_error='E0277')
    if not ok:
        raise core.CheckerBroken('failing twin of the Send/Sync witness did not fail with E0277: %s' % detail)
    ctx.ob('failing twin (Rc list) is rejected with E0277', True, sample=True)
    ctx.assumptions += [
        'rustc auto-trait solving and borrow checking are sound; std::sync::Arc is a correct Sync abstraction',
        'opaque dependency crates (regex, anyhow) used only inside the text parsers hold no state shared with '
        'game states',
        'given Send+Sync, no interior mutability, no globals and no &mut access, every expander is a pure '
        'function of immutable data, so all interleavings give the sequential results (argument, not executed)',
    ]
    ctx.exhaustive = True
    return ('Type/effect rules G1-G4 over the trait solver results, the deep ownership walk of every public state '
            'type, HIR unsafe/static/extern facts, receiver kinds of all reachable functions and the resolved '
            'monomorphic call graph (local bodies + std generics); plus a compile-pass witness with a '
            'compile-fail twin.',
            ['rustc trait solver + borrow checker', 'std::sync::Arc', 'factgen MIR/HIR export'])
