"""Abstract values of the MIR interpreter (DESIGN 3.C)."""
from . import bits as B
from .bits import C0, C1, Bit


class V(object):
    __slots__ = ()


class BV(V):
    """Bit vector: tuple of abstract Bits, LSB first."""
    __slots__ = ('bits', 'signed', '_h')

    def __init__(self, bits_, signed=False):
        self.bits = tuple(bits_)
        self.signed = signed
        self._h = None

    @staticmethod
    def const(v, w, signed=False):
        v &= (1 << w) - 1
        return BV([C1 if (v >> i) & 1 else C0 for i in range(w)], signed)

    @staticmethod
    def var(name, w=64):
        return BV([B.lit((name, i)) for i in range(w)])

    @property
    def w(self):
        return len(self.bits)

    def known(self):
        for b in self.bits:
            if b.kind != 'c':
                return False
        return True

    def val(self):
        v = 0
        for i, b in enumerate(self.bits):
            if b.tt:
                v |= 1 << i
        if self.signed and v >> (len(self.bits) - 1):
            v -= 1 << len(self.bits)
        return v

    def uval(self):
        v = 0
        for i, b in enumerate(self.bits):
            if b.tt:
                v |= 1 << i
        return v

    def __eq__(self, o):
        return isinstance(o, BV) and self.bits == o.bits

    def __ne__(self, o):
        return not self.__eq__(o)

    def __hash__(self):
        if self._h is None:
            self._h = hash(tuple(id(b) for b in self.bits))
        return self._h

    def __repr__(self):
        if self.known():
            return 'BV%d(%#x)' % (self.w, self.uval())
        nz = [i for i, b in enumerate(self.bits) if b is not C0]
        return 'BV%d(nonzero bits %s)' % (self.w, nz if len(nz) <= 8 else '%d' % len(nz))

    def maybe_set(self):
        return [i for i, b in enumerate(self.bits) if b is not C0]


TRUE = BV([C1])
FALSE = BV([C0])


def boolv(bit):
    return BV([bit])


class Term(V):
    """Symbolic integer with a known range."""
    __slots__ = ('kind', 'args', 'w', 'lo', 'hi', 'signed', '_h')

    def __init__(self, kind, args, w, lo=None, hi=None, signed=False):
        self.kind, self.args, self.w, self.signed = kind, tuple(args), w, signed
        self.lo = 0 if lo is None else lo
        self.hi = ((1 << w) - 1) if hi is None else hi
        self._h = None

    def key(self):
        return (self.kind, self.args, self.w, self.lo, self.hi)

    def __eq__(self, o):
        return isinstance(o, Term) and self.key() == o.key()

    def __ne__(self, o):
        return not self.__eq__(o)

    def __hash__(self):
        if self._h is None:
            self._h = hash(self.key())
        return self._h

    def __repr__(self):
        return 'Term(%s%s in [%d,%d])' % (self.kind, list(self.args), self.lo, self.hi)


class HF(V):
    """GF(2)-linear hash form: XOR of table terms, each with a gate Bit.
    terms: frozenset of (sym, gate). sym examples: ('INITIAL',), ('P',), ('STEP', k), ('SQ', row, col),
    ('SQB', row, BV) bulk: XOR over set bits of BV of SQ[row][i]; ('PUSH', r, c); ('PULL', r, c);
    ('OPAQUE', name); ('CONST', value)."""
    __slots__ = ('terms', '_h')

    def __init__(self, terms):
        d = {}
        for sym, g in terms:
            if g is C0:
                continue
            if sym in d:
                g2 = B.bxor(d[sym], g)
                if g2 is C0:
                    del d[sym]
                else:
                    d[sym] = g2
            else:
                d[sym] = g
        self.terms = frozenset(d.items())
        self._h = None

    w = 64

    def __eq__(self, o):
        return isinstance(o, HF) and self.terms == o.terms

    def __ne__(self, o):
        return not self.__eq__(o)

    def __hash__(self):
        if self._h is None:
            self._h = hash(frozenset((s, id(g)) for s, g in self.terms))
        return self._h

    def xor(self, o):
        return HF(list(self.terms) + list(o.terms))

    def gate(self, g):
        return HF([(s, B.band(g, x)) for s, x in self.terms])

    def syms(self):
        return {s: g for s, g in self.terms}

    def __repr__(self):
        def f(s, g):
            nm = '%s%s' % (s[0], list(s[1:]) if len(s) > 1 else '')
            return nm if g is C1 else '[%r]*%s' % (g, nm)
        return 'HF{' + ' ^ '.join(sorted(f(s, g) for s, g in self.terms)) + '}'


HF0 = HF([])


class Struct(V):
    __slots__ = ('ty', 'fields', '_h')

    def __init__(self, ty, fields):
        self.ty, self.fields = ty, tuple(fields)
        self._h = None

    def __eq__(self, o):
        return isinstance(o, Struct) and self.ty == o.ty and self.fields == o.fields

    def __ne__(self, o):
        return not self.__eq__(o)

    def __hash__(self):
        if self._h is None:
            self._h = hash((self.ty, self.fields))
        return self._h

    def __repr__(self):
        return '%s{%s}' % (self.ty, ', '.join(repr(f) for f in self.fields))


UNIT = Struct('()', ())


class Enum(V):
    __slots__ = ('ty', 'var', 'fields', '_h')

    def __init__(self, ty, var, fields=()):
        self.ty, self.var, self.fields = ty, var, tuple(fields)
        self._h = None

    def __eq__(self, o):
        return isinstance(o, Enum) and self.var == o.var and self.fields == o.fields and _same_adt(self.ty, o.ty)

    def __ne__(self, o):
        return not self.__eq__(o)

    def __hash__(self):
        if self._h is None:
            self._h = hash((self.var, self.fields))
        return self._h

    def __repr__(self):
        return '%s#%d(%s)' % (self.ty.split('<')[0].split('::')[-1], self.var, ', '.join(repr(f) for f in self.fields))


def _same_adt(a, b):
    return a.split('<')[0] == b.split('<')[0]


class Ite(V):
    __slots__ = ('c', 'a', 'b', '_h')

    def __init__(self, c, a, b):
        self.c, self.a, self.b = c, a, b
        self._h = None

    def __eq__(self, o):
        if self is o:
            return True
        if not isinstance(o, Ite):
            return False
        # trees share subterms: walk the pair DAG once (a recursive comparison visits every path)
        seen = set()
        stack = [(self, o)]
        while stack:
            x, y = stack.pop()
            if x is y:
                continue
            k = (id(x), id(y))
            if k in seen:
                continue
            seen.add(k)
            if type(x) is Ite and type(y) is Ite:
                if x.c is not y.c or hash(x) != hash(y):
                    return False
                stack.append((x.a, y.a))
                stack.append((x.b, y.b))
            elif type(x) is Ite or type(y) is Ite:
                return False
            elif x != y:
                return False
        return True

    def __ne__(self, o):
        return not self.__eq__(o)

    def __hash__(self):
        if self._h is None:
            self._h = hash((id(self.c), self.a, self.b))
        return self._h

    def __repr__(self):
        return 'Ite(%r ? %r : %r)' % (self.c, self.a, self.b)


class Ref(V):
    __slots__ = ('cell', 'path', 'mut')

    def __init__(self, cell, path=(), mut=False):
        self.cell, self.path, self.mut = cell, tuple(path), mut

    def __eq__(self, o):
        return isinstance(o, Ref) and self.cell == o.cell and self.path == o.path

    def __ne__(self, o):
        return not self.__eq__(o)

    def __hash__(self):
        return hash((self.cell, self.path))

    def __repr__(self):
        return 'Ref(%s%s)' % (self.cell, list(self.path) if self.path else '')


class Seq(V):
    """Abstract Vec / array contents. items: ('elem', v) | ('bulk', BV, f) | ('cond', gate, item)
    `f` of a bulk item is a value containing the placeholder SIGMA for the square index."""
    __slots__ = ('items', '_h')

    def __init__(self, items=()):
        self.items = tuple(items)
        self._h = None

    def __eq__(self, o):
        return isinstance(o, Seq) and self.items == o.items

    def __ne__(self, o):
        return not self.__eq__(o)

    def __hash__(self):
        if self._h is None:
            self._h = hash(self.items)
        return self._h

    def concrete(self):
        return all(it[0] == 'elem' for it in self.items)

    def __repr__(self):
        return 'Seq[%s]' % ', '.join(_item_repr(i) for i in self.items)


def _item_repr(it):
    if it[0] == 'elem':
        return repr(it[1])
    if it[0] == 'bulk':
        return 'Bulk(%r -> %r)' % (it[1], it[2])
    if it[0] == 'cond':
        return 'Cond(%r, %s)' % (it[1], _item_repr(it[2]))
    return repr(it)


class Tok(V):
    """Opaque named input."""
    __slots__ = ('name', 'ty')

    def __init__(self, name, ty=None):
        self.name, self.ty = name, ty

    def __eq__(self, o):
        return isinstance(o, Tok) and self.name == o.name

    def __ne__(self, o):
        return not self.__eq__(o)

    def __hash__(self):
        return hash(('tok', self.name))

    def __repr__(self):
        return 'Tok(%s)' % self.name


class Top(V):
    __slots__ = ('why',)

    def __init__(self, why=''):
        self.why = why

    def __eq__(self, o):
        return isinstance(o, Top)

    def __ne__(self, o):
        return not self.__eq__(o)

    def __hash__(self):
        return 7

    def __repr__(self):
        return 'Top(%s)' % self.why


class FnItem(V):
    __slots__ = ('path',)

    def __init__(self, path):
        self.path = path

    def __eq__(self, o):
        return isinstance(o, FnItem) and self.path == o.path

    def __ne__(self, o):
        return not self.__eq__(o)

    def __hash__(self):
        return hash(self.path)

    def __repr__(self):
        return 'fn(%s)' % self.path


class Bottom(V):
    """Unreachable / diverged."""
    __slots__ = ()

    def __repr__(self):
        return 'Bottom'


BOTTOM = Bottom()


def sigma(n=0):
    """Placeholder for the square index of a bulk item."""
    return Term('sigma', (n,), 8, 0, 63)


SIGMA = sigma(0)
