"""Pretty-printer for exported MIR (debug aid and report detail)."""
import json, sys
def pl(p, names=None):
    s = '_%d' % p['l']
    if names and str(p['l']) in names: s += '{%s}' % names[str(p['l'])]
    for e in p['p']:
        if e == 'deref': s = '(*%s)' % s
        elif 'f' in e: s += '.%d' % e['f']
        elif 'dc' in e: s += ' as v%d' % e['dc']
        elif 'idx' in e: s += '[_%d]' % e['idx']
        elif 'cidx' in e: s += '[%d]' % e['cidx']
        else: s += '?%s' % e
    return s
def op(o, names=None):
    k = o['k']
    if k in ('copy', 'move'): return ('' if k == 'copy' else 'move ') + pl(o['pl'], names)
    if k == 'int': return '%s_%s%s' % (o['v'], o['ty'], ('{%s}' % o['name']) if o.get('name') else '')
    if k == 'fn': return 'fn(%s)' % o['path']
    if k == 'zst': return 'zst:%s' % o['ty']
    if k == 'val': return 'val:%s{%s}' % (o['ty'], o.get('name'))
    return str(o)[:80]
def rv(r, names=None):
    k = r['k']
    if k == 'use': return op(r['o'], names)
    if k == 'ref': return '&%s%s' % ('mut ' if r['mut'] else '', pl(r['pl'], names))
    if k == 'bin': return '%s(%s, %s)' % (r['op'], op(r['a'], names), op(r['b'], names))
    if k == 'un': return '%s(%s)' % (r['op'], op(r['a'], names))
    if k == 'cast': return '%s as %s [%s]' % (op(r['o'], names), r['ty'], r['ck'])
    if k == 'discr': return 'discr(%s)' % pl(r['pl'], names)
    if k == 'agg':
        kind = r.get('adt') and '%s#%d' % (r['adt'], r['variant']) or ('tuple' if r.get('tuple') else 'array' if r.get('array') else 'closure:%s' % r.get('closure'))
        return '%s(%s)' % (kind, ', '.join(op(o, names) for o in r['ops']))
    return str(r)[:100]
def dump(f, out=sys.stdout):
    names = f.get('names')
    for i, t in enumerate(f['locals']):
        out.write('  let _%d: %s%s\n' % (i, t, (' // ' + names[str(i)]) if names and str(i) in names else ''))
    for bi, b in enumerate(f['blocks']):
        out.write(' bb%d%s:\n' % (bi, ' (cleanup)' if b.get('cleanup') else ''))
        for s in b['st']:
            if 'dst' in s: out.write('    %s = %s\n' % (pl(s['dst'], names), rv(s['rv'], names)))
            else: out.write('    %s\n' % str(s)[:100])
        t = b['term']; k = t['k']
        if k == 'goto': out.write('    goto bb%d\n' % t['t'])
        elif k == 'switch': out.write('    switch %s %s else bb%d\n' % (op(t['d'], names), ['%s->bb%d' % (v, x) for v, x in t['ts']], t['else']))
        elif k == 'call': out.write('    %s = call %s(%s) -> bb%s   [%s]\n' % (pl(t['dst'], names), (t['res'] or {}).get('path') or op(t['f']), ', '.join(op(a, names) for a in t['a']), t['t'], t['at']))
        elif k == 'assert': out.write('    assert %s == %s [%s] -> bb%d\n' % (op(t['c'], names), t['expected'], t['msg'], t['t']))
        elif k == 'drop': out.write('    drop %s : %s -> bb%d\n' % (pl(t['pl'], names), t['ty'], t['t']))
        else: out.write('    %s\n' % k)
if __name__ == '__main__':
    F = json.load(open(sys.argv[1]))['fns']
    for n in sys.argv[2:]:
        for k in F:
            if n in k:
                print('fn', k); dump(F[k])
