"""C03 / C12 / C14: turn bookkeeping, push/pull status machine, recorded boards (DESIGN 4)."""
from . import bits as B
from .bits import C0, C1
from .values import BV, Struct, Enum, Ref, Seq, Term, Ite, HF, TRUE, FALSE
from .mai import State, Undecided
from . import inputs
from .common import enum_cases, fmt_lits, real_lits
from .rules_c01 import TYPE_VAR, stronger
from spec import geometry as G


def fld(prog, adt, v, name):
    return v.fields[inputs.field_index(prog, adt, name)]


def take(I, prog, gsv, action):
    fn = prog.one('GameState::take_action')
    st = State({})
    gs = inputs.ref_to(I, st, 'gs', gsv)
    act = inputs.ref_to(I, st, 'act', action)
    r, _ = I.call_fn(fn, [gs, act], st)
    return r


def move_action(prog, s, d):
    return Enum('action::Action', inputs.enum_variant(prog, 'action::Action', 'Move'),
                (inputs.square(s), inputs.direction(prog, d)))


def pass_action(prog):
    return Enum('action::Action', inputs.enum_variant(prog, 'action::Action', 'Pass'))


def play_of(prog, gs):
    ph = fld(prog, 'engine::GameState', gs, 'phase')
    if isinstance(ph, Enum) and ph.var == inputs.enum_variant(prog, 'engine::Phase', 'PlayPhase'):
        return ph.fields[0]
    return None


def recorded_boards(I, prog, pl, via_accessor=None):
    """The earlier boards of the turn held by the PlayPhase value `pl`: the field this analysis knows, or - when the
    representation differs (or on request) - what the public accessor PlayPhase::previous_piece_boards returns (its MIR
    interpreted on the value).  A Seq of boards, or None."""
    if via_accessor is None:
        via_accessor = not inputs.play_phase_by_layout(prog)
    if not via_accessor:
        return fld(prog, 'engine::PlayPhase', pl, 'previous_piece_boards_this_move')
    fn = prog.one('PlayPhase::previous_piece_boards')
    if fn is None:
        return None
    st = State({})
    r, st2 = I.call_fn(fn, [inputs.ref_to(I, st, 'pp', pl)], st)
    if r is None or st2 is None:
        return None
    v = I.deref_all(st2, r)
    if isinstance(v, Seq):
        return Seq([(it[0], I.deref_all(st2, it[1])) if it[0] == 'elem' else it for it in v.items])
    return v


def affine_of(v):
    """(base, offset) of a move-number value"""
    if isinstance(v, Term) and v.kind == 'affine':
        b, k = v.args[0], v.args[1]
        while isinstance(b, Term) and b.kind == 'affine':
            b, k = b.args[0], k + b.args[1]
        return b, k
    if isinstance(v, Term):
        return v, 0
    if isinstance(v, BV) and v.known():
        return None, v.uval()
    return None, None


def check_transitions(ctx, prog, I, moves_sample, status_modes):
    ctx.rule('C03', 'after a step before the fourth: same side, recorded boards one longer, move number unchanged, turn-start '
                    'hash unchanged; after the fourth step or a pass: side flipped, fresh per-turn record (no boards, status '
                    'None, captured flag false, turn-start hash = new hash), move number +1 exactly when the mover was Silver')
    fn = prog.one('GameState::take_action')
    if not ctx.anchor('fn GameState::take_action', fn is not None):
        return
    GS = 'engine::GameState'
    PP = 'engine::PlayPhase'
    none_v = inputs.enum_variant(prog, 'engine::PushPullState', 'None')
    for gold in (True, False):
        for step in range(4):
            for (kind, sq_, pc_) in status_modes:
                if kind != 'None' and step == 0:
                    continue
                acts = [('Move', s, d) for (s, d) in moves_sample]
                if step >= 1 and kind != 'MustCompletePush':
                    acts.append(('Pass',))
                for a in acts:
                    gsv = inputs.play_state(prog, gold, step, kind, sq_, pc_, trapped='sym')
                    mode = '%s step%d %s %s' % ('gold' if gold else 'silver', step, kind,
                                                ('%s%s' % (G.name(a[1]), a[2])) if a[0] == 'Move' else 'Pass')
                    try:
                        from .rules_panic import tagged
                        r = tagged(I, (gold, step, a[0]),
                                   lambda: take(I, prog, gsv, move_action(prog, a[1], a[2]) if a[0] == 'Move' else pass_action(prog)))
                    except Undecided as e:
                        ctx.finding('UNDECIDED', fn, 'transition', 'mode [%s]: %s' % (mode, e))
                        continue
                    ctx.count('transition_modes')
                    ends = a[0] == 'Pass' or step == 3
                    side = fld(prog, GS, r, 'p1_turn_to_move')
                    want_side = (not gold) if ends else gold
                    ok = isinstance(side, BV) and side.known() and bool(side.uval()) == want_side
                    key = '%s/s%d/%s' % ('G' if gold else 'S', step, a[0])

                    def v(inst, msg):
                        ctx.finding('C03', fn, key + ':' + inst, 'mode [%s]: %s' % (mode, msg))
                    ctx.ob('[%s] side to move afterwards is %s' % (mode, 'gold' if want_side else 'silver'), ok,
                           sample=(step == 3 and gold and a[0] == 'Move'))
                    if not ok:
                        v('side', 'side to move afterwards is %r, expected %s' % (side, 'gold' if want_side else 'silver'))
                    base, off = affine_of(fld(prog, GS, r, 'move_number'))
                    want_off = 1 if (ends and not gold) else 0
                    ok = off == want_off and isinstance(base, Term) and base.kind == 'tok' and base.args == ('n',)
                    ctx.ob('[%s] move number = n + %d' % (mode, want_off), ok, sample=(ends and not gold and a[0] == 'Pass'))
                    if not ok:
                        v('move-number', 'move number becomes n + %s (base %r), expected n + %d (it grows exactly when Silver\'s turn ends)'
                          % (off, base, want_off))
                    pl = play_of(prog, r)
                    if pl is None:
                        v('phase', 'successor is not in the play phase')
                        continue
                    prev = recorded_boards(I, prog, pl)
                    want_len = 0 if ends else step + 1
                    ok = isinstance(prev, Seq) and prev.concrete() and len(prev.items) == want_len
                    ctx.ob('[%s] step counter afterwards = %d' % (mode, want_len), ok)
                    if not ok:
                        v('step', 'recorded boards afterwards: %r, expected %d entries (the step counter)' % (prev, want_len))
                    newhash = fld(prog, GS, r, 'hash')
                    ih = fld(prog, PP, pl, 'initial_hash_of_move')
                    if ends:
                        pps = fld(prog, PP, pl, 'push_pull_state')
                        ok = isinstance(pps, Enum) and pps.var == none_v
                        ctx.ob('[%s] nothing pending at the start of the next turn' % mode, ok)
                        if not ok:
                            v('status', 'push/pull status carried into the next turn: %r' % (pps,))
                        tr = fld(prog, PP, pl, 'piece_trapped_this_turn')
                        ok = isinstance(tr, BV) and tr.known() and tr.uval() == 0
                        ctx.ob('[%s] captured-this-turn flag reset' % mode, ok)
                        if not ok:
                            v('trapped-flag', 'captured-this-turn flag not reset at turn end: %r' % (tr,))
                        ok = ih == newhash
                        ctx.ob('[%s] turn-start hash of the new turn = new state hash' % mode, ok)
                        if not ok:
                            v('initial-hash', 'turn-start hash of the new turn differs from the new state\'s hash')
                    else:
                        ok = ih == inputs.opaque_hash('h0')
                        ctx.ob('[%s] turn-start hash unchanged mid-turn' % mode, ok)
                        if not ok:
                            v('initial-hash', 'turn-start hash changed in the middle of a turn: %r' % (ih,))
                        tr = fld(prog, PP, pl, 'piece_trapped_this_turn')
                        # old flag (false in these modes) OR new capture
                        ok = isinstance(tr, BV)
                        if not ok:
                            v('trapped-flag', 'captured flag is %r' % (tr,))
    # sticky captured flag: once true it stays true mid-turn
    gsv = inputs.play_state(prog, True, 1, trapped=True)
    s, d = moves_sample[0]
    r = take(I, prog, gsv, move_action(prog, s, d))
    pl = play_of(prog, r)
    tr = fld(prog, PP, pl, 'piece_trapped_this_turn') if pl is not None else None
    ok = isinstance(tr, BV) and tr.bits[0] is C1
    ctx.ob('captured-this-turn flag is sticky within the turn', ok, sample=True)
    if not ok:
        ctx.finding('C03', fn, 'trapped-sticky', 'an earlier capture of this turn is forgotten by a later step (flag becomes %r)' % (tr,))


def check_step_is_len(ctx, prog, I):
    fn = prog.one('PlayPhase::step')
    if not ctx.anchor('fn PlayPhase::step', fn is not None):
        return
    for k in range(4):
        st = State({})
        pp = inputs.play_phase(prog, k, inputs.push_pull_state(prog, 'None'), False)
        ref = inputs.ref_to(I, st, 'pp', pp)
        r, _ = I.call_fn(fn, [ref], st)
        ok = isinstance(r, BV) and r.known() and r.uval() == k
        ctx.ob('PlayPhase::step() is the number of recorded boards (%d)' % k, ok)
        if not ok:
            ctx.finding('C03', fn, 'step-is-len', 'step() is not the length of the recorded-board list: %r for %d boards' % (r, k))


def check_overflow_sites(ctx, I, rule_prop, prog=None):
    """K1: move number arithmetic. The finding is keyed by operator and operand type, so that the known finding (overflow of
    a usize at usize::MAX) does not cover a narrower counter."""
    from .rules_panic import attributed, INVARIANTS
    for key, detail in sorted(I.asserts_bad.items()):
        fname, at, msg = key
        if msg != 'Overflow' or any(fname.endswith(suf) and k == msg for (suf, k) in INVARIANTS):
            continue
        if not fname.startswith('engine::'):
            continue
        for efn, inst in attributed(I, key, prog):
            ty = inst[len('Overflow('):].split(')')[0] if inst.startswith('Overflow(') else '?'
            scope = inst.split(')', 1)[1] if ')' in inst else ''
            ctx.ob('%s: move_number + 1 cannot overflow (%s)' % (efn, ty), False, sample=True)
            ctx.finding('PANIC-SITE', efn, inst,
                        'move_number + 1 overflows (%s) when the move number is at the maximum of its type and %s%s'
                        % (ty, 'Silver\'s turn ends' if not scope else 'an action is applied in these situations too: ' + scope[6:],
                           '' if efn == fname else ' [arithmetic located in %s]' % fname), at=at)


# ------------------------------------------------------------------------------------------------ C12
def eval_tree(v, asg):
    """Evaluate an Ite tree whose conditions are Small bits over variables in asg."""
    while isinstance(v, Ite):
        c = v.c
        if c.kind == 'c':
            val = c.tt
        elif c.kind == 's':
            if not all(x in asg for x in c.sup):
                return None
            i = 0
            for j, x in enumerate(c.sup):
                i |= asg[x] << j
            val = c.tt[i]
        else:
            return None
        v = v.a if val else v.b
    return v


def check_status_machine(ctx, prog, I, squares):
    # the type of the moved piece is a chain over five type bits: keep comparisons on it exact (K = 4 would make `== Rabbit` opaque)
    saveK = B.K
    B.K = 6
    try:
        return _check_status_machine(ctx, prog, I, squares)
    finally:
        B.K = saveK


def _check_status_machine(ctx, prog, I, squares):
    ctx.rule('C12', 'after a step of the piece on s (type T): enemy piece and not completing a pull -> MustCompletePush(s, T); '
                    'own non-rabbit piece and no push was pending -> PossiblePull(s, T); otherwise None. A step completes a '
                    'pull iff the previous status is PossiblePull(q, P), the enemy piece steps into q, and P > T strictly')
    fn = prog.one('GameState::take_action')
    PP = 'engine::PlayPhase'
    PPS = 'engine::PushPullState'
    vnames = [v['name'] for v in prog.types[PPS]['variants']]
    pnames = [v['name'] for v in prog.types['piece::Piece']['variants']]
    for gold in (True, False):
        for s in squares:
            for d in inputs.DIRS:
                dst = G.step(s, d)
                if dst is None:
                    continue
                prevs = [('None', None, None)]
                for P in ('Cat', 'Horse', 'Elephant'):
                    prevs.append(('PossiblePull', dst, P))          # the step enters the vacated square
                    other = next(q for q in range(64) if q not in (dst, s))
                    prevs.append(('PossiblePull', other, P))        # the step does not
                prevs.append(('MustCompletePush', dst, 'Dog'))
                for (kind, q, P) in prevs:
                    gsv = inputs.play_state(prog, gold, 1, kind, q, P, trapped='sym')
                    r = take(I, prog, gsv, move_action(prog, s, d))
                    pl = play_of(prog, r)
                    pps = fld(prog, PP, pl, 'push_pull_state')
                    mode = '%s %s%s after %s%s' % ('gold' if gold else 'silver', G.name(s), d, kind,
                                                   ('(%s,%s)' % (G.name(q), P)) if q is not None else '')
                    ctx.count('status_modes')
                    bad = None
                    for own in (True, False):
                        for T in G.STRENGTH:
                            # a consistent board around the step: a piece of type T stands on s, the destination is empty
                            asg = {('p1', s): 1 if (own == gold) else 0, ('all', s): 1, ('all', dst): 0, ('p1', dst): 0}
                            for t, var in TYPE_VAR.items():
                                asg[(var, s)] = 1 if t == T else 0
                                asg[(var, dst)] = 0
                            leaf = eval_tree(pps, asg)
                            if leaf is None:
                                bad = 'status depends on more than colour and type of the moved piece'
                                break
                            is_pull = (not own) and kind == 'PossiblePull' and q == dst and stronger(P, T)
                            if (not own) and not is_pull:
                                want = ('MustCompletePush', s, T)
                            elif own and kind != 'MustCompletePush' and T != 'Rabbit':
                                want = ('PossiblePull', s, T)
                            else:
                                want = ('None',)
                            got = (vnames[leaf.var],)
                            if leaf.fields:
                                sqv = leaf.fields[0].fields[0]
                                pv = eval_tree(leaf.fields[1], asg)
                                got = (vnames[leaf.var], sqv.uval() if isinstance(sqv, BV) and sqv.known() else repr(sqv),
                                       pnames[pv.var] if isinstance(pv, Enum) else repr(pv))
                            if got != want:
                                bad = '%s %s moved: status %s, expected %s' % ('own' if own else 'enemy', T, fmt_status(got), fmt_status(want))
                                break
                        if bad:
                            break
                    ctx.ob('[%s] status table over (owner, type) of the moved piece' % mode, bad is None,
                           sample=(s == squares[0] and d == 'Up' and kind == 'PossiblePull' and q == dst and P == 'Horse'))
                    if bad:
                        ctx.finding('C12', fn, 'status:%s:%s' % (kind, 'G' if gold else 'S'), 'mode [%s]: %s' % (mode, bad))


def fmt_status(t):
    if len(t) == 1:
        return t[0]
    return '%s(%s, %s)' % (t[0], G.name(t[1]) if isinstance(t[1], int) else t[1], t[2])


# ------------------------------------------------------------------------------------------------ C14
def check_recorded_boards(ctx, prog, I, mv):
    ctx.rule('C14', 'after k steps the recorded list is [B0 .. B(k-1)] in order, B(k) being appended by the next step; a turn end '
                    'clears it; piece_board_for_step(i) returns B(i) for i < k and the current board for i = k')
    fn = prog.one('GameState::take_action')
    PP = 'engine::PlayPhase'
    s, d = mv
    for gold in (True, False):
        for k in range(3):
            gsv = inputs.play_state(prog, gold, k, trapped='sym')
            r = take(I, prog, gsv, move_action(prog, s, d))
            pl = play_of(prog, r)
            prev = recorded_boards(I, prog, pl)
            want = [inputs.piece_board(prog, 'prev%d.' % i) for i in range(k)] + [inputs.piece_board(prog, '')]
            ok = isinstance(prev, Seq) and prev.concrete() and [it[1] for it in prev.items] == want
            ctx.ob('[%s step %d] recorded boards afterwards = old list ++ [current board]' % ('gold' if gold else 'silver', k), ok,
                   sample=(k == 2 and gold))
            if not ok:
                ctx.finding('C14', fn, 'record:s%d' % k,
                            'after a step at step %d the recorded boards are not [earlier boards in order, the board before this step]' % k)
            # the public accessor reports exactly that list
            try:
                acc = recorded_boards(I, prog, pl, via_accessor=True)
            except Undecided:
                acc = None
            ok = isinstance(acc, Seq) and acc.concrete() and [it[1] for it in acc.items] == want
            ctx.ob('[%s step %d] PlayPhase::previous_piece_boards() of the successor = old list ++ [current board]'
                   % ('gold' if gold else 'silver', k), ok, sample=(k == 1 and not gold))
            if not ok:
                ctx.finding('C14', prog.one('PlayPhase::previous_piece_boards') or 'PlayPhase::previous_piece_boards', 'accessor:s%d' % k,
                            'after a step at step %d PlayPhase::previous_piece_boards() does not report [earlier boards in order, '
                            'the board before this step]' % k)
    fn2 = prog.one('GameState::piece_board_for_step')
    if not ctx.anchor('fn piece_board_for_step', fn2 is not None):
        return
    for k in range(4):
        for i in range(k + 1):
            gsv = inputs.play_state(prog, True, k)
            st = State({})
            gs = inputs.ref_to(I, st, 'gs', gsv)
            I.asserts_bad.clear()
            I.panics.clear()
            try:
                r, st2 = I.call_fn(fn2, [gs, BV.const(i, 64)], st)
                got = I.deref(st2, r) if r is not None else None
            except Undecided as e:
                got = None
            want = inputs.board(prog, 'prev%d.' % i) if i < k else inputs.board(prog, '')
            ok = got == want and not I.asserts_bad and not I.panics
            ctx.ob('piece_board_for_step(%d) after %d steps returns board %d' % (i, k, i), ok, sample=(k == 3 and i == 1))
            if not ok:
                ctx.finding('C14', fn2, 'lookup:k%d:i%d' % (k, i),
                            'after %d steps, asking for step %d does not return the board after %d steps (got %s%s)'
                            % (k, i, i, 'a different board' if got is not None else 'no value',
                               '; panics/asserts: %s' % (list(I.panics) + list(I.asserts_bad)) if (I.panics or I.asserts_bad) else ''))
    # setup phase: only step 0 exists and it is the current board
    gsv = inputs.place_state(prog, True)
    st = State({})
    gs = inputs.ref_to(I, st, 'gs', gsv)
    I.panics.clear()
    try:
        r, st2 = I.call_fn(fn2, [gs, BV.const(0, 64)], st)
        got = I.deref(st2, r) if st2 is not None else None
    except Undecided:
        got = None
    ok = got == inputs.board(prog, '') and not I.panics
    ctx.ob('piece_board_for_step(0) during setup returns the current board', ok)
    if not ok:
        ctx.finding('C14', fn2, 'lookup:setup', 'during setup, asking for step 0 does not return the current board (panics: %s)' % list(I.panics))
