"""Mode-wise abstract interpreter over exported MIR (DESIGN 3.C).

It never executes the crate on concrete game inputs: boards, hashes, histories stay
abstract (bit dependencies / tokens); only finite control inputs are fixed by the caller
(the "mode"). Unknown branches run both successors to the immediate post-dominator and merge.
"""
import itertools
import os
import time

from . import bits as B
from .bits import C0, C1
from .program import postdominators, successors
from .values import (BV, Term, HF, HF0, Struct, Enum, Ite, Ref, Seq, Tok, Top, FnItem, BOTTOM, UNIT,
                     TRUE, FALSE, boolv, SIGMA, V)

EXIT = -1
GLOBAL_DEADLINE = [None]


class Undecided(Exception):
    pass


class ForkReq(object):
    """A summary asks the interpreter to split: with `cond` the call returned `ret` in state `st_yes`;
    otherwise the same call block is executed again in state `st_no`."""
    def __init__(self, cond, st_yes, ret, st_no):
        self.cond, self.st_yes, self.ret, self.st_no = cond, st_yes, ret, st_no


class State(object):
    __slots__ = ('store', 'pc', 'exited')

    def __init__(self, store, pc=()):
        self.store = store
        self.pc = pc
        self.exited = False

    def copy(self):
        return State(dict(self.store), self.pc)


class Interp(object):
    def __init__(self, prog, fuel=400000):
        self.prog = prog
        self.fns = prog.fns
        self.types = prog.types
        self.fuel0 = fuel
        self.fuel = fuel
        self.frame_counter = itertools.count(1)
        self.events = []          # (kind, fn, at, detail)
        self.asserts_ok = {}      # (fn, at, msg) -> count discharged
        self.asserts_bad = {}     # (fn, at, msg) -> detail
        self.panics = {}          # (fn, at) -> path condition when a diverging call is reached
        self.calls_seen = {}      # callee -> count
        self.unknown_calls = {}
        self._ipdom = {}
        self.memo = {}
        self.snapshots = {}
        self.snap_counter = itertools.count(1)
        self.overrides = {}       # fn path -> python callable(interp, st, args) -> (ret, st)
        self.static_cells = {}
        self.firstset_of = {}
        self.unwrap_newtype_results = False
        self.bv_cands = {}        # id(BV) -> (BV, frozenset of the only values it can take): discriminants of a symbolic enum value
        self.elem_preds = None    # while a list-loop body is probed: predicates met on the symbolic history element
        self.late_join = set()    # functions whose loop-free branches are joined only at the function exit (refinement)
        self._nz_depth = 0
        self.firstset_bv = {}     # source bits (with positions) -> the BV of its lowest set bit
        self.watch = {}
        self.cur_pc = ()
        self.cur_fn = None
        self.visits = {}
        self.opaque_calls = {}
        self.loops = {}
        self.exec_sites = set()
        self.strict_unknown = True
        self.regex_patterns = []
        self.site_script = {}     # id(call terminator) -> list of results to return in order
        self.bit_loops = True     # hand-written loops over the set bits of a symbolic board are unrolled per bit (try_bit_loop)
        self._bit_loop_cache = {}
        self.bulk_by_ref_as_exists = True
        self.deadline = None
        self.budget_s = int(os.environ.get('VF_CALL_BUDGET_S', '90'))
        self.hash_names = {}      # const name suffix -> sym
        self.trace = False
        from . import summaries
        self.summaries = summaries.TABLE
        self.local_summaries = summaries.LOCAL

    # ------------------------------------------------------------------ helpers
    def ev(self, kind, fn, at, detail=None):
        self.events.append((kind, fn, at, detail))

    def loopinfo(self, body):
        """block -> header of its innermost natural loop (None outside loops); header -> set of body blocks"""
        k = ('loops', id(body))
        r = self._ipdom.get(k)
        if r is not None:
            return r
        from .program import dominators
        dom = dominators(body)
        n = len(body['blocks'])
        loops = {}
        for u in range(n):
            if body['blocks'][u].get('cleanup'):
                continue
            for h in successors(body['blocks'][u]['term']):
                if h in dom[u]:
                    # natural loop of back edge u -> h
                    bodyset = loops.setdefault(h, {h})
                    stack = [u]
                    while stack:
                        x = stack.pop()
                        if x in bodyset:
                            continue
                        bodyset.add(x)
                        for p in range(n):
                            if x in successors(body['blocks'][p]['term']) and not body['blocks'][p].get('cleanup'):
                                stack.append(p)
        inner = {}
        for b in range(n):
            best = None
            for h, bs in loops.items():
                if b in bs and (best is None or len(bs) < len(loops[best])):
                    best = h
            inner[b] = best
        r = (inner, loops)
        self._ipdom[k] = r
        return r

    def ipdom(self, fname, body):
        k = id(body)
        r = self._ipdom.get(k)
        if r is None:
            r = postdominators(body)[0]
            self._ipdom[k] = r
        return r

    def tyinfo(self, ty):
        return self.types.get(ty)

    # ------------------------------------------------------------------ path conditions
    def decide(self, bit, pc):
        """True / False / None under the path condition."""
        if bit is C1:
            return True
        if bit is C0:
            return False
        if not pc:
            return None
        nb = B.bnot(bit)
        if self._nz_depth < 2:
            X = self._nz_atom(bit)
            if X is not None and self._nz_from_pc(X, pc):
                return True
        L = set()
        for c in pc:
            if c is bit:
                return True
            if c is nb:
                return False
            L |= B.must(c)
        if not L:
            return None
        # a path condition built from this very bit (`b & other`, `!(b | other)`) carries the pseudo-literal naming b
        sl = B.selflit(bit)
        if sl in L:
            return True
        if (sl[0], False) in L:
            return False
        if bit.kind == 's':
            r = bit
            for (v, p) in L:
                if r.kind == 's' and v in r.sup:
                    r = B.restrict(r, v, p)
            if r is C1:
                return True
            if r is C0:
                return False
            return None
        for l in B.suff(bit):
            if l in L:
                return True
        for (v, p) in B.must(bit):
            if (v, not p) in L:
                return False
        return None

    @staticmethod
    def _nz_atom(bit):
        if bit.kind == 's' and len(bit.sup) == 1 and bit.sup[0][0] == '@' and bit.tt == (0, 1):
            at = B.ATOMS[bit.sup[0][1]]
            if at.kind == 'nz' and isinstance(at.payload, BV):
                return at
        return None

    def _nz_from_pc(self, X, pc):
        """`X != 0` follows from a known `Y != 0` when every bit of Y (or of its lowest-set-bit form, which is non-zero exactly
        when Y is) either implies the same bit of X or is false under the path condition: some bit of Y is set, it is not one of
        the false ones, so the corresponding bit of X is set."""
        xb = X.payload.bits
        self._nz_depth += 1
        try:
            for c in pc:
                Y = self._nz_atom(c)
                if Y is None or Y is X or Y.payload.w != X.payload.w:
                    continue
                fs = self.firstset_bv.get(tuple((i, id(b)) for i, b in enumerate(Y.payload.bits) if b is not C0))
                for cand in (Y.payload, fs):
                    if cand is None:
                        continue
                    if all(y is C0 or y is x or self.implies(y, x) or self.decide(y, pc) is False for y, x in zip(cand.bits, xb)):
                        return True
        finally:
            self._nz_depth -= 1
        return False

    # ------------------------------------------------------------------ merging
    def merge(self, c, a, b):
        """value of `if c then a else b`"""
        if a is b:
            return a
        if c is C1:
            return a
        if c is C0:
            return b
        if a is BOTTOM:
            return b
        if b is BOTTOM:
            return a
        try:
            if a == b:
                return a
        except Exception:
            pass
        ta, tb = type(a), type(b)
        if ta is BV and tb is BV and a.w == b.w:
            return BV([B.bite(c, x, y) for x, y in zip(a.bits, b.bits)], a.signed)
        if ta is HF or tb is HF:
            ha, hb = self.as_hf(a), self.as_hf(b)
            if ha is not None and hb is not None:
                # terms the two sides share (same symbol under the same gate) are unconditional in the merged value:
                # ite(c, k ^ x, k ^ y) = k ^ ite(c, x, y)
                common = ha.terms & hb.terms
                if common:
                    ha2, hb2 = HF(ha.terms - common), HF(hb.terms - common)
                    return self.norm_hf(HF(list(common) + list(ha2.gate(c).terms) + list(hb2.gate(B.bnot(c)).terms)))
                return self.norm_hf(ha.gate(c).xor(hb.gate(B.bnot(c))))
        if ta is Struct and tb is Struct and a.ty == b.ty and len(a.fields) == len(b.fields):
            return Struct(a.ty, [self.merge(c, x, y) if isinstance(x, V) else x
                                 for x, y in zip(a.fields, b.fields)])
        if ta is Enum and tb is Enum and a.var == b.var and len(a.fields) == len(b.fields):
            return Enum(a.ty, a.var, [self.merge(c, x, y) for x, y in zip(a.fields, b.fields)])
        if ta is Seq and tb is Seq:
            return self.merge_seq(c, a, b)
        # nested Ite with same condition
        if ta is Ite and a.c is c:
            a = a.a
        if tb is Ite and b.c is c:
            b = b.b
        return Ite(c, a, b)

    def norm_hf(self, h):
        """`[B != 0] * SQB[row, B]` is just `SQB[row, B]` (an empty bulk contributes nothing)."""
        out = []
        ch = False
        for sym, g in h.terms:
            if g is not C1 and sym[0].endswith('B') and isinstance(sym[2], BV) and g is self.nonzero_bit(sym[2]):
                out.append((sym, C1))
                ch = True
            else:
                out.append((sym, g))
        return HF(out) if ch else h

    def merge_seq(self, c, a, b):
        if len(a.items) == len(b.items) and all(x[0] == 'elem' for x in a.items) and all(x[0] == 'elem' for x in b.items):
            # two sequences of the same known length (arrays, buffers): merge element by element
            return Seq([x if x == y else ('elem', self.merge(c, x[1], y[1])) for x, y in zip(a.items, b.items)])
        i = 0
        n = min(len(a.items), len(b.items))
        while i < n and a.items[i] == b.items[i]:
            i += 1
        out = list(a.items[:i])
        nc = B.bnot(c)
        for it in a.items[i:]:
            x = self.cond_item(c, it)
            if x is not None:
                out.append(x)
        for it in b.items[i:]:
            x = self.cond_item(nc, it)
            if x is not None:
                out.append(x)
        return Seq(out)

    def cond_item(self, g, it):
        if g is C1:
            return it
        if g is C0:
            return None
        if it[0] == 'cond':
            g2 = B.band(g, it[1])
            if g2 is C0:
                return None
            return self.cond_item(g2, it[2]) if g2 is not it[1] else it
        if it[0] == 'bulk':
            # Cond(B != 0, Bulk(B, f)) == Bulk(B, f); more generally gate every bit
            bv = it[1]
            nzb = self.nonzero_bit(bv)
            if nzb is g:
                return it
            if B.must(g) & B.suff(nzb) or (B.suff(nzb) and all(l in B.must(g) for l in ())):
                pass
            # g implied by any set bit of B?  (B[i] => g for all i)  then the gate is redundant
            if all((b_ is C0) or self.implies(b_, g) for b_ in bv.bits):
                return it
            return ('bulk', BV([B.band(g, x) for x in bv.bits]), it[2])
        return ('cond', g, it)

    def implies(self, a, b):
        """sound check a => b"""
        if a is C0 or b is C1 or a is b:
            return True
        if B.mustx(a) & B.suffx(b):
            return True
        if b.kind == 's' and len(b.sup) == 1 and b.sup[0][0] == '@':
            at = B.ATOMS[b.sup[0][1]]
            if b.tt == (0, 1) and at.kind == 'nz':
                # b is "payload != 0": a => b if a is one of the payload bits (or implies one)
                for pb in at.payload.bits:
                    if pb is a:
                        return True
        return B.band(a, b) is a

    def merge_states(self, c, s1, s2, forkpc):
        if s1 is None and s2 is None:
            return None
        if s1 is None:
            r = State(s2.store, forkpc + (B.bnot(c),))
            r.exited = s2.exited
            return r
        if s2 is None:
            r = State(s1.store, forkpc + (c,))
            r.exited = s1.exited
            return r
        st = {}
        a, b = s1.store, s2.store
        for k in a:
            if k in b:
                va, vb = a[k], b[k]
                st[k] = va if va is vb else self.merge(c, va, vb)
            else:
                st[k] = a[k]
        for k in b:
            if k not in a:
                st[k] = b[k]
        return State(st, forkpc)

    # ------------------------------------------------------------------ ints
    def as_hf(self, v):
        if isinstance(v, HF):
            return v
        if isinstance(v, BV) and v.known():
            if v.uval() == 0:
                return HF0
            return HF([(('CONST', v.uval()), C1)])
        if isinstance(v, Ite):
            a, b = self.as_hf(v.a), self.as_hf(v.b)
            if a is not None and b is not None:
                return a.gate(v.c).xor(b.gate(B.bnot(v.c)))
        return None

    def nonzero_bit(self, bv):
        """Bit for `bv != 0`. Small when representable, otherwise a named atom carrying the payload."""
        if bv.known():
            return C1 if bv.uval() else C0
        src = self.firstset_of.get(tuple(id(b) for b in bv.bits if b is not C0))
        if src is not None:
            # (1 << trailing_zeros(x)) != 0  <=>  x != 0
            return self.nonzero_bit(src)
        live = [b for b in bv.bits if b is not C0]
        if any(b is C1 for b in live):
            return C1
        if len(live) == 1:
            return live[0]
        allsmall = all(b.kind in 'sc' for b in live)
        if allsmall:
            sup = set()
            for b in live:
                sup |= set(b.sup)
            if len(sup) <= B.K:
                return B.bigor(live)
        deps = set()
        S = set()
        M = None
        for b in live:
            deps |= B.deps(b)
            S |= B.suffx(b)
            if b.kind == 's' and len(b.sup) == 1:
                S.add((b.sup[0], b.tt == (0, 1)))
            m = B.must(b)
            M = set(m) if M is None else (M & m)
        # keyed by the non-zero bits with their positions (zero-extension does not change the predicate)
        key = tuple((i, id(b)) for i, b in enumerate(bv.bits) if b is not C0)
        a = B.atom('nz', key, payload=bv, deps=deps, M=M or (), S=S)
        return B.atom_bit(a)

    def cmp_atom(self, op, a, b):
        a_ = B.atom('cmp', (op, a, b), payload=(op, a, b), deps=self.deps_of(a) | self.deps_of(b))
        return B.atom_bit(a_)

    def deps_of(self, v):
        if isinstance(v, BV):
            d = set()
            for b in v.bits:
                d |= B.deps(b)
            return frozenset(d)
        if isinstance(v, Term):
            d = set()
            for x in v.args:
                if isinstance(x, V):
                    d |= self.deps_of(x)
            return frozenset(d)
        if isinstance(v, HF):
            d = set()
            for s, g in v.terms:
                d |= B.deps(g)
                for x in s:
                    if isinstance(x, V):
                        d |= self.deps_of(x)
            return frozenset(d)
        if isinstance(v, (Struct, Enum)):
            d = set()
            for x in v.fields:
                if isinstance(x, V):
                    d |= self.deps_of(x)
            return frozenset(d)
        if isinstance(v, Ite):
            return frozenset(B.deps(v.c)) | self.deps_of(v.a) | self.deps_of(v.b)
        return frozenset()

    def rng(self, v):
        r = self.rng0(v)
        if r is None or not self.cur_pc or not isinstance(v, Term):
            return r
        lo, hi = r
        for c in self.cur_pc:
            if c.kind != 's' or len(c.sup) != 1 or c.sup[0][0] != '@':
                continue
            at = B.ATOMS[c.sup[0][1]]
            pos = c.tt == (0, 1)
            if at.kind == 'cmp':
                op, a, b = at.payload
                if a == v and isinstance(b, BV) and b.known():
                    k = b.val()
                elif b == v and isinstance(a, BV) and a.known():
                    k = a.val()
                    op = {'Lt': 'Gt', 'Gt': 'Lt', 'Le': 'Ge', 'Ge': 'Le'}.get(op, op)
                else:
                    continue
                if not pos:
                    op = {'Lt': 'Ge', 'Ge': 'Lt', 'Le': 'Gt', 'Gt': 'Le', 'Eq': 'Ne', 'Ne': 'Eq'}.get(op)
                if op == 'Lt':
                    hi = min(hi, k - 1)
                elif op == 'Le':
                    hi = min(hi, k)
                elif op == 'Gt':
                    lo = max(lo, k + 1)
                elif op == 'Ge':
                    lo = max(lo, k)
                elif op == 'Eq':
                    lo, hi = max(lo, k), min(hi, k)
            elif at.kind == 'inrange' and pos:
                x, rlo, rhi = at.payload
                if x == v:
                    lo, hi = max(lo, rlo), min(hi, rhi)
        return lo, hi

    def rng0(self, v):
        if isinstance(v, BV):
            if v.known():
                x = v.val()
                return x, x
            cd = self.bv_cands.get(id(v))
            if cd is not None and cd[0] is v and cd[1]:
                return min(cd[1]), max(cd[1])
            hi = 0
            lo = 0
            for i, b in enumerate(v.bits):
                if b is not C0:
                    hi |= 1 << i
                if b is C1:
                    lo |= 1 << i
            return lo, hi
        if isinstance(v, Term):
            return v.lo, v.hi
        if isinstance(v, Ite):
            a, b = self.rng(v.a), self.rng(v.b)
            if a and b:
                return min(a[0], b[0]), max(a[1], b[1])
        return None

    def binop(self, op, a, b, fn=None, at=None):
        if isinstance(a, Ite) and not isinstance(b, Ite):
            return self.merge(a.c, self.binop(op, a.a, b, fn, at), self.binop(op, a.b, b, fn, at))
        if isinstance(b, Ite):
            return self.merge(b.c, self.binop(op, a, b.a, fn, at), self.binop(op, a, b.b, fn, at))
        wo = op.endswith('WithOverflow')
        if wo:
            base = op[:-len('WithOverflow')]
            r = self.binop(base, a, b, fn, at)
            ovf = self.overflow_bit(base, a, b)
            return Struct('tuple', (r, boolv(ovf)))
        if isinstance(a, BV) and isinstance(b, BV) and a.known() and b.known():
            return self.concrete_binop(op, a, b)
        if op in ('BitAnd', 'BitOr', 'BitXor'):
            if isinstance(a, HF) or isinstance(b, HF):
                ha, hb = self.as_hf(a), self.as_hf(b)
                if op == 'BitXor' and ha is not None and hb is not None:
                    return ha.xor(hb)
                if op == 'BitAnd':
                    # `mask & value` with a mask that is all ones or all zeros depending on one condition (a branch-free
                    # `if c { value } else { 0 }`): the hash value gated by that condition
                    for h_, m_ in ((a, b), (b, a)):
                        if isinstance(h_, HF) and isinstance(m_, BV) and m_.w == 64 and all(x is m_.bits[0] for x in m_.bits):
                            return h_.gate(m_.bits[0])
                self.ev('hash-nonxor', fn, at, op)
                return Top('hash combined with %s' % op)
            if isinstance(a, BV) and isinstance(b, BV) and a.w == b.w:
                if op == 'BitAnd':
                    # other & lowest_set_bit(x) is lowest_set_bit(x) itself when other covers x bit by bit
                    for fs, other in ((a, b), (b, a)):
                        src = self.firstset_of.get(tuple(id(q) for q in fs.bits if q is not C0))
                        if src is not None and src.w == other.w and \
                                all(xj is C0 or B.band(oj, xj) is xj for oj, xj in zip(other.bits, src.bits)):
                            return fs
                f = {'BitAnd': B.band, 'BitOr': B.bor, 'BitXor': B.bxor}[op]
                return BV([f(x, y) for x, y in zip(a.bits, b.bits)], a.signed)
            return Top('bitop on %s/%s' % (type(a).__name__, type(b).__name__))
        if op in ('Shl', 'Shr', 'ShlUnchecked', 'ShrUnchecked'):
            if isinstance(a, BV) and isinstance(b, BV) and b.known():
                k = b.uval()
                n = a.w
                if k >= n:
                    k = k % n  # release-mode wrapping; debug has an assert before
                if op.startswith('Shl'):
                    return BV((C0,) * k + a.bits[:n - k], a.signed)
                fill = a.bits[-1] if a.signed else C0
                return BV(a.bits[k:] + (fill,) * k, a.signed)
            if isinstance(b, Term) and b.kind not in ('tz', 'sigma') and isinstance(a, (BV, Term)):
                w = a.w
                rb = self.rng(b)
                if rb and rb[1] < w:
                    # in-range shift by an unknown amount: any bit pattern (sound havoc)
                    return BV.var('sh%d' % next(self.frame_counter), w)
            if op.startswith('Shl') and isinstance(a, BV) and a.known() and a.uval() == 1 and isinstance(b, Term) \
                    and b.kind == 'tz':
                return self.first_set(b.args[0], a.w)
            if op.startswith('Shl') and isinstance(a, BV) and a.known() and a.uval() == 1 and isinstance(b, Term) \
                    and b.kind == 'sigma':
                # one-hot of the symbolic square: 64 free variables (one-hotness not enforced: over-approximation)
                return BV([B.lit(('sig%d' % b.args[0], i)) for i in range(a.w)])
            return Top('shift by unknown amount')
        if op in ('Eq', 'Ne'):
            bit = self.eq_bit(a, b)
            if bit is None:
                return Top('eq on %s/%s' % (type(a).__name__, type(b).__name__))
            return boolv(bit if op == 'Eq' else B.bnot(bit))
        if op in ('Lt', 'Le', 'Gt', 'Ge'):
            ra, rb = self.rng(a), self.rng(b)
            if ra and rb:
                (alo, ahi), (blo, bhi) = ra, rb
                if op == 'Lt':
                    if ahi < blo:
                        return TRUE
                    if alo >= bhi:
                        return FALSE
                if op == 'Le':
                    if ahi <= blo:
                        return TRUE
                    if alo > bhi:
                        return FALSE
                if op == 'Gt':
                    if alo > bhi:
                        return TRUE
                    if ahi <= blo:
                        return FALSE
                if op == 'Ge':
                    if alo >= bhi:
                        return TRUE
                    if ahi < blo:
                        return FALSE
            return boolv(self.cmp_atom(op, a, b))
        if op in ('Add', 'Sub', 'AddUnchecked', 'SubUnchecked'):
            sgn = 1 if op.startswith('Add') else -1
            if isinstance(a, Term) and isinstance(b, BV) and b.known():
                return self.term_add(a, sgn * b.val())
            if isinstance(b, Term) and isinstance(a, BV) and a.known() and sgn == 1:
                return self.term_add(b, a.val())
            if isinstance(a, BV) and isinstance(b, BV) and a.w == b.w and not a.signed:
                r = self.ripple(a, b, sgn == -1)
                if r is not None:
                    return r
            w = getattr(a, 'w', 64)
            ra, rb = self.rng(a), self.rng(b)
            if ra and rb:
                mx = (1 << w) - 1
                if sgn == 1:
                    return Term('arith', (op, a, b), w, min(ra[0] + rb[0], mx), min(ra[1] + rb[1], mx))
                return Term('arith', (op, a, b), w, max(ra[0] - rb[1], 0), max(ra[1] - rb[0], 0))
            return Term('arith', (op, a, b), w)
        if op in ('Mul', 'Div', 'Rem', 'MulUnchecked'):
            ra, rb = self.rng(a), self.rng(b)
            w = getattr(a, 'w', 64)
            if ra and rb and op.startswith('Mul'):
                return Term('arith', (op, a, b), w, ra[0] * rb[0], min(ra[1] * rb[1], (1 << w) - 1))
            if ra and rb and op == 'Rem' and rb[0] > 0:
                return Term('arith', (op, a, b), w, 0, rb[1] - 1)
            if ra and rb and op == 'Div' and rb[0] > 0:
                return Term('arith', (op, a, b), w, ra[0] // rb[1], ra[1] // rb[0])
            return Term('arith', (op, a, b), w)
        if op == 'Cmp':
            return Top('Cmp')
        if op == 'Offset':
            return Top('ptr offset')
        return Top('binop %s' % op)

    def ripple(self, a, b, sub):
        """Bitwise a + b / a - b on partially known vectors, as long as the carry chain stays constant (e.g. x - 1 when
        the lowest set bit of x is known); None otherwise."""
        c = C0
        out = []
        for x, y in zip(a.bits, b.bits):
            xy = B.bxor(x, y)
            out.append(B.bxor(xy, c))
            if sub:
                c = B.bor(B.band(B.bnot(x), y), B.band(B.bnot(xy), c))
            else:
                c = B.bor(B.band(x, y), B.band(xy, c))
            if c is not C0 and c is not C1:
                return None
        return BV(out)

    def term_add(self, t, k):
        if k == 0:
            return t
        w = t.w
        if t.kind == 'affine':
            base, c = t.args
            return Term('affine', (base, c + k), w, max(t.lo + k, 0), min(t.hi + k, (1 << w) - 1))
        return Term('affine', (t, k), w, max(t.lo + k, 0), min(t.hi + k, (1 << w) - 1))

    def overflow_bit(self, base, a, b):
        w = getattr(a, 'w', 64)
        ra, rb = self.rng(a), self.rng(b)
        if ra is None or rb is None:
            return self.cmp_atom('ovf' + base, a, b)
        mx = (1 << w) - 1
        if isinstance(a, BV) and a.signed:
            mx = (1 << (w - 1)) - 1
        if base == 'Add':
            # Term ranges are clipped to the type, so use unclipped arithmetic on the parts
            ahi = ra[1]
            if isinstance(a, Term) and a.kind == 'affine':
                ahi = self.rng(a.args[0])[1] + a.args[1] if isinstance(a.args[0], (Term, BV)) else ra[1]
            if ahi + rb[1] <= mx:
                return C0
            if ra[0] + rb[0] > mx:
                return C1
        elif base == 'Sub':
            if ra[0] - rb[1] >= 0:
                return C0
            if ra[1] - rb[0] < 0:
                return C1
        elif base == 'Mul':
            if ra[1] * rb[1] <= mx:
                return C0
        return self.cmp_atom('ovf' + base, a, b)

    def concrete_binop(self, op, a, b):
        x, y = a.val(), b.val()
        w = a.w
        if op in ('Add', 'AddUnchecked'):
            return BV.const(x + y, w, a.signed)
        if op in ('Sub', 'SubUnchecked'):
            return BV.const(x - y, w, a.signed)
        if op in ('Mul', 'MulUnchecked'):
            return BV.const(x * y, w, a.signed)
        if op == 'Div':
            return BV.const(x // y if y else 0, w, a.signed)
        if op == 'Rem':
            return BV.const(x % y if y else 0, w, a.signed)
        if op == 'BitAnd':
            return BV.const(a.uval() & b.uval(), w, a.signed)
        if op == 'BitOr':
            return BV.const(a.uval() | b.uval(), w, a.signed)
        if op == 'BitXor':
            return BV.const(a.uval() ^ b.uval(), w, a.signed)
        if op in ('Shl', 'ShlUnchecked'):
            return BV.const(a.uval() << (b.uval() % w), w, a.signed)
        if op in ('Shr', 'ShrUnchecked'):
            return BV.const(x >> (b.uval() % w), w, a.signed)
        r = {'Eq': x == y, 'Ne': x != y, 'Lt': x < y, 'Le': x <= y, 'Gt': x > y, 'Ge': x >= y}.get(op)
        if r is None:
            if op == 'Cmp':
                o = (x > y) - (x < y)
                return Enum('std::cmp::Ordering', o + 1)
            return Top('concrete ' + op)
        return TRUE if r else FALSE

    def eq_bit(self, a, b):
        """Bit for a == b, or None."""
        if isinstance(a, BV) and isinstance(b, BV):
            if a.w != b.w:
                return None
            x = BV([B.bxor(p, q) for p, q in zip(a.bits, b.bits)])
            return B.bnot(self.nonzero_bit(x))
        if isinstance(a, HF) or isinstance(b, HF):
            ha, hb = self.as_hf(a), self.as_hf(b)
            if ha is None or hb is None:
                return None
            d = ha.xor(hb)
            if not d.terms:
                return C1
            at = B.atom('hfeq', d, payload=(ha, hb), deps=self.deps_of(d))
            return B.atom_bit(at)
        if isinstance(a, Term) and isinstance(b, Term) and a == b:
            return C1
        if isinstance(a, (Term, BV)) and isinstance(b, (Term, BV)):
            ra, rb = self.rng(a), self.rng(b)
            if ra and rb and (ra[1] < rb[0] or rb[1] < ra[0]):
                return C0
            return self.cmp_atom('Eq', a, b)
        if isinstance(a, Enum) and isinstance(b, Enum):
            if a.var != b.var:
                return C0
            r = C1
            for x, y in zip(a.fields, b.fields):
                e = self.eq_bit(x, y)
                if e is None:
                    return None
                r = B.band(r, e)
            return r
        if isinstance(a, Struct) and isinstance(b, Struct) and len(a.fields) == len(b.fields):
            r = C1
            for x, y in zip(a.fields, b.fields):
                e = self.eq_bit(x, y)
                if e is None:
                    return None
                r = B.band(r, e)
            return r
        if isinstance(a, Ite):
            x, y = self.eq_bit(a.a, b), self.eq_bit(a.b, b)
            if x is None or y is None:
                return None
            return B.bite(a.c, x, y)
        if isinstance(b, Ite):
            return self.eq_bit(b, a)
        if isinstance(a, Tok) and isinstance(b, Tok):
            if a == b:
                return C1
            return B.atom_bit(B.atom('tokeq', tuple(sorted([a.name, b.name]))))
        if isinstance(a, Tok) or isinstance(b, Tok):
            bit_ = B.atom_bit(B.atom('tokeq2', (a, b), payload=(a, b), deps=self.deps_of(a) | self.deps_of(b)))
            if self.elem_preds is not None and any(isinstance(x, Tok) and str(x.name).startswith('hist.elem') for x in (a, b)):
                self.elem_preds.append(bit_)
            return bit_
        return None

    def first_set(self, bv, w):
        """1 << trailing_zeros(bv): bit i set iff bv[i] and no lower bit set."""
        out = []
        lower_zero_lits = set()
        lower_deps = set()
        for i in range(w):
            x = bv.bits[i] if i < bv.w else C0
            if x is C0:
                out.append(C0)
            else:
                D = set(B.rawvars(x)) | lower_deps
                M = set(B.mustx(x)) | lower_zero_lits      # the lowest-set-bit at i implies bit i itself
                if not lower_deps:
                    out.append(x)
                else:
                    out.append(B._dep(D, M, (), keep=(B.selflit(x),)))
            if x is C1:
                out.extend([C0] * (w - i - 1))
                break
            if x is not C0:
                lower_deps |= set(B.rawvars(x))
                # "x is 0" gives the negation of each sufficient literal of x
                for (v, p) in B.suff(x):
                    lower_zero_lits.add((v, not p))
                if x.kind == 's' and len(x.sup) == 1:
                    lower_zero_lits.add((x.sup[0], x.tt != (0, 1)))
        r = BV(out[:w])
        self.firstset_of[tuple(id(b) for b in r.bits if b is not C0)] = bv
        self.firstset_bv[tuple((i, id(b)) for i, b in enumerate(bv.bits) if b is not C0)] = r
        return r

    def unop(self, op, a):
        if isinstance(a, Ite):
            return self.merge(a.c, self.unop(op, a.a), self.unop(op, a.b))
        if op == 'Not':
            if isinstance(a, BV):
                return BV([B.bnot(x) for x in a.bits], a.signed)
            if isinstance(a, HF):
                self.ev('hash-nonxor', None, None, 'Not')
            return Top('not')
        if op == 'Neg':
            if isinstance(a, BV) and a.known():
                return BV.const(-a.val(), a.w, a.signed)
            return Top('neg')
        if op == 'PtrMetadata':
            # slice length
            return a
        return Top('unop ' + op)

    @staticmethod
    def _const_tree(v):
        if isinstance(v, BV):
            return v.known()
        if isinstance(v, Ite):
            return Interp._const_tree(v.a) and Interp._const_tree(v.b)
        return False

    def cast(self, kind, v, ty):
        ti = self.tyinfo(ty) or {}
        if isinstance(v, Ite) and ti.get('k') in ('int', 'bool', 'char'):
            return self.merge(v.c, self.cast(kind, v.a, ty), self.cast(kind, v.b, ty))
        if kind.startswith('IntToInt') or kind.startswith('Transmute') and ti.get('k') in ('int', 'bool', 'char'):
            n = ti.get('bits', 64)
            signed = ti.get('signed', False)
            if isinstance(v, BV):
                fill = v.bits[-1] if v.signed and v.w < n else C0
                bits_ = (v.bits + (fill,) * n)[:n]
                out = BV(bits_, signed)
                cd = self.bv_cands.get(id(v))
                if cd is not None and cd[0] is v and all(0 <= x < (1 << min(n, v.w)) for x in cd[1]):
                    self.bv_cands[id(out)] = (out, cd[1])
                return out
            if isinstance(v, Term):
                lo, hi = self.rng(v)
                if hi < (1 << n):
                    if (lo, hi) == (v.lo, v.hi):
                        return Term(v.kind, v.args, n, v.lo, v.hi, signed)
                    return Term('narrowed', (v,), n, lo, hi, signed)
                self.ev('lossy-cast', self.cur_fn, None, 'cast of %r (range [%d,%d]) to %d bits' % (v, lo, hi, n))
                return Term('trunc', (v, n), n)
            if isinstance(v, Enum):
                # fieldless enum as integer: its discriminant
                d = self.discr(v)
                return self.cast(kind, d, ty)
            return Top('cast')
        if kind.startswith('PointerCoercion') or kind.startswith('PtrToPtr') or kind.startswith('Transmute'):
            return v
        return Top('cast ' + kind)

    # ------------------------------------------------------------------ enums
    def variants(self, ty):
        ti = self.tyinfo(ty)
        if ti and ti['k'] == 'adt':
            return ti['variants']
        return None

    def discr_val(self, ty, var):
        vs = self.variants(ty)
        if vs and var < len(vs):
            return int(vs[var]['discr'])
        base = ty.split('<')[0]
        if base == 'std::cmp::Ordering':
            return (-1, 0, 1)[var] & ((1 << 64) - 1)
        return var

    def discr(self, v):
        if isinstance(v, Enum):
            return BV.const(self.discr_val(v.ty, v.var), 64, True)
        if isinstance(v, Ite):
            r = self.merge(v.c, self.discr(v.a), self.discr(v.b))
            if isinstance(r, BV) and not r.known():
                cands = self._leaf_discrs(v)
                if cands is not None:
                    self.bv_cands[id(r)] = (r, cands)
            return r
        if isinstance(v, Tok):
            vs = self.variants(v.ty) if v.ty else None
            if not vs:
                raise Undecided('discriminant of opaque %r' % v)
            out = BV.const(int(vs[-1]['discr']), 64, True)
            for k in range(len(vs) - 2, -1, -1):
                a = B.atom('variant', (v.name, k), payload=(v, k))
                out = self.merge(B.atom_bit(a), BV.const(int(vs[k]['discr']), 64, True), out)
            return out
        if isinstance(v, Struct) and v.ty == 'array':
            return Top('discr of array')
        if isinstance(v, Top):
            return v
        raise Undecided('discriminant of %r' % (v,))

    def _leaf_discrs(self, v, depth=0):
        """the discriminants of the Enum leaves of an Ite tree (None when a leaf is not a plain variant)"""
        if isinstance(v, Enum):
            return frozenset([self.discr_val(v.ty, v.var)])
        if isinstance(v, Ite) and depth < 64:
            a, b = self._leaf_discrs(v.a, depth + 1), self._leaf_discrs(v.b, depth + 1)
            return None if a is None or b is None else (a | b)
        return None

    def var_by_discr(self, ty, d):
        vs = self.variants(ty)
        if vs:
            for i, x in enumerate(vs):
                if int(x['discr']) == d:
                    return i
        return d

    # ------------------------------------------------------------------ memory
    def resolve(self, st, frame, place):
        """-> (cell, path) following derefs"""
        cell = (frame, place['l'])
        path = ()
        for e in place['p']:
            if e == 'deref':
                v = self.read_at(st, cell, path)
                v = self.unwrap_ptr(v)
                if isinstance(v, Ref):
                    cell, path = v.cell, v.path
                else:
                    raise Undecided('deref of %r' % (v,))
            elif 'f' in e:
                path = path + (('f', e['f']),)
            elif 'dc' in e:
                path = path + (('dc', e['dc']),)
            elif 'idx' in e:
                iv = st.store.get((frame, e['idx']))
                path = path + (('idx', iv),)
            elif 'cidx' in e:
                path = path + (('idx', BV.const(e['cidx'], 64)),)
            else:
                raise Undecided('projection %r' % (e,))
        return cell, path

    def unwrap_ptr(self, v):
        return v

    def read_at(self, st, cell, path):
        if cell not in st.store:
            if cell in self.static_cells:
                return self.project(st, self.static_cells[cell], path)
            raise Undecided('read of uninitialised %r' % (cell,))
        v = st.store[cell]
        return self.project(st, v, path)

    def project(self, st, v, path):
        i = 0
        n = len(path)
        while i < n:
            k, x = path[i]
            if k == 'dc':
                # combine with following field
                if i + 1 < n and path[i + 1][0] == 'f':
                    v = self.getfield(v, path[i + 1][1], x)
                    i += 2
                    continue
                i += 1
                continue
            if k == 'f':
                v = self.getfield(v, x, None)
            elif k == 'idx':
                v = self.getindex(st, v, x)
            i += 1
        return v

    def getfield(self, v, f, variant):
        if isinstance(v, Struct):
            if f < len(v.fields):
                return v.fields[f]
            raise Undecided('field %d of %r' % (f, v))
        if isinstance(v, Enum):
            if variant is not None and v.var != variant:
                return BOTTOM
            if f < len(v.fields):
                return v.fields[f]
            raise Undecided('field %d of %r' % (f, v))
        if isinstance(v, Ite):
            a = self.getfield(v.a, f, variant)
            b = self.getfield(v.b, f, variant)
            if a is BOTTOM:
                return b
            if b is BOTTOM:
                return a
            return self.merge(v.c, a, b)
        if isinstance(v, Tok):
            return self.tok_field(v, f, variant)
        if v is BOTTOM:
            return BOTTOM
        if isinstance(v, Top):
            return Top('field of ' + v.why)
        raise Undecided('field %r of %r' % (f, v))

    def tok_field(self, v, f, variant):
        fty = None
        ti = self.tyinfo(v.ty) if v.ty else None
        if ti and ti['k'] == 'adt':
            vs = ti['variants']
            vv = vs[variant if variant is not None else 0]
            if f < len(vv['fields']):
                fty = vv['fields'][f]
        elif ti and ti['k'] == 'tuple':
            fty = ti['of'][f]
        name = '%s%s.%d' % (v.name, ('#%d' % variant) if variant is not None else '', f)
        return self.fresh(name, fty)

    def fresh(self, name, ty):
        """Opaque value of a type: ints become range-only Terms, bools atoms, aggregates stay tokens."""
        ti = self.tyinfo(ty) if ty else None
        if ti:
            if ti['k'] == 'bool':
                return boolv(B.atom_bit(B.atom('tokbool', name)))
            if ti['k'] == 'int':
                return Term('tok', (name,), ti['bits'], signed=ti.get('signed', False))
            if ti['k'] == 'ref':
                cell = ('static', 'tok:' + name)
                if cell not in self.static_cells:
                    self.static_cells[cell] = self.fresh(name + '*', ti['to'])
                return Ref(cell)
        return Tok(name, ty)

    def fresh_value(self, name, ty, depth=0):
        """Unknown value of a type (sound over-approximation of any callee result)."""
        ti = self.tyinfo(ty) if ty else None
        if not ti or depth > 4:
            return Tok(name, ty)
        k = ti['k']
        if k == 'bool':
            return boolv(B.atom_bit(B.atom('tokbool', name)))
        if k == 'int':
            return Term('tok', (name,), ti['bits'], signed=ti.get('signed', False))
        if k == 'char':
            return Term('tok', (name,), 32, 0, 0x10FFFF)
        if k == 'tuple':
            if not ti['of']:
                return UNIT
            return Struct('tuple', [self.fresh_value('%s.%d' % (name, i), t, depth + 1) for i, t in enumerate(ti['of'])])
        if k == 'ref':
            cell = ('static', 'fresh:' + name)
            self.static_cells[cell] = self.fresh_value(name + '*', ti['to'], depth + 1)
            return Ref(cell)
        if k == 'adt':
            base = ti['path']
            if base in ('std::option::Option', 'std::result::Result') and len(ti['variants']) == 2:
                a = B.atom('variant', (name, 1), payload=(name, 1))
                v1 = Enum(ty, 1, [self.fresh_value('%s#1.%d' % (name, i), t, depth + 1) for i, t in enumerate(ti['variants'][1]['fields'])])
                v0 = Enum(ty, 0, [self.fresh_value('%s#0.%d' % (name, i), t, depth + 1) for i, t in enumerate(ti['variants'][0]['fields'])])
                return Ite(B.atom_bit(a), v1, v0)
            if ti['enum'] and all(not v['fields'] for v in ti['variants']) and ti.get('local'):
                return Tok(name, ty)
        return Tok(name, ty)

    def havoc(self, v, tag):
        """Forget a value but keep its shape (loop-carried state of a loop with unknown trip count)."""
        n = next(self.frame_counter)
        if isinstance(v, BV):
            if v.w == 1:
                return boolv(B.atom_bit(B.atom('tokbool', 'hv%d' % n)))
            return BV.var('hv%d' % n, v.w)
        if isinstance(v, Term):
            return Term('tok', ('hv%d' % n,), v.w)
        if isinstance(v, Struct) and not v.ty.startswith('$'):
            return Struct(v.ty, [self.havoc(x, tag) if isinstance(x, V) else x for x in v.fields])
        if isinstance(v, (Ref, FnItem)):
            return v
        if isinstance(v, Struct):
            return v
        if isinstance(v, HF):
            return HF([(('OPAQUE', 'hv%d' % n), C1)])
        return Top('havoc:' + tag)

    def getindex(self, st, v, idx):
        if isinstance(v, Ref):
            v = self.read_at(st, v.cell, v.path)
        if isinstance(idx, Ite):
            return self.merge(idx.c, self.getindex(st, v, idx.a), self.getindex(st, v, idx.b))
        if isinstance(v, Struct) and v.ty == '$constarr':
            name, idxs = v.fields
            if isinstance(idx, BV) and idx.known():
                idx = idx.uval()
            elif isinstance(idx, BV):
                unk = [i for i, b in enumerate(idx.bits) if b.kind != 'c']
                if len(unk) > 3:
                    raise Undecided('constant table %s indexed by %r' % (name, idx))
                base = sum(1 << i for i, b in enumerate(idx.bits) if b is C1)
                out = None
                for m in range(1 << len(unk)):
                    val = base | sum((1 << unk[j]) for j in range(len(unk)) if (m >> j) & 1)
                    r = self.getindex(st, v, BV.const(val, idx.w))
                    out = r if out is None else self.merge(self.eq_const_bit(idx, val), r, out)
                return out
            elif not isinstance(idx, Term):
                raise Undecided('constant table %s indexed by %r' % (name, idx))
            idxs = idxs + (idx,)
            kind, dims = self.hash_tables[name]
            if len(idxs) == dims:
                return HF([((kind,) + idxs, C1)])
            return Struct('$constarr', (name, idxs))
        if isinstance(v, Seq):
            if isinstance(idx, BV) and idx.known():
                k = idx.uval()
                if v.concrete() and k < len(v.items):
                    return v.items[k][1]
                if k < len(v.items) and all(it[0] == 'elem' for it in v.items[:k + 1]):
                    return v.items[k][1]
            if isinstance(idx, BV) and v.concrete() and v.items:
                # a lookup table indexed by a value with a few unknown bits (`LETTERS[piece as usize]`): every in-range candidate
                # (the bounds check before the access has excluded the others)
                unk = [i for i, b in enumerate(idx.bits) if b.kind != 'c']
                if len(unk) <= 4:
                    base = sum(1 << i for i, b in enumerate(idx.bits) if b is C1)
                    out = None
                    cd = self.bv_cands.get(id(idx))
                    only = cd[1] if cd is not None and cd[0] is idx else None
                    for m in range(1 << len(unk)):
                        val = base | sum((1 << unk[j]) for j in range(len(unk)) if (m >> j) & 1)
                        if val >= len(v.items) or (only is not None and val not in only):
                            continue
                        r = v.items[val][1]
                        out = r if out is None else self.merge(self.eq_const_bit(idx, val), r, out)
                    if out is not None:
                        return out
            raise Undecided('index %r of %r' % (idx, v))
        if isinstance(v, Ite):
            return self.merge(v.c, self.getindex(st, v.a, idx), self.getindex(st, v.b, idx))
        if isinstance(v, Tok) and isinstance(idx, BV) and idx.known():
            # an element of a container this analysis knows nothing about (reached after the program's own length test or bounds
            # check): an opaque value of the element type, the same one for the same position
            ti = self.tyinfo(v.ty) if v.ty else None
            ety = None
            if ti and ti.get('k') in ('array', 'slice'):
                ety = ti.get('of')
            elif ti and ti.get('targs'):
                ety = ti['targs'][0]
            return self.fresh_value('%s[%d]' % (v.name, idx.uval()), ety)
        raise Undecided('index of %r' % (v,))

    def update(self, v, path, new):
        if not path:
            return new
        k, x = path[0]
        rest = path[1:]
        if k == 'dc':
            if isinstance(v, Enum):
                if v.var != x:
                    return v
                return self.update(v, rest, new)
            if isinstance(v, Ite):
                return Ite(v.c, self.update(v.a, path, new), self.update(v.b, path, new))
            if v is None or isinstance(v, (Top, Tok)):
                # initialising a variant field by field (SetDiscriminant follows): build an enum shell
                raise Undecided('partial enum init')
            return self.update(v, rest, new)
        if k == 'f':
            if isinstance(v, (Struct, Enum)):
                fs = list(v.fields)
                if x >= len(fs):
                    raise Undecided('update field %d of %r' % (x, v))
                fs[x] = self.update(fs[x], rest, new)
                return Struct(v.ty, fs) if isinstance(v, Struct) else Enum(v.ty, v.var, fs)
            if isinstance(v, Ite):
                return Ite(v.c, self.update(v.a, path, new), self.update(v.b, path, new))
            raise Undecided('update field of %r' % (v,))
        if k == 'idx':
            if isinstance(v, Seq) and isinstance(x, BV) and x.known() and v.concrete():
                items = list(v.items)
                i = x.uval()
                items[i] = ('elem', self.update(items[i][1], rest, new))
                return Seq(items)
            raise Undecided('update index of %r' % (v,))
        raise Undecided('update %r' % (path,))

    def write(self, st, frame, place, val):
        if not place['p']:
            st.store[(frame, place['l'])] = val
            return
        cell, path = self.resolve(st, frame, place)
        if not path:
            st.store[cell] = val
            return
        old = st.store.get(cell)
        if old is None:
            old = self.shell_for(frame, place, path)
        st.store[cell] = self.update(old, path, val)

    def shell_for(self, frame, place, path):
        raise Undecided('write into uninitialised aggregate')

    def read_place(self, st, frame, place):
        if not place['p']:
            c = (frame, place['l'])
            if c not in st.store:
                raise Undecided('read of uninitialised local _%d' % place['l'])
            return st.store[c]
        if place['p'][0] == 'deref':
            v0 = st.store.get((frame, place['l']))
            if isinstance(v0, Ite):
                return self.read_through(st, frame, v0, place['p'][1:])
            if isinstance(v0, (Tok, Top)):
                return self.fresh_value('deref%d' % next(self.frame_counter), None)
        cell, path = self.resolve(st, frame, place)
        return self.read_at(st, cell, path)

    def read_through(self, st, frame, v, rest):
        if isinstance(v, Ite):
            return self.merge(v.c, self.read_through(st, frame, v.a, rest), self.read_through(st, frame, v.b, rest))
        if isinstance(v, Ref):
            path = v.path
            for e in rest:
                if e == 'deref':
                    inner = self.read_at(st, v.cell, path)
                    return self.read_through(st, frame, inner, rest[rest.index(e) + 1:])
                if 'f' in e:
                    path = path + (('f', e['f']),)
                elif 'dc' in e:
                    path = path + (('dc', e['dc']),)
                else:
                    raise Undecided('projection through merged reference')
            return self.read_at(st, v.cell, path)
        raise Undecided('deref of %r' % (v,))

    def deref(self, st, v):
        """Value behind a reference value (identity for non-refs)."""
        while isinstance(v, Ref):
            v = self.read_at(st, v.cell, v.path)
        return v

    # ------------------------------------------------------------------ operands
    def operand(self, st, fr, o):
        k = o['k']
        if k in ('copy', 'move'):
            return self.read_place(st, fr.id, o['pl'])
        if k == 'int':
            ti = self.tyinfo(o['ty']) or {}
            nm = o.get('name')
            if isinstance(nm, str):
                sym = self.hash_sym_for_const(nm)
                if sym is not None:
                    return HF([(sym, C1)])
            w = ti.get('bits', 64)
            if ti.get('k') == 'adt':
                # fieldless enum constant / newtype scalar
                return self.decode_scalar(int(o['v']), o['ty'])
            return BV.const(int(o['v']), w, ti.get('signed', False))
        if k == 'zst':
            ti = self.tyinfo(o['ty']) or {}
            if ti.get('k') == 'fndef':
                return FnItem(ti['path'])
            if ti.get('k') == 'adt':
                vs = ti['variants']
                if ti.get('enum'):
                    return Enum(o['ty'], 0)
                return Struct(o['ty'], ())
            if ti.get('k') == 'closure':
                return Struct('closure:' + ti['path'], ())
            return UNIT
        if k == 'fn':
            return FnItem(o['path'])
        if k == 'val':
            return self.const_val(st, fr, o)
        raise Undecided('operand %r' % (o,))

    def hash_sym_for_const(self, name):
        for suf, sym in self.hash_names.items():
            if name == suf or name.endswith('::' + suf):
                return sym
        return None

    def decode_scalar(self, v, ty):
        ti = self.tyinfo(ty)
        if ti and ti['k'] == 'adt':
            if ti['enum']:
                return Enum(ty, self.var_by_discr(ty, v))
            fs = ti['variants'][0]['fields']
            if len(fs) == 1:
                return Struct(ty, (self.decode_scalar(v, fs[0]),))
        if ti and ti['k'] in ('int', 'bool', 'char'):
            return BV.const(v, ti['bits'], ti.get('signed', False))
        return Top('scalar of ' + ty)

    def decode_bytes(self, raw, ty):
        ti = self.tyinfo(ty)
        if not ti:
            return Top('bytes of ' + ty)
        if ti['k'] == 'array':
            n = ti['len']
            if n == 0:
                return Seq(())
            sz = len(raw) // n
            return Seq([('elem', self.decode_bytes(raw[i * sz:(i + 1) * sz], ti['of'])) for i in range(n)])
        if ti['k'] in ('int', 'bool', 'char'):
            return BV.const(int.from_bytes(raw, 'little'), ti['bits'], ti.get('signed', False))
        if ti['k'] == 'adt':
            if ti['enum'] and all(not v['fields'] for v in ti['variants']):
                return Enum(ty, self.var_by_discr(ty, int.from_bytes(raw, 'little')))
            if not ti['enum'] and len(ti['variants'][0]['fields']) == 1:
                return Struct(ty, (self.decode_bytes(raw, ti['variants'][0]['fields'][0]),))
            if not ti['enum'] and ti.get('offs') is not None and len(ti['offs']) == len(ti['variants'][0]['fields']):
                # a struct constant (`const EMPTY: PieceBoardState = PieceBoardState { .. }`): fields at their layout offsets
                fields = []
                for fty, off in zip(ti['variants'][0]['fields'], ti['offs']):
                    fti = self.tyinfo(fty) or {}
                    sz = fti['bits'] // 8 if fti.get('k') in ('int', 'char') else (1 if fti.get('k') == 'bool' else None)
                    if sz is None:
                        return Top('bytes of ' + ty)
                    fields.append(self.decode_bytes(raw[off:off + sz], fty))
                return Struct(ty, tuple(fields))
        if ti['k'] == 'tuple' and not ti['of']:
            return UNIT
        if ti['k'] == 'tuple' and ti.get('offs') is not None:
            fields = []
            for fty, off in zip(ti['of'], ti['offs']):
                fti = self.tyinfo(fty) or {}
                sz = fti['bits'] // 8 if fti.get('k') in ('int', 'char') else (1 if fti.get('k') == 'bool' else None)
                if sz is None and fti.get('k') == 'adt' and fti.get('enum') and all(not v['fields'] for v in fti['variants']) \
                        and len(fti['variants']) <= 256 and 'repr' not in fti:
                    sz = 1          # a fieldless enum with at most 256 variants is one byte (default representation)
                if sz is None:
                    return Top('bytes of ' + ty)
                fields.append(self.decode_bytes(raw[off:off + sz], fty))
            return Struct('tuple', tuple(fields))
        return Top('bytes of ' + ty)

    def const_val(self, st, fr, o):
        ty = o['ty']
        ti = self.tyinfo(ty) or {}
        nm = o.get('name')
        if isinstance(nm, str):
            for suf in self.hash_tables:
                if nm == suf or nm.endswith('::' + suf):
                    return Struct('$constarr', (suf, ()))
        if isinstance(nm, dict) and 'promoted' in nm:
            cell = ('static', 'promoted:%s:%d' % (fr.fname, nm['promoted']))
            if cell not in self.static_cells:
                body = fr.fn['promoted'][nm['promoted']] if not fr.is_promoted else None
                if body is None:
                    raise Undecided('nested promoted')
                val = self.run_promoted(fr.fname, body)
                self.static_cells[cell] = val
            v = self.static_cells[cell]
            st.store.setdefault(cell, v) if not isinstance(v, Ref) else None
            if isinstance(v, Ref):
                return v
            return Ref(cell)
        if o.get('bytes') is not None and o.get('fnptrs'):
            # a table of function pointers: `const T: [fn(..); N] = [f, g, h]` (pointer slots exported with their targets)
            ptrs = {int(off): path for off, path in o['fnptrs']}
            raw = bytes.fromhex(o['bytes'])
            aty = ti['to'] if ti.get('k') == 'ref' else ty
            ati = self.tyinfo(aty) or {}
            if ati.get('k') == 'array' and ati.get('len') and len(raw) == 8 * ati['len'] and sorted(ptrs) == [8 * i for i in range(ati['len'])]:
                val = Seq([('elem', FnItem(ptrs[8 * i])) for i in range(ati['len'])])
                if ti.get('k') == 'ref':
                    cell = ('static', 'const:%s:%s' % (ty, '|'.join(ptrs[k] for k in sorted(ptrs))[:120]))
                    self.static_cells[cell] = val
                    st.store[cell] = val
                    return Ref(cell)
                return val
            return Top('const %s with function pointers' % ty)
        if o.get('bytes') is not None:
            raw = bytes.fromhex(o['bytes'])
            if ti.get('k') == 'ref':
                inner = ti['to']
                iti = self.tyinfo(inner) or {}
                if iti.get('k') == 'str':
                    cell = ('static', 'str:' + o['bytes'][:80])
                    self.static_cells[cell] = Struct('$str', (raw.decode('utf8', 'replace'),))
                    return Ref(cell)
                val = self.decode_bytes(raw, inner)
                cell = ('static', 'const:%s:%s' % (ty, o['bytes'][:64]))
                self.static_cells[cell] = val
                st.store[cell] = val
                return Ref(cell)
            return self.decode_bytes(raw, ty)
        return Top('const %s' % ty)

    hash_tables = {}

    def run_promoted(self, fname, body):
        fr = Frame(next(self.frame_counter), fname + '::promoted', body, True)
        st = State({})
        st2 = self.exec_region(st, fr, 0, EXIT)
        v = st2.store.get((fr.id, 0))
        if isinstance(v, Ref):
            # reference to a local of the promoted body: move it to a static cell
            inner = self.read_at(st2, v.cell, v.path)
            cell = ('static', 'prom-inner:%s:%d' % (fname, id(body)))
            self.static_cells[cell] = inner
            return Ref(cell)
        return v

    # ------------------------------------------------------------------ rvalues
    def rvalue(self, st, fr, rv, at=None, dst_ty=None):
        k = rv['k']
        if k == 'use':
            return self.operand(st, fr, rv['o'])
        if k == 'ref' or k == 'rawptr':
            pl = rv['pl']
            if not pl['p']:
                return Ref((fr.id, pl['l']), (), rv.get('mut', False))
            # reborrow &(*_x) keeps the target
            if len(pl['p']) == 1 and pl['p'][0] == 'deref':
                v0 = st.store.get((fr.id, pl['l']))
                if isinstance(v0, (Ite, Tok, Top)):
                    return v0
            cell, path = self.resolve(st, fr.id, pl)
            return Ref(cell, path, rv.get('mut', False))
        if k == 'bin':
            a = self.operand(st, fr, rv['a'])
            b = self.operand(st, fr, rv['b'])
            return self.binop(rv['op'], a, b, fr.fname, at)
        if k == 'un':
            a = self.operand(st, fr, rv['a'])
            if rv['op'] == 'PtrMetadata' and isinstance(a, Ref):
                # length of a slice whose contents are known item by item
                try:
                    tgt = self.deref(st, a)
                except Undecided:
                    tgt = None
                if isinstance(tgt, Seq) and tgt.concrete():
                    return BV.const(len(tgt.items), 64)
                if isinstance(tgt, Seq):
                    lo = sum(1 for it in tgt.items if it[0] == 'elem')
                    return Term('len', (tgt,), 64, lo, lo + 64 * sum(1 for it in tgt.items if it[0] != 'elem'))
                if tgt is not None and not isinstance(tgt, (BV, Ref)):
                    return Term('len', (tgt,), 64)          # length of a slice whose contents are unknown
            return self.unop(rv['op'], a)
        if k == 'cast':
            return self.cast(rv['ck'], self.operand(st, fr, rv['o']), rv['ty'])
        if k == 'discr':
            return self.discr(self.read_place(st, fr.id, rv['pl']))
        if k == 'agg':
            ops = [self.operand(st, fr, o) for o in rv['ops']]
            if 'adt' in rv:
                ty = dst_ty or rv['adt']
                ti = self.tyinfo(ty)
                if ti and ti['k'] == 'adt' and ti['enum']:
                    return Enum(ty, rv['variant'], ops)
                if ti is None and rv['adt'].startswith('std::option::Option'):
                    return Enum(ty, rv['variant'], ops)
                return Struct(ty, ops)
            if rv.get('tuple'):
                return Struct('tuple', ops) if ops else UNIT
            if rv.get('array'):
                return Seq([('elem', o) for o in ops])
            if 'closure' in rv:
                return Struct('closure:' + rv['closure'], ops)
            return Top('aggregate')
        if k == 'repeat':
            v = self.operand(st, fr, rv['o'])
            n = rv['n']
            if n is not None and n <= 64:
                return Seq([('elem', v)] * n)
            return Top('repeat')
        return Top('rvalue ' + k)

    # ------------------------------------------------------------------ execution
    def call_fn(self, fname, args, st=None, pc=()):
        """Entry point: interpret local function `fname` on abstract args. Returns (retval, state)."""
        if st is None:
            st = State({}, pc)
        self.deadline = time.time() + self.budget_s
        # a rule speaks in plain integers (bitboards); a helper refactored to take / return a newtype around one integer
        # (`struct BitBoard(u64)`) is called with the wrapped value and its result is unwrapped again
        wrapped = False
        f = self.fns.get(fname)
        if f is not None and len(args) == f.get('argc'):
            args = list(args)
            for i, a in enumerate(args):
                nt = self._int_newtype(f['locals'][i + 1])
                if nt is not None and isinstance(a, BV):
                    args[i] = Struct(nt, (a,))
                    wrapped = True
        try:
            ret, st = self.call_local(fname, args, st)
        finally:
            self.deadline = None
        if f is not None and isinstance(ret, Struct) and len(ret.fields) == 1 and isinstance(ret.fields[0], (BV, HF)) \
                and self._int_newtype(f['locals'][0]) is not None and (wrapped or self.unwrap_newtype_results):
            ret = ret.fields[0]
        return ret, st

    def _int_newtype(self, ty):
        """the type name when `ty` is a local struct with exactly one field of an integer type"""
        ti = self.types.get(ty)
        if ti and ti.get('k') == 'adt' and not ti.get('enum') and ti.get('local') and len(ti['variants']) == 1 \
                and len(ti['variants'][0]['fields']) == 1:
            fti = self.types.get(ti['variants'][0]['fields'][0]) or {}
            if fti.get('k') == 'int':
                return ty
        return None

    def call_local(self, fname, args, st, targs=None):
        if fname in self.overrides:
            return self.overrides[fname](self, st, args)
        f = self.fns[fname]
        self.calls_seen[fname] = self.calls_seen.get(fname, 0) + 1
        memo_key = None
        if not any(self.has_mut_ref(a) for a in args):
            try:
                memo_key = (fname, tuple(targs or ()), tuple(self.snapshot(st, a) for a in args), tuple(id(c) for c in st.pc))
                hit = self.memo.get(memo_key)
                if hit is not None:
                    return hit, st
            except Undecided:
                memo_key = None
        fr = Frame(next(self.frame_counter), fname, f, False)
        fr.targs = targs
        if len(args) != f['argc']:
            raise Undecided('arity mismatch calling %s: %d vs %d' % (fname, len(args), f['argc']))
        for i, a in enumerate(args):
            st.store[(fr.id, i + 1)] = a
        entry_pc = st.pc
        out = self.exec_region(st, fr, 0, EXIT)
        if fr.escapes:
            # early returns taken inside loops: disjoint path conditions relative to the frame entry
            for pc_e, s_e in fr.escapes:
                cond = B.bigand(pc_e[len(entry_pc):]) if pc_e[:len(entry_pc)] == entry_pc else None
                if cond is None:
                    raise Undecided('early return with an unrelated path condition in %s' % fname)
                out = self.merge_states(cond, s_e, out, entry_pc)
        if out is None:
            return BOTTOM, None
        out.exited = False
        out.pc = entry_pc if not out.pc[:len(entry_pc)] == entry_pc else out.pc
        ret = out.store.get((fr.id, 0), UNIT)
        # free the frame
        for k in [k for k in out.store if k[0] == fr.id]:
            del out.store[k]
        if memo_key is not None and not self.has_ref(ret):
            self.memo[memo_key] = ret
        return ret, out

    def can_have_effect(self, v):
        if isinstance(v, FnItem):
            return True
        if isinstance(v, Ref):
            return v.mut
        if isinstance(v, Struct):
            if v.ty.startswith('closure:'):
                return True
            return any(self.can_have_effect(x) for x in v.fields if isinstance(x, V))
        if isinstance(v, Enum):
            return any(self.can_have_effect(x) for x in v.fields if isinstance(x, V))
        return False

    def has_mut_ref(self, v, depth=0):
        if isinstance(v, Ref):
            return v.mut
        if isinstance(v, (Struct, Enum)):
            return any(self.has_mut_ref(x, depth + 1) for x in v.fields if isinstance(x, V))
        if isinstance(v, Ite):
            return self.has_mut_ref(v.a) or self.has_mut_ref(v.b)
        return False

    def has_ref(self, v):
        if isinstance(v, Ref):
            return True
        if isinstance(v, (Struct, Enum)):
            return any(self.has_ref(x) for x in v.fields if isinstance(x, V))
        if isinstance(v, Ite):
            return self.has_ref(v.a) or self.has_ref(v.b)
        if isinstance(v, Seq):
            return any(self.has_ref(it[-1]) for it in v.items if isinstance(it[-1], V))
        return False

    def snapshot(self, st, v, depth=0):
        if depth > 12:
            raise Undecided('snapshot depth')
        if isinstance(v, Ref):
            return ('ref', self.snapshot(st, self.read_at(st, v.cell, v.path), depth + 1))
        if isinstance(v, Struct):
            return ('S', v.ty, tuple(self.snapshot(st, x, depth + 1) if isinstance(x, V) else x for x in v.fields))
        if isinstance(v, Enum):
            return ('E', v.var, tuple(self.snapshot(st, x, depth + 1) for x in v.fields))
        if isinstance(v, Ite):
            return ('I', id(v.c), self.snapshot(st, v.a, depth + 1), self.snapshot(st, v.b, depth + 1))
        return v

    def exec_region(self, st, fr, bb, stop):
        """Run from block bb until block `stop` is reached (not executed). Returns State or None (diverged)."""
        body = fr.fn
        blocks = body['blocks']
        ipd = self.ipdom(fr.fname, body)
        while True:
            if bb == stop:
                return st
            if bb == EXIT:
                return st
            self.fuel -= 1
            if self.fuel <= 0:
                raise Undecided('fuel exhausted in %s' % fr.fname)
            if (self.fuel & 255) == 0:
                now = time.time()
                if self.deadline is not None and now > self.deadline:
                    raise Undecided('analysis budget (%ds per entry point) exhausted in %s: too many data-dependent paths'
                                    % (self.budget_s, fr.fname))
                if GLOBAL_DEADLINE[0] is not None and now > GLOBAL_DEADLINE[0]:
                    raise Undecided('analysis budget of this check exhausted in %s' % fr.fname)
            blk = blocks[bb]
            self.cur_pc = st.pc
            self.cur_fn = fr.fname
            for s in blk['st']:
                if 'dst' in s:
                    dst = s['dst']
                    dty = body['locals'][dst['l']] if not dst['p'] else None
                    v = self.rvalue(st, fr, s['rv'], s.get('at'), dty)
                    self.write(st, fr.id, dst, v)
                elif 'setdiscr' in s:
                    raise Undecided('SetDiscriminant')
            t = blk['term']
            k = t['k']
            self.cur_pc = st.pc
            if k == 'goto':
                bb = t['t']
            elif k == 'return':
                st.exited = True
                return st
            elif k == 'unreachable':
                return None
            elif k == 'assert':
                c = self.operand(st, fr, t['c'])
                want = bool(t['expected'])
                key = (fr.fname, t['at'], t['msg'])
                ok = False
                if isinstance(c, BV) and c.w == 1:
                    bit = c.bits[0] if want else B.bnot(c.bits[0])
                    d = self.decide(bit, st.pc)
                    ok = d is True
                    if d is False:
                        self.asserts_bad[key] = 'always fails under %r' % (st.pc,)
                        return None
                    if not ok:
                        st.pc = st.pc + (bit,)
                if ok:
                    self.asserts_ok[key] = self.asserts_ok.get(key, 0) + 1
                else:
                    self.asserts_bad.setdefault(key, repr(c))
                bb = t['t']
            elif k == 'drop':
                bb = t['t']
            elif k == 'call':
                if (t.get('res') or {}).get('path', '').startswith('<linked_list::Iter<') and t['res']['path'].endswith('::next') \
                        and not getattr(fr, 'no_bit_loop', False):
                    nxt = self.try_list_loop(st, fr, bb, t)
                    if nxt is not None:
                        st, bb = nxt
                        continue
                st = self.do_call(st, fr, t)
                if isinstance(st, ForkReq):
                    fk = st
                    # join behind the branch that consumes the call result (the loop's `match next()`), not the
                    # call's own fall-through successor
                    j = t['t']
                    hops = 0
                    while j is not None and blocks[j]['term']['k'] in ('goto', 'call', 'assert', 'drop') and hops < 20:
                        j = blocks[j]['term'].get('t')
                        hops += 1
                    join = ipd[j] if (j is not None and blocks[j]['term']['k'] == 'switch') else EXIT
                    if join is None:
                        join = EXIT
                    # inside a loop the two branches meet again at the loop header (otherwise every conditional item would
                    # double the number of paths through the remaining iterations)
                    inner_, loops_ = self.loopinfo(body)
                    h_ = inner_.get(bb)
                    if h_ is not None and (join == EXIT or join not in loops_[h_]):
                        join = h_
                    forkpc = fk.st_yes.pc
                    d = self.decide(fk.cond, forkpc)
                    sa = sb = None
                    if d is not False:
                        fk.st_yes.pc = forkpc + (fk.cond,)
                        self.write(fk.st_yes, fr.id, t['dst'], fk.ret)
                        sa = self.exec_region(fk.st_yes, fr, t['t'], join)
                    if d is not True:
                        fk.st_no.pc = forkpc + (B.bnot(fk.cond),)
                        sb = self.exec_region(fk.st_no, fr, bb, join)
                    if join != EXIT:
                        if sa is not None and sa.exited:
                            fr.escapes.append((sa.pc, sa))
                            sa = None
                        if sb is not None and sb.exited:
                            fr.escapes.append((sb.pc, sb))
                            sb = None
                    st = self.merge_states(fk.cond, sa, sb, forkpc)
                    if st is None:
                        return None
                    if join == EXIT:
                        st.exited = True
                        return st
                    bb = join
                    continue
                if st is None:
                    return None
                if t['t'] is None:
                    return None
                bb = t['t']
            elif k == 'switch':
                d = self.operand(st, fr, t['d'])
                if isinstance(d, BV) and d.known():
                    dv = d.uval()
                    nxt = t['else']
                    for v, tgt in t['ts']:
                        if int(v) == dv:
                            nxt = tgt
                            break
                    bb = nxt
                    continue
                if isinstance(d, Top):
                    raise Undecided('switch on Top(%s) in %s at %s' % (d.why, fr.fname, t.get('at')))
                if isinstance(d, BV) and self.bit_loops and not getattr(fr, 'no_bit_loop', False):
                    nxt = self.try_bit_loop(st, fr, bb, t, d)
                    if nxt is not None:
                        st, bb = nxt
                        continue
                if isinstance(d, Term):
                    join = self.join_for(fr, bb, ipd)
                    st = self.fork(st, fr, d, t, join)
                    if st is None:
                        return None
                    if st.exited:
                        return st
                    bb = join
                    continue
                if not isinstance(d, BV):
                    raise Undecided('switch on %r in %s' % (d, fr.fname))
                join = self.join_for(fr, bb, ipd)
                st = self.fork(st, fr, d, t, join)
                if st is None:
                    return None
                if st.exited:
                    return st
                bb = join
            else:
                raise Undecided('terminator %s in %s' % (k, fr.fname))

    # ------------------------------------------------------------------ loops over the set bits of a symbolic bitboard
    def try_bit_loop(self, st, fr, h, t, d):
        """`while r != 0 { i = lowest (or highest) set bit of r; ...; clear that bit }` with r symbolic: after checking, for
        every bit position, that one iteration clears exactly the extreme set bit of r, the loop is executed as
        `for j in 0..64 { if r0[j] { body with r = r0 restricted to the bits not yet visited } }` and the per-bit results are
        merged under the bits of r0.  Returns (state, exit block) or None when the loop is not of this kind."""
        body = fr.fn
        inner, loops = self.loopinfo(body)
        if h not in loops or len(t['ts']) != 1:
            return None
        L = loops[h]
        targets = [int(t['ts'][0][0])], [t['ts'][0][1], t['else']]
        inside = [x for x in targets[1] if x in L]
        outside = [x for x in targets[1] if x not in L]
        if len(inside) != 1 or len(outside) != 1:
            return None
        bit = d.bits[0]
        # the loop-carried 64-bit value whose non-zero test is the loop condition
        cand = [c for c, v in st.store.items() if c[0] == fr.id and isinstance(v, BV) and v.w == 64 and not v.known()
                and self.nonzero_bit(v) in (bit, B.bnot(bit))]
        if not cand:
            return None
        latches = [u for u in L if h in successors(body['blocks'][u]['term'])]
        if any(body['blocks'][u]['term']['k'] != 'goto' for u in latches):
            return None
        key = (fr.fname, h)
        ck = self._bit_loop_cache.get(key)
        if ck is None:
            N = len(body['blocks'])
            blocks2 = list(body['blocks'])
            for u in latches:
                blk = dict(blocks2[u])
                tt = dict(blk['term'])
                tt['t'] = N
                blk['term'] = tt
                blocks2[u] = blk
            blocks2.append({'st': [], 'term': {'k': 'return'}})
            body2 = dict(body)
            body2['blocks'] = blocks2
            ck = {'body2': body2, 'N': N, 'order': None}
            self._bit_loop_cache[key] = ck
        body2 = ck['body2']
        fr2 = Frame(fr.id, fr.fname, body2, False)
        fr2.no_bit_loop = True
        r0 = None
        rc = None
        for c in cand:
            # the loop variable is the one a single iteration changes; copies made in the header hold the same bits
            r0 = st.store[c]
            rc = c
            break
        same = [c for c in cand if all(x is y for x, y in zip(st.store[c].bits, r0.bits))]

        def one(state, rbits, guard):
            s2 = State(dict(state.store), state.pc + ((guard,) if guard is not C1 else ()))
            for c in same:
                s2.store[c] = BV(rbits)
            out = self.exec_region(s2, fr2, h, EXIT)
            if out is None or fr2.escapes:
                raise Undecided('an iteration of the bit loop in %s diverges or returns from the function' % fr.fname)
            if (fr.id, 0) in out.store and (fr.id, 0) not in state.store:
                raise Undecided('the bit loop in %s returns from inside an iteration' % fr.fname)
            out.exited = False
            return out

        def lemma(low):
            for i in range(64):
                if low:
                    bits = [C0] * i + [C1] + [B.lit(('bitloop', 'h%d' % j)) for j in range(i + 1, 64)]
                else:
                    bits = [B.lit(('bitloop', 'h%d' % j)) for j in range(i)] + [C1] + [C0] * (63 - i)
                try:
                    out = one(st, bits, C1)
                except Undecided:
                    return False
                want = list(bits)
                want[i] = C0
                changed = [c for c in same if not all(x is y for x, y in zip(out.store.get(c, BV(bits)).bits, bits))]
                if not changed:
                    return False
                if not any(isinstance(out.store.get(c), BV) and all(x is y for x, y in zip(out.store[c].bits, want)) for c in changed):
                    return False
            return True
        if ck['order'] is None:
            saved = (dict(self.asserts_ok), dict(self.asserts_bad), dict(self.panics), list(self.events))
            ck['order'] = 'low' if lemma(True) else ('high' if lemma(False) else 'no')
            self.asserts_ok.clear(); self.asserts_ok.update(saved[0])
            self.asserts_bad.clear(); self.asserts_bad.update(saved[1])
            self.panics.clear(); self.panics.update(saved[2])
            self.events[:] = saved[3]
        if ck['order'] == 'no':
            return None
        cur = st
        basepc = st.pc
        idxs = range(64) if ck['order'] == 'low' else range(63, -1, -1)
        for j in idxs:
            g = r0.bits[j]
            if g is C0:
                continue
            if ck['order'] == 'low':
                rbits = [C0] * j + [C1] + list(r0.bits[j + 1:])
            else:
                rbits = list(r0.bits[:j]) + [C1] + [C0] * (63 - j)
            dec = self.decide(g, cur.pc)
            if dec is False:
                continue
            out = one(cur, rbits, g if dec is not True else C1)
            if dec is True:
                cur = State(out.store, basepc)
            else:
                cur = self.merge_states(g, out, State(dict(cur.store), basepc), basepc)
                cur.pc = basepc
        for c in same:
            cur.store[c] = BV.const(0, 64)
        self.ev('bit-loop', fr.fname, t.get('at'), ck['order'])
        return cur, outside[0]

    # ------------------------------------------------------------------ loops over the (opaque) history list
    def try_list_loop(self, st, fr, bb, t):
        """`for x in history.iter() { .. }` over a list this analysis knows nothing about, written by hand instead of through
        `filter(..).count()`.  Handled when the body is a finite-state scan driven by ONE predicate p(x) on the element:
          - an iteration with p false leaves every loop-carried local unchanged and does not leave the loop;
          - iterations with p true step the (concrete) loop-carried locals s0 -> s1 -> s2 .., and the k-th of them may return
            from the function.
        Then only the NUMBER n of elements satisfying p matters: the function returns (with the k-th iteration's return state)
        iff n >= k, otherwise the loop ends with the locals of s_n.  n is the same abstract count term, and `n >= j` the same
        atom, that `filter(p).count() >= j` produces - the repetition rules see one canonical "seen j times" predicate.
        Returns (state, block to continue at) or None when the loop is not of this kind."""
        from .summaries import some, none, OPT
        body = fr.fn
        inner, loops = self.loopinfo(body)
        h = inner.get(bb)
        if h is None or t.get('dst') is None or t['dst']['p']:
            return None
        L = loops[h]
        if t['t'] not in L:
            return None
        latches = [u for u in L if h in successors(body['blocks'][u]['term'])]
        if not latches or any(body['blocks'][u]['term']['k'] != 'goto' for u in latches):
            return None
        r0 = self.operand(st, fr, t['a'][0])
        if not isinstance(r0, Ref):
            return None
        try:
            itv = self.read_at(st, r0.cell, r0.path)
        except Undecided:
            return None
        if not (isinstance(itv, Struct) and itv.ty.startswith('linked_list::Iter')):
            return None
        ti = self.tyinfo(itv.ty)
        elem_ty = ti['targs'][-1] if ti and ti.get('targs') else None
        ty = body['locals'][t['dst']['l']]
        key = (fr.fname, bb)
        ck = self._bit_loop_cache.get(('list',) + key)
        if ck is None:
            N = len(body['blocks'])
            marker = len(body['locals'])
            blocks2 = list(body['blocks'])
            for u in latches:
                blk = dict(blocks2[u])
                tt = dict(blk['term'])
                tt['t'] = N
                blk['term'] = tt
                blocks2[u] = blk
            blocks2.append({'st': [{'dst': {'l': marker, 'p': []}, 'rv': {'k': 'use', 'o': {'k': 'int', 'ty': 'usize', 'v': '1', 'name': None}}}],
                            'term': {'k': 'return'}})
            body2 = dict(body)
            body2['blocks'] = blocks2
            body2['locals'] = list(body['locals']) + ['usize']
            ck = {'body2': body2, 'marker': marker}
            self._bit_loop_cache[('list',) + key] = ck
        body2, marker = ck['body2'], ck['marker']
        elem_cell = ('static', 'histelem')
        elem = self.fresh('hist.elem', elem_ty)
        self.elem_preds = []
        carried = [c for c in st.store if c[0] == fr.id and c != r0.cell]
        outside0 = {c: v for c, v in st.store.items() if c[0] != fr.id and c[0] != 'static'}

        def one(state, forced):
            s2 = State(dict(state.store), state.pc + tuple(forced))
            s2.store[elem_cell] = elem
            self.write(s2, fr.id, t['dst'], some(Ref(elem_cell), ty))
            fr2 = Frame(fr.id, fr.fname, body2, False)
            fr2.no_bit_loop = True
            out = self.exec_region(s2, fr2, t['t'], EXIT)
            if out is None or fr2.escapes:
                raise Undecided('an iteration of the list loop in %s diverges' % fr.fname)
            for c, v in out.store.items():
                if c[0] != fr.id and c[0] != 'static' and outside0.get(c) is not v and outside0.get(c) != v:
                    raise Undecided('the list loop in %s has effects outside its own locals' % fr.fname)
            latched = (fr.id, marker) in out.store
            out.store.pop((fr.id, marker), None)
            return out, latched
        saved = (dict(self.asserts_ok), dict(self.asserts_bad), dict(self.panics), list(self.events))
        try:
            try:
                one(st, ())                        # discovers the predicate(s) on the element
            except Undecided as e:
                self._last_preds = 'probe: %s' % e
                return None
            preds = []
            for b_ in self.elem_preds:
                if b_ not in preds and B.bnot(b_) not in preds:
                    preds.append(b_)
            self._last_preds = preds
            if len(preds) != 1:
                return None
            p = preds[0]
            try:
                out_no, latched = one(st, (B.bnot(p),))
                if not latched or any(out_no.store.get(c) != st.store[c] for c in carried):
                    return None
                states = [st]
                ret_state = None
                for k in range(1, 5):
                    out_k, latched = one(states[-1], (p,))
                    if not latched:
                        ret_state = out_k
                        break
                    if any(not self._concrete(out_k.store.get(c)) for c in carried if out_k.store.get(c) != states[-1].store[c]):
                        return None
                    nxt = State(dict(states[-1].store), st.pc)
                    for c in carried:
                        nxt.store[c] = out_k.store[c]
                    if all(nxt.store[c] == states[-1].store[c] for c in carried):
                        break                      # fixpoint: further matches change nothing
                    states.append(nxt)
                else:
                    return None
            except Undecided:
                return None
        finally:
            self.asserts_ok.clear(); self.asserts_ok.update(saved[0])
            self.asserts_bad.clear(); self.asserts_bad.update(saved[1])
            self.panics.clear(); self.panics.update(saved[2])
            self.events[:] = saved[3]
            self.elem_preds = None
        cnt = Term('count', (self.snapshot(st, itv), boolv(p)), 64)

        def ge(j):
            return self.binop('Ge', cnt, BV.const(j, 64), fr.fname, t.get('at')).bits[0]
        cur = State(dict(st.store), st.pc)
        for j in range(1, len(states)):
            g = ge(j)
            for c in carried:
                if states[j].store[c] != cur.store[c]:
                    cur.store[c] = self.merge(g, states[j].store[c], cur.store[c])
        if ret_state is not None:
            g = ge(len(states))
            rs = State(dict(ret_state.store), st.pc + (g,))
            rs.exited = True
            fr.escapes.append((rs.pc, rs))
            cur.pc = st.pc + (B.bnot(g),)
        self.write(cur, fr.id, t['dst'], none(ty))
        self.ev('list-loop', fr.fname, t.get('at'), len(states))
        return cur, t['t']

    @staticmethod
    def _concrete(v):
        if isinstance(v, BV):
            return v.known()
        if isinstance(v, (Struct, Enum)):
            return all(Interp._concrete(x) for x in v.fields if isinstance(x, V))
        return isinstance(v, Ref) or v is None or not isinstance(v, V)

    def deref_all(self, st, a):
        """follow references (&&T ..) to the value, as far as the store knows them"""
        n = 0
        while isinstance(a, Ref) and n < 4:
            try:
                a = self.deref(st, a)
            except Undecided:
                break
            n += 1
        return a

    def join_for(self, fr, bb, ipd):
        """Join block of a data-dependent branch: its immediate post-dominator, or - when that lies outside the
        innermost enclosing loop (an early `return` / `break` makes the function exit the only common successor) -
        the loop header, so that iterations are not multiplied by the number of earlier early-exit tests."""
        join = ipd[bb]
        if join is None:
            join = EXIT
        inner, loops = self.loopinfo(fr.fn)
        h = inner.get(bb)
        if h is None and fr.fname in self.late_join:
            # path-sensitive refinement of one function: branches outside loops are followed separately to the function's exit
            return EXIT
        if h is not None and h != bb and (join == EXIT or join not in loops[h]):
            return h
        return join

    def eq_const_bit(self, d, v):
        if isinstance(d, Term):
            lo, hi = self.rng(d)
            if v < lo or v > hi:
                return C0
            if lo == hi == v:
                return C1
            return self.cmp_atom('Eq', d, BV.const(v, d.w))
        if d.w > 8 and sum(1 for b in d.bits if b.kind != 'c') > B.K:
            # a wide symbolic value compared with a constant (`match bits { MASK_A => .., MASK_B => .. }`): the same predicate, and
            # the same atom, as `bits == MASK_A`
            e = self.eq_bit(d, BV.const(v, d.w))
            if e is not None:
                return e
        r = C1
        for i, b in enumerate(d.bits):
            want = (v >> i) & 1
            r = B.band(r, b if want else B.bnot(b))
            if r is C0:
                break
        return r

    def fork(self, st, fr, d, t, join):
        # group targets
        conds = []
        seen_any = C0
        for v, tgt in t['ts']:
            c = self.eq_const_bit(d, int(v))
            conds.append((c, tgt))
            seen_any = B.bor(seen_any, c)
        conds.append((B.bnot(seen_any), t['else']))
        # merge duplicate targets
        bytgt = {}
        order = []
        for c, tgt in conds:
            if tgt in bytgt:
                bytgt[tgt] = B.bor(bytgt[tgt], c)
            else:
                bytgt[tgt] = c
                order.append(tgt)
        forkpc = st.pc
        feasible = []
        for tgt in order:
            c = bytgt[tgt]
            dec = self.decide(c, forkpc)
            if dec is False:
                continue
            feasible.append((c, tgt, dec))
        if not feasible:
            return None
        for c, tgt, dec in feasible:
            if dec is True:
                return self.exec_region(st, fr, tgt, join)
        # skip trivially unreachable else-blocks (`unreachable` terminators)
        results = []
        for c, tgt, dec in feasible:
            blk = fr.fn['blocks'][tgt]
            if blk['term']['k'] == 'unreachable' and not blk['st']:
                continue
            s2 = State(dict(st.store), forkpc + (c,))
            r = self.exec_region(s2, fr, tgt, join)
            results.append((c, r))
        if not results:
            return None
        if join != EXIT:
            # branches that left the region by returning from the function are parked as escapes of this frame
            kept = []
            for c, r in results:
                if r is not None and r.exited:
                    fr.escapes.append((r.pc, r))
                    kept.append((c, None))
                else:
                    kept.append((c, r))
            results = kept
        # fold: last as default
        acc_c, acc = results[-1]
        out = acc
        if len(results) == 1:
            if out is not None:
                out.pc = forkpc + (acc_c,)
            return out
        all_exited = all(r is None or r.exited for _c, r in results) and any(r is not None for _c, r in results)
        for c, r in reversed(results[:-1]):
            out = self.merge_states(c, r, out, forkpc)
        if out is not None:
            out.pc = out.pc if out.pc[:len(forkpc)] == forkpc else forkpc
            out.exited = all_exited and join == EXIT
        return out

    # ------------------------------------------------------------------ calls
    def do_call(self, st, fr, t):
        res = t.get('res')
        if res and getattr(fr, 'targs', None) and '/#' in (res.get('args') or ''):
            # inside an instance of a generic local function: `T/#0` in a callee's type arguments is this instance's argument
            sub = _subst_targs(res['args'], fr.targs)
            if sub != res['args']:
                t = dict(t)
                res = dict(res, args=sub)
                t['res'] = res
        path = (res or {}).get('path') or (t['f'].get('path') if t['f'].get('k') == 'fn' else None)
        args = [self.operand(st, fr, a) for a in t['a']]
        if path is None:
            # call through a fn pointer / closure value: decided when the pointer is a known fn item
            fv = self.operand(st, fr, t['f'])
            if isinstance(fv, Ref):
                fv = self.deref_all(st, fv)
            if isinstance(fv, FnItem) or (isinstance(fv, Struct) and fv.ty.startswith('closure:')):
                ret, st2 = self.call_closure(st, fv, args)
                if st2 is None or t['t'] is None or ret is BOTTOM:
                    return None
                self.write(st2, fr.id, t['dst'], ret)
                return st2
            raise Undecided('indirect call %r' % (fv,))
        self.calls_seen[path] = self.calls_seen.get(path, 0) + 1
        self.exec_sites.add((fr.fname, t.get('at'), path))
        if self.watch:
            for suf, sink in self.watch.items():
                if path == suf or path.endswith('::' + suf):
                    sink.append((fr.fname, [self.deref_all(st, a) for a in args]))
        scripted = self.site_script.get(id(t)) if self.site_script else None
        if scripted is not None:
            # a rule drives this call site with prepared results (loop-induction steps over an opaque iterator); the position
            # in the script is part of the state, so that every explored path sees the whole script
            cell = ('static', 'script:%d' % id(t))
            n = st.store.get(cell)
            n = n.uval() if isinstance(n, BV) and n.known() else 0
            if n >= len(scripted):
                raise Undecided('scripted call site exhausted')
            st.store[cell] = BV.const(n + 1, 32)
            ret, st2 = scripted[n], st
        elif path in self.local_summaries and path not in self.no_summary:
            ret, st2 = self.local_summaries[path](self, st, fr, t, args)
        elif path in self.fns and self.fns[path].get('derived') and (self.fns[path].get('trait_impl') or '').endswith('PartialEq') \
                and path.endswith(('::eq', '::ne')) and len(args) == 2:
            # a derived PartialEq is structural equality: decided on the two values (also when one of them is an opaque token,
            # whose fields a field-by-field walk of the derived body could not name)
            from .summaries import _cmp_values
            ret, st2 = _cmp_values(self, st, 'eq' if path.endswith('::eq') else 'ne', args[0], args[1]), st
        elif path in self.fns and (res is None or res.get('local', True)):
            if self.fns[path].get('kind') == 'Closure' and len(args) == 2 and isinstance(args[1], Struct) \
                    and args[1].ty in ('tuple', '()') and self.fns[path]['argc'] == 1 + len(args[1].fields):
                # direct call of a closure: the caller passes (closure, (args,)); the body takes them spread
                args = [args[0]] + list(args[1].fields)
            ct = None
            if self.fns[path].get('generic') and res and res.get('args') and '/#' not in res['args']:
                ct = _split_targs(res['args'])
            ret, st2 = self.call_local(path, args, st, targs=ct)
        else:
            h = self.summaries.get(path)
            if h is None and res and res.get('trait'):
                # a specialised impl of a trait method (e.g. slice::Iter::for_each): use the trait method's summary
                h = self.summaries.get('%s::%s' % (res['trait'], path.rsplit('::', 1)[-1]))
            if h is None:
                h = self.summary_by_prefix(path)
            if h is None:
                self.unknown_calls[path] = self.unknown_calls.get(path, 0) + 1
                if t['t'] is None:
                    self.panics[(fr.fname, t['at'], path)] = st.pc
                    return None
                if self.strict_unknown and any(self.can_have_effect(a) for a in args):
                    raise Undecided('external callee %s has no summary and receives a closure or a mutable reference: its '
                                    'effect on the analysed state is unknown' % path)
                d = t['dst']
                dty = fr.fn['locals'][d['l']] if not d['p'] else None
                ret, st2 = self.fresh_value('ret%d' % next(self.frame_counter), dty), st
            else:
                ret, st2 = h(self, st, fr, t, args)
        if isinstance(ret, ForkReq):
            return ret
        if st2 is None or ret is BOTTOM:
            if ret is BOTTOM or t['t'] is None:
                self.panics.setdefault((fr.fname, t['at'], path), st.pc)
            return None
        if t['t'] is not None:
            self.write(st2, fr.id, t['dst'], ret)
        return st2

    no_summary = frozenset()

    def summary_by_prefix(self, path):
        from . import summaries
        for pre, h in summaries.PREFIX:
            if path.startswith(pre):
                return h
        return None

    def call_closure(self, st, clo, args):
        """Call a closure value (Struct closure:path) or fn item with positional args."""
        clo = self.deref(st, clo) if isinstance(clo, Ref) else clo
        if isinstance(clo, FnItem):
            if clo.path in self.fns:
                return self.call_local(clo.path, args, st)
            h = self.summaries.get(clo.path) or self.summary_by_prefix(clo.path)
            if h is None:
                # a tuple-variant / tuple-struct constructor used as a function (`.map(Action::Place)`)
                parent, _, last = clo.path.rpartition('::')
                ti = self.types.get(parent)
                if ti and ti.get('k') == 'adt':
                    for k_, v_ in enumerate(ti['variants']):
                        if v_['name'] == last and len(v_['fields']) == len(args):
                            return (Enum(parent, k_, tuple(args)) if ti.get('enum') else Struct(parent, tuple(args))), st
                ti = self.types.get(clo.path)
                if ti and ti.get('k') == 'adt' and not ti.get('enum') and len(ti['variants'][0]['fields']) == len(args):
                    return Struct(clo.path, tuple(args)), st
                return Top('unknown fn item ' + clo.path), st
            return h(self, st, None, {'res': {'path': clo.path}, 'a': [], 'at': None, 't': 0}, args)
        if isinstance(clo, Struct) and clo.ty.startswith('closure:'):
            path = clo.ty[len('closure:'):]
            f = self.fns.get(path)
            if f is None:
                raise Undecided('closure body %s not found' % path)
            selfty = f['locals'][1]
            if selfty.startswith('&'):
                cell = ('static', 'clo:%d' % next(self.frame_counter))
                st.store[cell] = clo
                selfarg = Ref(cell, (), selfty.startswith('&mut'))
            else:
                selfarg = clo
            ret, st2 = self.call_local(path, [selfarg] + list(args), st)
            return ret, st2
        raise Undecided('call of non-closure %r' % (clo,))


def _split_targs(s):
    """'[a, b<c, d>, e]' -> ['a', 'b<c, d>', 'e']"""
    s = s.strip()
    if s.startswith('[') and s.endswith(']'):
        s = s[1:-1]
    out, depth, cur = [], 0, ''
    for ch in s:
        if ch in '<([':
            depth += 1
        elif ch in '>)]':
            depth -= 1
        if ch == ',' and depth == 0:
            out.append(cur.strip())
            cur = ''
        else:
            cur += ch
    if cur.strip():
        out.append(cur.strip())
    return out


def _subst_targs(args, targs):
    import re
    def rep(m):
        k = int(m.group(1))
        return targs[k] if k < len(targs) else m.group(0)
    return re.sub(r'[A-Za-z_][A-Za-z0-9_]*/#(\d+)', rep, args)


class Frame(object):
    __slots__ = ('id', 'fname', 'fn', 'is_promoted', 'escapes', 'no_bit_loop', 'targs')

    def __init__(self, id_, fname, fn, is_promoted):
        self.id, self.fname, self.fn, self.is_promoted = id_, fname, fn, is_promoted
        self.escapes = []
        self.no_bit_loop = False
        self.targs = None         # type arguments of this instance of a generic local function (strings), if known
