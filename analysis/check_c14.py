from . import rules_c03, inputs
from spec import geometry as G


def run(ctx, prog, facts, tier):
    I = inputs.make_interp(prog, fuel=5000000)
    for mv in [(G.sq('d', 4), 'Up')] + ([] if tier == 'quick' else [(G.sq('a', 1), 'Right'), (G.sq('f', 4), 'Down')]):
        rules_c03.check_recorded_boards(ctx, prog, I, mv)
    ctx.exhaustive = True
    ctx.assumptions += ['boards are compared as abstract values (8 bitboards of named input bits): equality is identity of every bit']
    return ('Token-exact comparison of the recorded-board list after each step and of piece_board_for_step(i) for all '
            '0 <= i <= k <= 3, by abstract interpretation with distinct symbolic boards per step.',
            ['factgen MIR export', 'std summaries'])
