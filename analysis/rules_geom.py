"""F: constant-geometry rules, and C01.2 neighbourhood footprints of the bitboard helpers."""
from . import bits as B
from .bits import C0, C1
from .values import BV, Struct, Enum, Ref, TRUE, FALSE
from .mai import State, Undecided
from . import inputs
from .common import proj, fmt_deps, fmt_lits, real_lits
from spec import geometry as G

CONSTS = [
    ('LEFT_COLUMN_MASK', G.LEFT_COLUMN, 'file a'),
    ('RIGHT_COLUMN_MASK', G.RIGHT_COLUMN, 'file h'),
    ('TOP_ROW_MASK', G.TOP_ROW, 'rank 8'),
    ('BOTTOM_ROW_MASK', G.BOTTOM_ROW, 'rank 1'),
    ('P1_PLACEMENT_MASK', G.GOLD_HOME, 'ranks 1-2'),
    ('P2_PLACEMENT_MASK', G.SILVER_HOME, 'ranks 7-8'),
    ('LAST_P1_PLACEMENT_MASK', G.LAST_GOLD_PLACEMENT, 'h1'),
    ('LAST_P2_PLACEMENT_MASK', G.LAST_SILVER_PLACEMENT, 'h7'),
    ('TRAP_MASK', G.TRAP_MASK, 'c3 f3 c6 f6'),
    ('P1_OBJECTIVE_MASK', G.GOLD_GOAL, 'rank 8'),
    ('P2_OBJECTIVE_MASK', G.SILVER_GOAL, 'rank 1'),
    ('BOARD_WIDTH', 8, '8'),
    ('BOARD_HEIGHT', 8, '8'),
]


def bits_names(m):
    return ' '.join(G.name(i) for i in range(64) if (m >> i) & 1)


def check_constants(ctx, prog, which=None, rule='F.CONST'):
    ctx.rule(rule, 'named mask constants equal their geometric definition (bit i = file i mod 8, rank 8 - i div 8)')
    n = 0
    for name, want, desc in CONSTS:
        if which is not None and name not in which:
            continue
        got = prog.const_int(name)
        if got is None:
            ctx.anchor('constant ' + name, False)
            continue
        n += 1
        ok = got == want
        ctx.ob('%s == %s' % (name, desc), ok, nontrivial=True, sample=(name == 'TRAP_MASK'))
        if not ok:
            extra = bits_names(got & ~want) if want > 64 else got
            missing = bits_names(want & ~got) if want > 64 else want
            ctx.finding(rule, 'const ' + name, 'value',
                        '%s should be %s; extra squares: [%s], missing squares: [%s]' % (name, desc, extra, missing))
    return n


def check_traps_nonadjacent(ctx, prog):
    tm = prog.const_int('TRAP_MASK')
    if tm is None:
        return
    traps = [i for i in range(64) if (tm >> i) & 1]
    ok = all(n not in traps for t in traps for n in G.neighbours(t))
    ctx.ob('trap squares pairwise non-adjacent (one removal round is a fixpoint)', ok)
    if not ok:
        ctx.finding('F.TRAPS', 'const TRAP_MASK', 'adjacent', 'two trap squares are adjacent')


def dirref(I, st, prog, d):
    return inputs.ref_to(I, st, 'dir' + d, inputs.direction(prog, d))


def check_helper_footprints(ctx, prog, I, rule='FOOT'):
    """C01.2: influence / support / directional shifts, all 64 output bits, 4 directions."""
    ctx.rule(rule + '.influence', 'influenced_squares(x)[i] depends exactly on x at the orthogonal neighbours of i')
    ctx.rule(rule + '.support', 'supported_pieces(x)[i] depends exactly on x[i] and x at the neighbours of i, and '
                                'requires x[i]')
    ctx.rule(rule + '.shift', 'shift_pieces_in_direction / _opp_direction copy bit i-delta(d) / i+delta(d) exactly, '
                              'K0 off-board (no file wrap); can_move_in_direction(d)[i] is "square i+delta(d) empty"')
    x = BV.var('x')
    found = 0
    fn = prog.one('influenced_squares')
    if _opt(ctx, 'influenced_squares', fn):
        found += 1
        r, _ = I.call_fn(fn, [x])
        for i in range(64):
            want = {('x', n) for n in G.neighbours(i)}
            got = B.deps(r.bits[i])
            ok = got == want
            ctx.ob('influenced_squares bit %s: D=%s' % (G.name(i), fmt_deps(got)), ok, sample=(i == 18))
            if not ok:
                ctx.finding(rule + '.influence', fn, G.name(i),
                            'influence of square %s: depends on %s, expected %s (missing %s, unexpected %s)'
                            % (G.name(i), fmt_deps(got), fmt_deps(want), fmt_deps(want - got), fmt_deps(got - want)))
    fn = prog.one('supported_pieces')
    if _opt(ctx, 'supported_pieces', fn):
        found += 1
        r, _ = I.call_fn(fn, [x])
        for i in range(64):
            want = {('x', i)} | {('x', n) for n in G.neighbours(i)}
            got = B.deps(r.bits[i])
            ok = got == want and ((('x', i), True) in B.must(r.bits[i]))
            ctx.ob('supported_pieces bit %s: D=%s M=%s' % (G.name(i), fmt_deps(got), fmt_lits(real_lits(r.bits[i]))),
                   ok, sample=(i == 50))
            if not ok:
                ctx.finding(rule + '.support', fn, G.name(i),
                            'support of square %s: depends on %s, expected %s (missing %s, unexpected %s); must-literals %s'
                            % (G.name(i), fmt_deps(got), fmt_deps(want), fmt_deps(want - got), fmt_deps(got - want),
                               fmt_lits(real_lits(r.bits[i]))))
    for fname, sign in (('shift_pieces_in_direction', -1), ('shift_pieces_in_opp_direction', +1)):
        fn = prog.one(fname)
        if not _opt(ctx, fname, fn):
            continue
        found += 1
        for d in inputs.DIRS:
            st = State({})
            r, _ = I.call_fn(fn, [x, dirref(I, st, prog, d)], st)
            dd = d if sign == -1 else G.OPPOSITE[d]
            for i in range(64):
                # result bit i comes from the square s with step(s, dd) == i
                src = G.step(i, G.OPPOSITE[dd])
                want = B.lit(('x', src)) if src is not None else C0
                ok = r.bits[i] is want
                ctx.ob('%s(%s) bit %s = %s' % (fname, d, G.name(i), 'x[%s]' % G.name(src) if src is not None else '0'),
                       ok, sample=(i == 7 and d == 'Right'))
                if not ok:
                    ctx.finding(rule + '.shift', fn, '%s:%s' % (d, G.name(i)),
                                '%s(x, %s): bit %s is %r, expected %s' % (fname, d, G.name(i), r.bits[i],
                                                                         ('copy of x[%s]' % G.name(src)) if src is not None else 'constant 0 (off-board source)'))
    fn = prog.one('shift_in_direction')
    if _opt(ctx, 'shift_in_direction', fn):
        found += 1
        for d in inputs.DIRS:
            st = State({})
            r, _ = I.call_fn(fn, [x, dirref(I, st, prog, d)], st)
            for i in range(64):
                src = i - G.DELTA[d]
                on_board_src = G.step(i, G.OPPOSITE[d])
                want = B.lit(('x', src)) if 0 <= src < 64 else C0
                # the unmasked shift is only ever applied to one piece that is allowed to move: what matters is that
                # every on-board move lands on the right square
                if on_board_src is None:
                    continue
                ok = r.bits[i] is want
                ctx.ob('shift_in_direction(%s) bit %s = x[%s]' % (d, G.name(i), G.name(src)), ok)
                if not ok:
                    ctx.finding(rule + '.shift', fn, '%s:%s' % (d, G.name(i)),
                                'shift_in_direction(x, %s): bit %s is %r, expected copy of x[%s]'
                                % (d, G.name(i), r.bits[i], G.name(src)))
    fn = prog.one('can_move_in_direction')
    if _opt(ctx, 'can_move_in_direction', fn):
        found += 1
        for d in inputs.DIRS:
            st = State({})
            pb = inputs.ref_to(I, st, 'pb', inputs.board(prog))
            r, _ = I.call_fn(fn, [dirref(I, st, prog, d), pb], st)
            for i in range(64):
                dst = G.step(i, d)
                want = B.lit(('all', dst), False) if dst is not None else C0
                ok = r.bits[i] is want
                ctx.ob('can_move_in_direction(%s) bit %s = %s' % (d, G.name(i), ('-all[%s]' % G.name(dst)) if dst is not None else '0'),
                       ok, sample=(i == 0 and d == 'Up'))
                if not ok:
                    ctx.finding(rule + '.shift', fn, '%s:%s' % (d, G.name(i)),
                                'can_move_in_direction(%s): bit %s is %r, expected %s'
                                % (d, G.name(i), r.bits[i],
                                   ('"%s is empty"' % G.name(dst)) if dst is not None else 'constant 0 (no square there)'))
    return found


def _opt(ctx, name, fn):
    """A private helper may be inlined or removed by a refactoring: its own rule is then skipped (the generator-level rules of
    C01.5 / C02 / LT decide the behaviour on all 64 squares without it) and the fact is recorded."""
    if fn is None:
        ctx.notes.append('helper %s is not present in this tree: its per-helper geometry rule is skipped' % name)
        ctx.analysed.setdefault('helpers_absent', []).append(name)
        return False
    return True
