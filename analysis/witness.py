"""Compile-pass / compile-fail witness crates (DESIGN 2.3). Type-checking only: nothing is run."""
import os
import shutil
import subprocess

from .facts import VERIF, REPO, CACHE


def cargo_check(crate, toolchain=None, want_error=None):
    """Returns (ok, detail). ok means: compiled (want_error None) or failed with that error code."""
    src = os.path.join(VERIF, 'witness', crate)
    lock = os.path.join(REPO, 'Cargo.lock')
    tgt = os.path.join(CACHE, 'witness-target')
    os.makedirs(tgt, exist_ok=True)
    # build from a scratch copy so that the path dependency follows VF_REPO (selftest on scratch trees)
    # (one copy per process: several checks may run at the same time)
    cdir = os.path.join(CACHE, 'witness-src', '%s-%d' % (crate, os.getpid()))
    shutil.rmtree(cdir, ignore_errors=True)
    os.makedirs(os.path.dirname(cdir), exist_ok=True)
    shutil.copytree(src, cdir, ignore=shutil.ignore_patterns('target', 'Cargo.lock'))
    toml = open(os.path.join(cdir, 'Cargo.toml')).read()
    if 'arimaa' in toml:
        open(os.path.join(cdir, 'Cargo.toml'), 'w').write(toml.replace('"/repo"', '"%s"' % REPO))
        if os.path.exists(lock):
            # resolve dependencies exactly as /repo does (offline: the cache holds those versions)
            shutil.copy(lock, os.path.join(cdir, 'Cargo.lock'))
    env = dict(os.environ, CARGO_NET_OFFLINE='true', CARGO_TARGET_DIR=tgt)
    env.pop('RUSTC_WORKSPACE_WRAPPER', None)
    env.pop('RUSTFLAGS', None)
    cmd = ['cargo'] + (['+' + toolchain] if toolchain else []) + ['check', '--offline', '--quiet']
    r = subprocess.run(cmd, cwd=cdir, env=env, stdout=subprocess.PIPE, stderr=subprocess.STDOUT, text=True)
    out = r.stdout
    shutil.rmtree(cdir, ignore_errors=True)
    if want_error is None:
        return r.returncode == 0, out[-3000:]
    codes = set()
    for line in out.splitlines():
        if line.startswith('error[E'):
            codes.add(line[6:11])
    return (r.returncode != 0 and codes == {want_error}), 'exit=%d codes=%s' % (r.returncode, sorted(codes))
