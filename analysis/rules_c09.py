"""C09: setup phase (DESIGN 4 C09)."""
from . import bits as B
from .bits import C0, C1
from .values import BV, Struct, Enum, Ref, Seq, Term, Ite, HF, TRUE, FALSE
from .mai import State, Undecided
from . import inputs, rules_c02
from .common import fmt_lits, real_lits, fmt_deps
from .rules_c01 import TYPE_VAR
from .rules_c03 import take, fld, play_of, affine_of, recorded_boards
from .rules_c04 import eval_deep
from .rules_hash import ROW_TYPES
from spec import geometry as G

GS = 'engine::GameState'
PP = 'engine::PlayPhase'


def gold_home_full_bit(I):
    """the bit "all 16 gold home squares hold gold pieces", built in the domain from the geometry"""
    x = BV([B.lit(('p1', i)) if (G.GOLD_HOME >> i) & 1 else C0 for i in range(64)])
    return I.eq_bit(x, BV.const(G.GOLD_HOME, 64))


def placement_value(I, prog, assume=None):
    fn = prog.one('PieceBoardState::placement_bit')
    st = State({}, (assume,) if assume is not None else ())
    pb = inputs.ref_to(I, st, 'pb', inputs.board(prog))
    r, _ = I.call_fn(fn, [pb], st)
    return r


def check_placement_bit(ctx, prog, I):
    ctx.rule('C09.2', 'placement_bit() is the first free square of the mover\'s home ranks in the order Gold a2..h2,a1..h1 / Silver '
                      'a8..h8,a7..h7: bit i requires square i free and every earlier square of that order occupied; Silver\'s order is '
                      'used exactly when all 16 gold home squares hold gold pieces')
    fn = prog.one('PieceBoardState::placement_bit')
    if not ctx.anchor('fn placement_bit', fn is not None):
        return None
    full = gold_home_full_bit(I)
    okf = {(('p1', j), True) for j in G.GOLD_ORDER} <= B.must(full) and B.deps(full) == {('p1', j) for j in G.GOLD_ORDER}
    ctx.ob('"gold home full" test: requires a gold piece on each of the 16 gold home squares, nothing else', okf, sample=True)
    merged = placement_value(I, prog)
    okc = isinstance(merged, BV) and any(('@', a.id) in B.rawvars(b) for b in merged.bits for a in
                                          [B.ATOMS[v[1]] for v in B.rawvars(full) if v[0] == '@'])
    ctx.ob('placement_bit switches between the two home areas on exactly that test', okc)
    if not okc:
        ctx.finding('C09.2', fn, 'switch-condition', 'placement_bit does not choose Silver\'s squares by the test "all 16 gold home squares '
                    'hold gold pieces"')
        return None
    for order, name, gold in ((G.GOLD_ORDER, 'gold', True), (G.SILVER_ORDER, 'silver', False)):
        r = placement_value(I, prog, assume=(B.bnot(full) if gold else full))
        if not isinstance(r, BV):
            ctx.ob('placement_bit is a bit vector', False)
            ctx.finding('C09.2', fn, 'shape', 'placement_bit evaluates to %r' % (r,))
            return None
        other = G.SILVER_ORDER if gold else G.GOLD_ORDER
        stray = [i for i in range(64) if i not in order and r.bits[i] is not C0]
        ctx.ob('%s placing: only %s home squares can be chosen' % (name, name), not stray)
        if stray:
            ctx.finding('C09.2', fn, 'area:%s' % name, 'while %s is placing, squares %s can be chosen' % (name, [G.name(i) for i in stray]))
        for k, i in enumerate(order):
            b = r.bits[i]
            m = B.must(b)
            need = {(('all', i), False)} | {(('all', j), True) for j in order[:k]}
            okm = need <= m
            later = {('all', j) for j in order[k + 1:]}
            okd = not (B.deps(b) & later)
            okg = True
            ctx.ob('placement bit %s (%s #%d): free, all earlier squares occupied, independent of later ones' % (G.name(i), name, k + 1),
                   okm and okd and okg, sample=(k in (0, 8, 15)))
            if not okm:
                ctx.finding('C09.2', fn, 'order:%s' % name, '%s placement square %s (#%d in order): must-literals %s do not include "free and all '
                            'earlier squares occupied"' % (name, G.name(i), k + 1, fmt_lits(real_lits(b))))
            if not okd:
                ctx.finding('C09.2', fn, 'order-later:%s' % name, '%s placement square %s depends on later squares of the order' % (name, G.name(i)))
            if not okg:
                ctx.finding('C09.2', fn, 'switch-condition', 'Silver\'s squares are used without requiring all gold home squares to hold gold pieces')
    return merged


def check_place_transitions(ctx, prog, I):
    ctx.rule('C09.3', 'take_action(Place(p)): exactly the board of type p gains the placement bit (never loses one), the gold board gains '
                      'it iff Gold is placing, all_pieces is the union; after h1 Silver is on move, after h7 play starts (Gold to move, move '
                      'number 2, fresh turn record, history = [hash]); otherwise same side, setup continues, move number 1; hash gains '
                      'SQUARE[row(p, mover)][square] ^ [switch]PLAYER_TO_MOVE ^ [play starts]STEP[0]')
    fn = prog.one('GameState::take_action')
    pbit = placement_value(I, prog)
    if not isinstance(pbit, BV):
        return
    a1 = I.eq_bit(pbit, BV.const(G.LAST_GOLD_PLACEMENT, 64))
    a2 = I.eq_bit(pbit, BV.const(G.LAST_SILVER_PLACEMENT, 64))
    ids = {}
    for nm, bit in (('A1', a1), ('A2', a2)):
        ats = [v for v in B.rawvars(bit) if v[0] == '@']
        if len(ats) != 1:
            ctx.finding('UNDECIDED', fn, 'place-atoms', 'cannot name the last-placement tests')
            return
        pol = bit is B.atom_bit(B.ATOMS[ats[0][1]])
        ids[nm] = (ats[0][1], pol)
    place_v = inputs.enum_variant(prog, 'action::Action', 'Place')
    board = inputs.board(prog)
    old = rules_c02.board_fields(prog, board)
    for gold in (True, False):
        side = 'gold' if gold else 'silver'
        for p in G.STRENGTH:
            gsv = inputs.place_state(prog, gold)
            r = take(I, prog, gsv, Enum('action::Action', place_v, (inputs.piece(prog, p),)))
            nb = rules_c02.board_fields(prog, fld(prog, GS, r, 'piece_board').fields[0])
            mode = '%s places %s' % (side, p)
            ctx.count('place_modes')
            bad = None
            for name in ('e', 'm', 'h', 'd', 'c', 'r'):
                for i in range(64):
                    b = nb[name].bits[i]
                    if name == TYPE_VAR[p]:
                        want = B.bor(old[name].bits[i], pbit.bits[i])
                        if b is not want:
                            bad = 'board of the placed type, square %s: not "old bit or placement bit"' % G.name(i)
                    else:
                        if b is not old[name].bits[i]:
                            bad = 'board %s changes at %s although a %s is placed' % (name, G.name(i), p)
                    if bad:
                        break
                if bad:
                    break
            if not bad:
                for i in range(64):
                    want = B.bor(old['p1'].bits[i], pbit.bits[i]) if gold else old['p1'].bits[i]
                    if nb['p1'].bits[i] is not want:
                        bad = 'gold board at %s: %s' % (G.name(i), 'does not gain the placed bit' if gold else 'changes although Silver is placing')
                        break
            if not bad:
                for i in range(64):
                    d = B.deps(nb['all'].bits[i])
                    if nb['all'].bits[i] is B.bor(old['all'].bits[i], pbit.bits[i]):
                        continue      # all_pieces gains the placement bit: with all = union before (C10), it is the union after
                    if not ({(t, i) for t in ('e', 'm', 'h', 'd', 'c', 'r')} <= d and B.deps(pbit.bits[i]) <= d):
                        bad = 'all_pieces at %s is not the union of the six new type boards' % G.name(i)
                        break
            ctx.ob('[%s] board update: only the %s board (and gold board iff Gold) gains the placement bit' % (mode, p), bad is None,
                   sample=(p == 'Camel'))
            if bad:
                ctx.finding('C09.3', fn, 'board:%s:%s' % (p, side), 'mode [%s]: %s' % (mode, bad))
            # decision table over (A1, A2)
            for case, (v1, v2) in (('ordinary', (0, 0)), ('after h1', (1, 0)), ('after h7', (0, 1))):
                asg = {ids['A1'][0]: v1 if ids['A1'][1] else 1 - v1, ids['A2'][0]: v2 if ids['A2'][1] else 1 - v2}
                sidev = eval_deep(fld(prog, GS, r, 'p1_turn_to_move'), asg) if not isinstance(fld(prog, GS, r, 'p1_turn_to_move'), BV) else \
                    eval_bv(fld(prog, GS, r, 'p1_turn_to_move'), asg)
                want_side = {'ordinary': gold, 'after h1': False, 'after h7': True}[case]
                ph = eval_deep(fld(prog, GS, r, 'phase'), asg)
                mn = eval_num(fld(prog, GS, r, 'move_number'), asg)
                want_mn = 2 if case == 'after h7' else 1
                is_play = isinstance(ph, Enum) and ph.var == inputs.enum_variant(prog, 'engine::Phase', 'PlayPhase')
                ok = sidev == want_side and mn == want_mn and is_play == (case == 'after h7')
                ctx.ob('[%s, %s] side=%s move number=%s play phase=%s' % (mode, case, sidev, mn, is_play), ok,
                       sample=(p == 'Rabbit' and case != 'ordinary'))
                if not ok:
                    ctx.finding('C09.3', fn, 'switch:%s:%s' % (case.replace(' ', '-'), side),
                                'mode [%s, %s]: afterwards gold-to-move=%s (expected %s), move number %s (expected %s), play phase=%s'
                                % (mode, case, sidev, want_side, mn, want_mn, is_play))
                if case == 'after h7' and is_play:
                    pl = ph.fields[0]
                    newh = eval_deep_hf(fld(prog, GS, r, 'hash'), asg, I)
                    prev = recorded_boards(I, prog, pl)
                    pps = fld(prog, PP, pl, 'push_pull_state')
                    tr = fld(prog, PP, pl, 'piece_trapped_this_turn')
                    ih = fld(prog, PP, pl, 'initial_hash_of_move')
                    hist = fld(prog, PP, pl, 'hash_history')
                    from .rules_rep import list_head
                    hd = list_head(prog, hist)
                    ok = isinstance(prev, Seq) and len(prev.items) == 0 and isinstance(pps, Enum) and \
                        pps.var == inputs.enum_variant(prog, 'engine::PushPullState', 'None') and isinstance(tr, BV) and tr.known() and \
                        tr.uval() == 0 and ih == fld(prog, GS, r, 'hash') and hd is not None and hd[0] == fld(prog, GS, r, 'hash') and \
                        isinstance(hd[1], Enum) and hd[1].var == 0
                    ctx.ob('[%s] play starts with step 0, nothing pending, turn-start hash = hash, history = [hash]' % mode, ok)
                    if not ok:
                        ctx.finding('C09.3', fn, 'play-start:%s' % side, 'mode [%s]: the first play state does not start a fresh turn record' % mode)
            # hash
            h = fld(prog, GS, r, 'hash').fields[0]
            ok = isinstance(h, HF)
            if ok:
                terms = {s: g for s, g in h.terms}
                row = ROW_TYPES.index(p) + (0 if gold else 6)
                sq_terms = [s for s in terms if s[0] == 'SQ']
                ok = len(sq_terms) == 1 and sq_terms[0][1] == row and isinstance(sq_terms[0][2], Term) and sq_terms[0][2].kind == 'tz' \
                    and terms[sq_terms[0]] is C1 and terms.get(('OPAQUE', 'h')) is C1
                gp = terms.get(('P',), C0)
                gs_ = terms.get(('STEP', 0), C0)
                ok = ok and (gp is B.bor(a1, a2) or gp is B.bxor(a1, a2)) and gs_ is a2 and set(s[0] for s in terms) <= {'SQ', 'OPAQUE', 'P', 'STEP'}
                if ok and isinstance(sq_terms[0][2].args[0], BV):
                    ok = sq_terms[0][2].args[0] == pbit or _same_tz(sq_terms[0][2].args[0], pbit)
            ctx.ob('[%s] hash gains SQUARE[row %s %s][placement square] ^ [h1 or h7]PLAYER_TO_MOVE ^ [h7]STEP[0]' % (mode, side, p), ok,
                   sample=(p == 'Dog' and gold))
            if not ok:
                ctx.finding('C09.3', fn, 'hash:%s:%s' % (p, side), 'mode [%s]: placement hash is %r' % (mode, h))


def _same_tz(a, b):
    return all(x is y for x, y in zip(a.bits, b.bits))


def eval_bv(v, asg):
    b = v.bits[0]
    if b.kind == 'c':
        return bool(b.tt)
    if b.kind == 's' and all(x[0] == '@' and x[1] in asg for x in b.sup):
        i = 0
        for j, x in enumerate(b.sup):
            i |= asg[x[1]] << j
        return bool(b.tt[i])
    return None


def eval_num(v, asg):
    v = eval_deep(v, asg)
    if isinstance(v, BV):
        if v.known():
            return v.uval()
        out = 0
        for i, b in enumerate(v.bits):
            if b.kind == 'c':
                val = b.tt
            elif b.kind == 's' and all(x[0] == '@' and x[1] in asg for x in b.sup):
                k = 0
                for j, x in enumerate(b.sup):
                    k |= asg[x[1]] << j
                val = b.tt[k]
            else:
                return None
            out |= val << i
        return out
    return None


def eval_deep_hf(v, asg, I):
    return v
