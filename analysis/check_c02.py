from . import rules_c02, rules_geom, inputs
from .check_c01 import QUICK_SQUARES


def self_controls(prog, facts):
    from . import perturb
    from spec import geometry as G
    bad_mask = G.TRAP_MASK ^ (1 << G.sq('f', 6)) ^ (1 << G.sq('e', 6))

    def rule(c, p2):
        rules_c02.check_capture_footprint(c, p2, inputs.make_interp(p2))
    return perturb.run_controls([('trap mask bit moved', lambda f: perturb.perturb_const(f, 'TRAP_MASK', bad_mask), rule, 'C02.3')], facts)

def run(ctx, prog, facts, tier):
    I = inputs.make_interp(prog, fuel=5000000)
    mvs = rules_c02.moves(tier == 'quick', QUICK_SQUARES if tier == 'quick' else None)
    rules_geom.check_constants(ctx, prog, which=['TRAP_MASK', 'LEFT_COLUMN_MASK', 'RIGHT_COLUMN_MASK', 'TOP_ROW_MASK',
                                                 'BOTTOM_ROW_MASK'], rule='C02.F')
    rules_geom.check_traps_nonadjacent(ctx, prog)
    rules_c02.check_move_footprint(ctx, prog, I, mvs)
    rules_c02.check_capture_footprint(ctx, prog, I)
    from . import rules_local
    rules_local.check_capture_tables(ctx, prog, I)
    from . import rules_c01
    rules_c01.check_support_argument(ctx, prog)
    rules_c02.check_take_action_composition(ctx, prog, I, mvs if tier != 'quick' else mvs[::3])
    rules_c02.check_step_semantics(ctx, prog, rules_c02.step_semantics_moves(tier == 'quick'))
    ctx.floor('C02 move modes', ctx.analysed.get('move_modes', 0), len(mvs))
    ctx.exhaustive = tier != 'quick'
    ctx.assumptions += [
        'polarity of "unsupported" is decided by exact tables over the presence of the four neighbours (all colour combinations, all traps); NOT decided: that the destination was empty (C01 clause); '
        'material monotonicity over whole games (follows from the per-step clauses by induction, not mechanised)',
        'a may-dependence is a real dependence (no cancellation inside the formulas)']
    return ('Bit-level abstract interpretation of PieceBoard::move_piece, trapped_piece_bits, remove_trapped_pieces and of '
            'GameState::take_action: per-bit footprints on all 8 bitboards for every on-board (square, direction), capture '
            'footprints on the four traps, and value-equality of take_action\'s stored board with move-then-remove.',
            ['factgen MIR export', 'std summaries'])
