//! Failing twin of send_sync_pass: the same `ok::<..>()` obligation against a copy of the
//! persistent list that uses `Rc`. Must fail with E0277 - shows the witness is able to fail.
use std::rc::Rc;

pub struct List<T> {
    head: Option<Rc<Node<T>>>,
}
struct Node<T> {
    elem: T,
    next: Option<Rc<Node<T>>>,
}
impl<T> List<T> {
    pub fn new() -> Self {
        List { head: None }
    }
    pub fn append(&self, elem: T) -> List<T> {
        List { head: Some(Rc::new(Node { elem, next: self.head.clone() })) }
    }
    pub fn head(&self) -> Option<&T> {
        self.head.as_ref().map(|n| { let _ = &n.next; &n.elem })
    }
}

fn ok<T: Send + Sync + 'static>() {}

pub fn witness() {
    ok::<List<u64>>();
}
