//! Compile-pass witness for C18: every public state type is Send + Sync + 'static, and one
//! `&GameState` can be expanded from two scoped threads. It is only type-checked, never run.
use arimaa_engine_step::*;

fn ok<T: Send + Sync + 'static>() {}

pub fn witness() {
    ok::<GameState>();
    ok::<PieceBoardState>();
    ok::<PieceBoard>();
    ok::<PlayPhase>();
    ok::<Phase>();
    ok::<PushPullState>();
    ok::<Action>();
    ok::<Square>();
    ok::<Piece>();
    ok::<Direction>();
    ok::<Zobrist>();
    ok::<List<Zobrist>>();
    ok::<Terminal>();
}

pub fn shared_expand(gs: &GameState, a: &Action) {
    std::thread::scope(|s| {
        s.spawn(|| gs.valid_actions());
        s.spawn(|| gs.take_action(a));
        s.spawn(|| gs.is_terminal());
        s.spawn(|| gs.clone());
    });
}
