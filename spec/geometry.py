"""Board geometry written from first principles (the oracle for constant and footprint rules).

Bit i denotes file i mod 8 (a..h) and rank 8 - i div 8: a8 = 0, h8 = 7, a1 = 56, h1 = 63.
Nothing here is derived from the crate."""

FILES = 'abcdefgh'


def sq(file_, rank):
    """file 'a'..'h', rank 1..8 -> bit index"""
    return FILES.index(file_) + (8 - rank) * 8


def name(i):
    return FILES[i % 8] + str(8 - i // 8)


def file_of(i):
    return i % 8


def rank_of(i):
    return 8 - i // 8


def mask(squares):
    m = 0
    for s in squares:
        m |= 1 << s
    return m


ALL = list(range(64))
LEFT_COLUMN = mask(i for i in ALL if file_of(i) == 0)
RIGHT_COLUMN = mask(i for i in ALL if file_of(i) == 7)
TOP_ROW = mask(i for i in ALL if rank_of(i) == 8)
BOTTOM_ROW = mask(i for i in ALL if rank_of(i) == 1)
GOLD_HOME = mask(i for i in ALL if rank_of(i) in (1, 2))
SILVER_HOME = mask(i for i in ALL if rank_of(i) in (7, 8))
TRAPS = [sq('c', 3), sq('f', 3), sq('c', 6), sq('f', 6)]
TRAP_MASK = mask(TRAPS)
GOLD_GOAL = TOP_ROW       # gold rabbits run to rank 8
SILVER_GOAL = BOTTOM_ROW  # silver rabbits run to rank 1
# setup order: Gold a2..h2 then a1..h1; Silver a8..h8 then a7..h7
GOLD_ORDER = [sq(f, 2) for f in FILES] + [sq(f, 1) for f in FILES]
SILVER_ORDER = [sq(f, 8) for f in FILES] + [sq(f, 7) for f in FILES]
LAST_GOLD_PLACEMENT = mask([GOLD_ORDER[-1]])
LAST_SILVER_PLACEMENT = mask([SILVER_ORDER[-1]])

# directions as the crate names them (Up = towards rank 8)
DELTA = {'Up': -8, 'Right': +1, 'Down': +8, 'Left': -1}
OPPOSITE = {'Up': 'Down', 'Down': 'Up', 'Left': 'Right', 'Right': 'Left'}


def step(i, d):
    """square reached from i in direction d, or None off-board"""
    f, r = file_of(i), rank_of(i)
    if d == 'Up':
        r += 1
    elif d == 'Down':
        r -= 1
    elif d == 'Right':
        f += 1
    elif d == 'Left':
        f -= 1
    if 0 <= f < 8 and 1 <= r <= 8:
        return f + (8 - r) * 8
    return None


def neighbours(i):
    return [s for s in (step(i, d) for d in ('Up', 'Right', 'Down', 'Left')) if s is not None]


def mirror_file(i):
    return (7 - file_of(i)) + (8 - rank_of(i)) * 8


def flip_rank(i):
    return file_of(i) + (rank_of(i) - 1) * 8


def map_mask(m, f):
    return mask(f(i) for i in ALL if (m >> i) & 1)


# official strength order, weakest first
STRENGTH = ['Rabbit', 'Cat', 'Dog', 'Horse', 'Camel', 'Elephant']
FULL_COMPLEMENT = {'Elephant': 1, 'Camel': 1, 'Horse': 2, 'Dog': 2, 'Cat': 2, 'Rabbit': 8}
LETTER = {'Elephant': 'e', 'Camel': 'm', 'Horse': 'h', 'Dog': 'd', 'Cat': 'c', 'Rabbit': 'r'}
DIR_LETTER = {'Up': 'n', 'Right': 'e', 'Down': 's', 'Left': 'w'}
